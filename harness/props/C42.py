"""C42 — Filter expressions mean what the documented grammar says (mitmproxy/flowfilter.py)."""
import io
import itertools
import re
import zlib

from lib.coqterm import cbytes, cbool, clist, copt, cN

ID = "C42"
QUICK_N = 600
THOROUGH_N = 4000
SHARD = 150
TRANSLATORS = ["flowfilter_atoms"]
COQ_PRELUDE = "From MV Require Import Model.FilterGrammar Model.FilterBody Model.FilterHeader.\n"
RULE = ("12% header-operator cases: ~t ~tq ~ts ~h ~hq ~hs ~a on real HTTP flows whose Content-Type header is absent, present once or repeated (different values, different case of the name, empty value, look-alike names), regex pool with empty-matching and anchored patterns; 10% body-operator cases: ~b / ~bq / ~bs with a regex from a pool that includes patterns matching the empty string (^$ .* x* (foo)? and the empty regex) applied by the real filter to a real HTTP flow whose request / response body is absent (None), present-and-empty or non-empty, with or without websocket messages, or to TCP / UDP / DNS / other flows; the rest: 62% expression trees (depth <= 5, thorough <= 6; parenthesis / negation nesting bounded because the real parser is exponential in it) over every unary / regex / int operator with arguments from a "
        "dictionary of regex-like words (operators, quotes, backslashes, parentheses, non-ASCII, empty), rendered by the harness "
        "renderer (mirror of the model's render; equality is part of the correspondence check) with random whitespace, redundant "
        "parentheses, explicit & vs juxtaposition, naked vs ~u, bare / raw-quoted / escape-quoted arguments, inside the guard of "
        "C42_partial; 10% trees with juxtaposition off the top-level spine and 5% with raw-quoted backslashes (documented syntax "
        "outside the guard: the known findings); 23% adversarial strings: token soup over codes, operators, quotes, escapes "
        "(octal / hex / unicode), whitespace, invalid regexes, and single-character mutations of rendered strings. "
        "Non-trivial = contains an operator, parenthesis, quote or code; distinct by canonical JSON.")
TRUSTED = ["Coq 8.16.1 kernel (coqc), vm_compute for case evaluation and table facts",
           "harness/props/C42.py generator, renderer mirror and comparison glue (Corr/C42.v)",
           "harness/translators/flowfilter_atoms.py (ast extraction of the atom tables, character classes and operator table)",
           "hand model of pyparsing 3.3.2 Literal/WordEnd/CharsNotIn/Word/QuotedString/MatchFirst/infix_notation/OneOrMore "
           "semantics (pyparsing is the contract); tied by correspondence only",
           "re.compile acceptance of each argument is an input of the model (rex_ok), observed from the implementation"]
ASSUMPTIONS = ["filter strings are compared as UTF-8 bytes (all reserved characters are ASCII)",
               "atom verdicts on flows are those of the real atom classes; the theorems quantify over every valuation of atoms"]

WS = " \t\n\r"
ARGS = ["foo", "a.*b", "x|y", "a&b", "!z", "\\d+", "[a-z]+", "(g|h)", "a b", "it's", 'say "hi"', "back\\\\slash", "été",
        "", "~x", "GET", "address", "example|foo", "text/html", "content-type", "hello", "127", ":22", ".", "^$", "msg",
        "dns", "&", "|", "!", "&x", "|x", "200", "a\nb", "c\rd", "t\tu", "\\\\", "q\\.", "\\n", "\\x41", "w\\.x",
        "POST|GET", "image/.*", "host", "mitm", "'", '"', "a\\)", "\\(b", "x y z", "☃", "a~b", "no\\tab"]
ARGS_BAD = ["*", "[", "\\", "q\\", "a)", "(b", "(?P<", "+x"]


def _tables():
    global _T
    try:
        return _T
    except NameError:
        from mitmproxy import flowfilter as ff
        _T = {"unary": [c.code for c in ff.filter_unary], "rex": [c.code for c in ff.filter_rex],
              "int": [c.code for c in ff.filter_int], "naked": ff.FUrl.code}
        return _T


# ---------------------------------------------------------------- renderer (mirror of Model/FilterGrammar.v)
def sget(st, k):
    d = {"pars": [], "naked": False, "qs": ["esc", 0], "juxt": False, "w1": "", "w2": "", "c1": None, "c2": None}
    return d[k] if st is None or k not in st else st[k]


WORD_EXCL = set("()~'\"" + WS)
QUOTES = '"\''


def ends_word(s):
    return bool(s) and s[-1] not in WORD_EXCL


def ws1(w):
    return w if w else " "


def sep(left, w):
    return ws1(w) if ends_word(left) else w


def escape(q, a):
    out = []
    for c in a:
        if c == q or c == "\\":
            out.append("\\" + c)
        elif c == "\n":
            out.append("\\n")
        elif c == "\r":
            out.append("\\r")
        else:
            out.append(c)
    return "".join(out)


def render_arg(qs, a):
    if qs[0] == "bare":
        return a
    q = QUOTES[qs[1]]
    return q + (a if qs[0] == "raw" else escape(q, a)) + q


def render_atom(a, st):
    kind, code, arg = a
    if kind == "u":
        return "~" + code
    if kind == "i":
        return "~" + code + ws1(sget(st, "w1")) + arg
    qs = sget(st, "qs")
    if sget(st, "naked") and code == _tables()["naked"]:
        return render_arg(qs, arg)
    return "~" + code + (ws1(sget(st, "w1")) if qs[0] == "bare" else sget(st, "w1")) + render_arg(qs, arg)


def lvl(e):
    return {"or": 0, "and": 1}.get(e[0], 2)


def render(e, st, ctx):
    if e[0] == "atom":
        co = render_atom(e[1], st)
    elif e[0] == "not":
        co = "!" + sget(st, "w1") + render(e[1], sget(st, "c1"), 2)
    elif e[0] == "and":
        L = render(e[1], sget(st, "c1"), 1)
        mid = sep(L, sget(st, "w1")) if sget(st, "juxt") else sep(L, sget(st, "w1")) + "&" + sget(st, "w2")
        co = L + mid + render(e[2], sget(st, "c2"), 2)
    else:
        L = render(e[1], sget(st, "c1"), 0)
        co = L + sep(L, sget(st, "w1")) + "|" + sget(st, "w2") + render(e[2], sget(st, "c2"), 1)
    ps = sget(st, "pars")
    if not ps:
        return "(" + co + ")" if lvl(e) < ctx else co
    for a, b in reversed(ps):
        co = "(" + a + co + b + ")"
    return co


# ---------------------------------------------------------------- guards (mirror)
def arg_ok(qs, is_naked, a):
    if qs[0] == "bare":
        return bool(a) and all(c not in WORD_EXCL for c in a) and not (is_naked and a[0] in "!&|")
    if qs[0] == "raw":
        return all(c != QUOTES[qs[1]] and c not in "\\\n\r" for c in a)
    return True


def atoms_ok(e):
    if e[0] == "atom":
        kind, code, arg = e[1]
        t = _tables()
        if kind == "u":
            return code in t["unary"]
        if kind == "r":
            return code in t["rex"]
        return code in t["int"] and bool(arg) and all(c in "0123456789" for c in arg)
    return all(atoms_ok(x) for x in e[1:])


def quoting_ok(e, st):
    if e[0] == "atom":
        kind, code, arg = e[1]
        return kind != "r" or arg_ok(sget(st, "qs"), sget(st, "naked") and code == _tables()["naked"], arg)
    if e[0] == "not":
        return quoting_ok(e[1], sget(st, "c1"))
    return quoting_ok(e[1], sget(st, "c1")) and quoting_ok(e[2], sget(st, "c2"))


def juxt_free(e, st):
    if e[0] == "atom":
        return True
    if e[0] == "not":
        return juxt_free(e[1], sget(st, "c1"))
    if e[0] == "and" and sget(st, "juxt"):
        return False
    return juxt_free(e[1], sget(st, "c1")) and juxt_free(e[2], sget(st, "c2"))


def juxt_top(e, st):
    if e[0] == "and" and sget(st, "juxt"):
        return not sget(st, "pars") and juxt_top(e[1], sget(st, "c1")) and juxt_free(e[2], sget(st, "c2"))
    return juxt_free(e, st)


def repaired(st, e):
    """the same style with juxtaposition made explicit and raw quoting replaced by escaped quoting"""
    if st is None:
        return None
    st = dict(st)
    st["juxt"] = False
    if st.get("qs", ["esc", 0])[0] == "raw":
        st["qs"] = ["esc", st["qs"][1]]
    if e[0] != "atom":
        st["c1"] = repaired(st.get("c1"), e[1])
        if e[0] != "not":
            st["c2"] = repaired(st.get("c2"), e[2])
    return st


def nest(e, st, ctx):
    """nesting cost of the rendering: pyparsing's infix_notation (no packrat) re-parses every parenthesised group
    about 8 times and every negated operand twice, so the real parser is exponential in this number"""
    n = 3 * len(sget(st, "pars")) + (3 if not sget(st, "pars") and lvl(e) < ctx else 0)
    inner = 0 if sget(st, "pars") else ctx
    if e[0] == "atom":
        return n
    if e[0] == "not":
        return n + 1 + nest(e[1], sget(st, "c1"), 2)
    if e[0] == "and":
        return n + max(nest(e[1], sget(st, "c1"), 1), nest(e[2], sget(st, "c2"), 2))
    return n + max(nest(e[1], sget(st, "c1"), 0), nest(e[2], sget(st, "c2"), 1))


def nest_str(s):
    d = mx = 0
    for ch in s:
        if ch == "(":
            d += 3
        elif ch == ")":
            d = max(0, d - 3)
        elif ch == "!":
            d += 1
        mx = max(mx, d)
    return mx


# ---------------------------------------------------------------- generator
def gen_ws(rng, p=0.5):
    if rng.chance(p):
        return ""
    return "".join(rng.choice(WS) if rng.chance(0.3) else " " for _ in range(rng.randint(1, 2)))


def gen_atom(rng):
    t = _tables()
    r = rng.random()
    if r < 0.3:
        return ["u", rng.choice(t["unary"]), ""]
    if r < 0.4:
        return ["i", rng.choice(t["int"]), rng.choice(["200", "0200", "404", "0", "7", "000", "99999999999999999999"])]
    code = t["naked"] if rng.chance(0.4) else rng.choice(t["rex"])
    return ["r", code, rng.choice(ARGS_BAD) if rng.chance(0.05) else rng.choice(ARGS)]


def gen_expr(rng, depth):
    if depth == 0 or rng.chance(0.25):
        return ["atom", gen_atom(rng)]
    r = rng.random()
    if r < 0.2:
        return ["not", gen_expr(rng, depth - 1)]
    return ["and" if r < 0.62 else "or", gen_expr(rng, depth - 1), gen_expr(rng, depth - 1)]


def gen_style(rng, e, spine, mode):
    """spine: this node may use juxtaposition inside the guard. mode: guard | juxt | raw"""
    if rng.chance(0.08) and e[0] != "atom":
        return None
    st = {"w1": gen_ws(rng), "w2": gen_ws(rng)}
    npar = rng.weighted([(80, 0), (15, 1), (4, 2), (1, 3)])
    if e[0] == "and":
        wantj = rng.chance(0.45)
        if mode == "juxt":
            st["juxt"] = wantj
        else:
            st["juxt"] = wantj and spine
            if st["juxt"]:
                npar = 0
    st["pars"] = [[gen_ws(rng, 0.7), gen_ws(rng, 0.7)] for _ in range(npar)]
    if e[0] == "atom":
        kind, code, arg = e[1]
        if kind == "r":
            st["naked"] = rng.chance(0.6)
            nk = st["naked"] and code == _tables()["naked"]
            opts = [["esc", 0], ["esc", 1]]
            for q in (["bare"], ["raw", 0], ["raw", 1]):
                if arg_ok(q, nk, arg):
                    opts += [q, q]
            if mode == "raw" and "\\" in arg and "\n" not in arg and "\r" not in arg and rng.chance(0.7):
                opts = [["raw", k] for k in (0, 1) if QUOTES[k] not in arg] or opts
            st["qs"] = rng.choice(opts)
        return st
    inner_spine = spine and e[0] == "and" and st.get("juxt", False) and not st["pars"]
    st["c1"] = gen_style(rng, e[1], inner_spine, mode)
    if e[0] != "not":
        st["c2"] = gen_style(rng, e[2], False, mode)
    return st


SOUP = ["~q", "~s", "~a", "~all", "~u", "~h", "~hq", "~b", "~bq", "~c", "~marked", "~marker", "~replayq", "~dns", "~d", "~dst", "~m",
        "~t", "~ts", "~meta", "~comment", "~x", "~", "~qq", "~c1", "!", "&", "|", "(", ")", "((", "))", "!!", "&&", "||", " ", " ", " ",
        "\t", "\n", "\r", "\x0b", "\x0c", " ", "foo", "a.*b", "200", "0", "x|y", "a&b", "!z", "[", "*", "(?", "\\d", "\\", "'", '"',
        "'a b'", '"a b"', '"\\""', "'\\''", '"\\n"', '"\\t"', '"\\x41"', '"\\101"', '"\\0"', '"\\u00e9"', '"\\x4"', '"\\8"', '"\\\\"',
        '"a\nb"', '"["', "'*'", '"\\u2603"', "é", "☃", "\U0001f600", "GET", "~u foo", "~c 200", "~b 'x y'", "(~q)", "(a b)",
        '"\\73"', '"\\03"', '"\\04"', '"\\xA2"', '"\\x42"', '"\\u14"', '"\\uf4z"', '"\\83"', '"\\x2"',
        '"\\12"', '"\\1234"', '"\\xg1"', '"\\uD7FF"', '"\\f\\r"', "'\\\"'", '""', "''", "~c 12a", "~qa", "~q.", "~q!", "~hq)"]


BODY_REX = ["^$", ".*", "x*", "(foo)?", "", "hello", ".", "^.", "\\Z", "a+", "HELLO", "h.llo", "foo|", "\\A", "b*$", "msg",
            "[^x]", "\n", "^\\s*$", "(?s).*", "x?"]
BODY_CONTENT = [None, None, "", "", "", "68656c6c6f20666f6f", "610a62", "58", "6d7367", "0a"]


def gen_body(rng):
    def content(allow_none=True):
        c = rng.choice(BODY_CONTENT)
        while c is None and not allow_none:
            c = rng.choice(BODY_CONTENT)
        return c

    def msgs():
        return [[rng.chance(0.5), content(False)] for _ in range(rng.randint(0, 3))]
    t = rng.weighted([(70, "http"), (10, "tcp"), (6, "udp"), (8, "dns"), (6, "other")])
    if t == "http":
        ws = msgs() if rng.chance(0.2) else None
        resp = rng.weighted([(25, "absent"), (75, "present")]) if ws is None else "present"
        fl = {"t": "http", "req": content(), "resp": resp, "resp_body": content() if resp == "present" else None, "ws": ws}
    elif t in ("tcp", "udp"):
        fl = {"t": t, "msgs": msgs()}
    elif t == "dns":
        fl = {"t": "dns", "resp": rng.chance(0.5)}
    else:
        fl = {"t": "other"}
    return {"k": "body", "op": rng.choice(["b", "bq", "bs"]), "rex": rng.choice(BODY_REX), "flow": fl}


HDR_CT = [["content-type", "text/html"], ["Content-Type", "application/json"], ["CONTENT-TYPE", "image/png"], ["content-type", ""],
          ["Content-type", "text/css"], ["content-type", "font/woff"], ["content-type", "TEXT/JAVASCRIPT"], ["content-type", "text/javascript"],
          ["content-type", "application/font-sfnt"], ["Content-Type", "text/html; charset=utf-8"], ["content-type", "app"],
          ["content-type", "application/x-javascript"]]
HDR_OTHER = [["x-content-type", "text/css"], ["host", "example.com"], ["accept", "text/html, app"], ["content-type-x", "image/gif"],
             ["content-length", "0"], ["X-Empty", ""]]
HDR_REX = ["", ".*", "^", "x*", "^$", "^application", "html$", "html, app", "text/html", "JSON", "image", "content-type", "^content-type: text",
           "example", "^host", "type: .*html\\r?$", "css", "^text", "app$", "(foo)?", "png|css", "\\Ahost", "x-empty: \\r"]
HDR_REX_CT = ["", ".*", "^", "x*", "^$", "(foo)?", "^application", "html$", "app$", "^text", "html, app", "^image", "css$", "json$"]
HDR_OPS = ["t", "tq", "ts", "h", "hq", "hs", "a"]


def gen_hdr(rng):
    def fields():
        fs = [rng.choice(HDR_CT) for _ in range(rng.weighted([(30, 0), (25, 1), (30, 2), (15, 3)]))]
        fs += [rng.choice(HDR_OTHER) for _ in range(rng.randint(0, 2))]
        return rng.shuffle(fs)
    t = rng.weighted([(90, "http"), (10, "other")])
    fl = {"t": t}
    if t == "http":
        fl["req"] = fields()
        fl["resp"] = fields() if rng.chance(0.75) else None
    else:
        fl["kind"] = rng.choice(["tcp", "dns", "udp"])
    op = rng.choice(["t", "tq", "ts", "a"] * 2 + ["h", "hq", "hs"])
    rex = rng.choice(HDR_REX_CT) if op[0] == "t" and rng.chance(0.6) else rng.choice(HDR_REX)
    return {"k": "hdr", "op": op, "rex": rex, "flow": fl}


def gen(rng, n, tier):
    out = []
    maxd = 6 if tier == "thorough" else 5
    maxnest = 10 if tier == "thorough" else 9
    rendered = []
    while len(out) < n:
        r = rng.random()
        if r < 0.10:
            out.append(gen_body(rng))
            continue
        if r < 0.22:
            out.append(gen_hdr(rng))
            continue
        r = (r - 0.22) / 0.78
        if r < 0.77:
            mode = "guard" if r < 0.62 else ("juxt" if r < 0.72 else "raw")
            for _ in range(40):
                d = rng.weighted([(6, 0), (14, 1), (25, 2), (25, 3), (18, 4), (12, maxd)])
                if mode != "guard" and d == 0:
                    d = 2
                e = gen_expr(rng, d)
                st = gen_style(rng, e, True, mode)
                c = {"k": "render", "e": e, "st": st, "lead": gen_ws(rng, 0.8), "trail": gen_ws(rng, 0.8)}
                jt, qk = juxt_top(e, st), quoting_ok(e, st)
                if (not jt and not qk) or (mode == "juxt" and jt) or (mode == "raw" and qk):
                    continue  # exactly one kind of deviation per case, and the intended one
                s = c["lead"] + render(e, st, 0) + c["trail"]
                if len(s.encode()) > 300 or nest(e, st, 0) > maxnest:
                    continue
                rendered.append(s)
                out.append(c)
                break
        elif r < 0.93 or not rendered:
            s = "".join(rng.choice(SOUP) + (" " if rng.chance(0.35) else "") for _ in range(rng.randint(1, 9)))
            if nest_str(s) > maxnest:
                continue
            out.append({"k": "str", "s": s})
        else:
            s = rng.choice(rendered[-50:])
            if s:
                i = rng.below(len(s))
                m = rng.below(3)
                ch = rng.choice("()!&|~'\"\\ a0")
                s = s[:i] + (ch + s[i:] if m == 0 else s[i + 1:] if m == 1 else ch + s[i + 1:])
            if nest_str(s) > maxnest + 3:
                continue
            out.append({"k": "str", "s": s})
    return out


# ---------------------------------------------------------------- implementation
def setup_impl():
    global ff, pp, FLOWS
    import pyparsing as pp  # noqa
    from mitmproxy import flowfilter as ff  # noqa
    from mitmproxy import http
    from mitmproxy.test import tflow
    fl = []
    f = tflow.tflow(resp=True)
    f.response.headers["content-type"] = "image/png"
    f.comment = "hello comment"
    fl.append(f)
    f = tflow.tflow()
    f.request.method = "POST"
    f.request.headers["content-type"] = "text/html"
    f.request.content = b"hello foo\nmsg"
    f.marked = ":grapes:"
    f.metadata["host"] = "mitm"
    fl.append(f)
    f = tflow.tflow(resp=True, err=True)
    f.response.status_code = 404
    f.is_replay = "request"
    f.request.host = "example.com"
    fl.append(f)
    f = tflow.tflow(resp=True)
    f.response.status_code = 200
    f.response.content = b"a\nb 127 x|y"
    f.is_replay = "response"
    f.request.path = "/foo?a&b=!z"
    fl.append(f)
    fl.append(tflow.twebsocketflow())
    fl.append(tflow.tdnsflow(resp=True))
    f = tflow.tdnsflow()
    f.marked = "x"
    fl.append(f)
    fl.append(tflow.ttcpflow())
    f = tflow.ttcpflow(err=True)
    f.comment = "foo"
    fl.append(f)
    fl.append(tflow.tudpflow())
    f = tflow.tflow()  # request body present and empty, no response
    f.request.content = b""
    fl.append(f)
    f = tflow.tflow(resp=True)  # request body absent, response body present and empty
    f.request.content = None
    f.response.content = b""
    f.response.status_code = 204
    fl.append(f)
    f = tflow.tflow(resp=True)  # request body empty, response body absent
    f.request.content = b""
    f.response.content = None
    fl.append(f)
    f = tflow.tflow(resp=True)  # repeated Content-Type, different case and values; asset type only in the second line
    f.request.headers = http.Headers(((b"Content-Type", b"application/json"), (b"content-type", b"text/html")))
    f.response.headers = http.Headers(((b"content-type", b"text/html"), (b"CONTENT-TYPE", b"image/png"), (b"x-a", b"b")))
    fl.append(f)
    f = tflow.tflow(resp=True)  # no headers at all in the request, empty Content-Type value in the response
    f.request.headers = http.Headers(())
    f.response.headers = http.Headers(((b"content-type", b""),))
    fl.append(f)
    FLOWS = fl


def enc(s: str) -> bytes:
    return s.encode("utf-8", "surrogatepass")


def tree_of(t):
    if isinstance(t, ff.FAnd):
        return ["and", [tree_of(x) for x in t.lst]]
    if isinstance(t, ff.FOr):
        return ["or", [tree_of(x) for x in t.lst]]
    if isinstance(t, ff.FNot):
        return ["not", tree_of(t.itm)]
    if isinstance(t, ff._Rex):
        return ["r", type(t).code, enc(t.expr).hex()]
    if isinstance(t, ff._Int):
        return ["i", type(t).code, t.num]
    if type(t) in ff.filter_unary:
        return ["u", type(t).code]
    return ["?", type(t).__name__]


def real_parse(s):
    """-> (filter or None, observable error class)"""
    try:
        return ff.parse(s), None
    except ValueError:
        return None, "ValueError"
    except Exception as e:  # never fails in another way
        return None, "other:" + type(e).__name__


def compiles(a: str, binary: bool) -> bool:
    import warnings
    try:
        with warnings.catch_warnings():
            warnings.simplefilter("ignore")
            re.compile(a.encode() if binary else a)
        return True
    except Exception:
        return False


def bad_args(s):
    """arguments a parse of s could hand to re.compile (every suffix of a maximal unquoted run, every quoted
    string starting at a quote, unquoted by the real pyparsing QuotedString) that re.compile rejects"""
    cands = set()
    i = 0
    n = len(s)
    while i < n:
        if s[i] not in WORD_EXCL:
            j = i
            while j < n and s[j] not in WORD_EXCL:
                j += 1
            for k in range(i, j):
                cands.add(s[k:j])
            i = j
        else:
            if s[i] in QUOTES:
                try:
                    cands.add(pp.QuotedString(s[i], esc_char="\\").parse_string(s[i:])[0])
                except pp.ParseException:
                    pass
            i += 1
    bb = sorted(enc(a).hex() for a in cands if not compiles(a, True))
    bs = sorted(enc(a).hex() for a in cands if not compiles(a, False))
    return bb, bs


def verdicts(f):
    out = []
    for fl in FLOWS:
        try:
            out.append(bool(f(fl)))
        except Exception as e:
            out.append("exc:" + type(e).__name__)
    return out


def flow_parts(fl):
    """the byte strings of a flow the body operators are documented to look at: (direction, bytes) with direction
    True = request / from client; only bodies that are present (is not None), however short.  None = no reference."""
    from mitmproxy import http, tcp, udp, dns
    if isinstance(fl, http.HTTPFlow):
        out = []
        if fl.request is not None and (c := fl.request.get_content(strict=False)) is not None:
            out.append((True, c))
        if fl.response is not None and (c := fl.response.get_content(strict=False)) is not None:
            out.append((False, c))
        if fl.websocket is not None:
            out += [(bool(m.from_client), m.content) for m in fl.websocket.messages if m.content is not None]
        return out
    if isinstance(fl, (tcp.TCPFlow, udp.UDPFlow)):
        return [(bool(m.from_client), m.content) for m in fl.messages if m.content is not None]
    if isinstance(fl, dns.DNSFlow):
        out = [(True, str(fl.request).encode())] if fl.request else []
        return out + ([(False, str(fl.response).encode())] if fl.response else [])
    return []


class RefBody:
    """documented ~b / ~bq / ~bs: case-insensitive DOTALL regex search over every body that is present"""

    def __init__(self, code, arg):
        import warnings
        try:
            with warnings.catch_warnings():
                warnings.simplefilter("ignore")
                self.pat = re.compile(arg.encode(), re.IGNORECASE | re.DOTALL)
        except Exception:
            raise ValueError("Cannot compile expression.")
        self.code = code

    def __call__(self, fl):
        return any(self.pat.search(c) is not None for d, c in flow_parts(fl)
                   if self.code == "b" or d == (self.code == "bq"))


ASSET_REF = [b"text/javascript", b"application/x-javascript", b"application/javascript", b"text/css", b"image/.*", b"font/.*",
             b"application/font.*"]


def block(fields):
    return b"".join(n + b": " + v + b"\r\n" for n, v in fields)


class RefHdr:
    """documented ~t ~tq ~ts / ~a: some Content-Type field value matches (each value on its own; no field, no match);
    ~h ~hq ~hs: multi-line search over the name: value lines of each message that is present.  HTTP flows only."""

    def __init__(self, code, arg=""):
        import warnings
        self.code = code
        try:
            with warnings.catch_warnings():
                warnings.simplefilter("ignore")
                if code == "a":
                    self.pats = [re.compile(x) for x in ASSET_REF]
                else:
                    self.pats = [re.compile(arg.encode(), re.IGNORECASE | (re.MULTILINE if code[0] == "h" else 0))]
        except Exception:
            raise ValueError("Cannot compile expression.")

    def search(self, v):
        return any(p.search(v) is not None for p in self.pats)

    def __call__(self, fl):
        from mitmproxy import http
        if not isinstance(fl, http.HTTPFlow):
            return False
        msgs = []
        if self.code in ("t", "tq", "h", "hq"):
            msgs.append(fl.request)
        if self.code in ("t", "ts", "h", "hs", "a") and fl.response is not None:
            msgs.append(fl.response)
        if self.code[0] == "h":
            return any(self.search(block(m.headers.fields)) for m in msgs)
        return any(self.search(v) for m in msgs for n, v in m.headers.fields if n.lower() == b"content-type")


def mk_atom(a):
    kind, code, arg = a
    if (kind == "r" and code in ("t", "tq", "ts", "h", "hq", "hs")) or (kind == "u" and code == "a"):
        return RefHdr(code, arg)
    if kind == "r" and code in ("b", "bq", "bs"):
        return RefBody(code, arg)
    for c in ff.filter_unary + ff.filter_rex + ff.filter_int:
        if c.code == code:
            return c() if kind == "u" else c(arg)
    raise KeyError(code)


def expected_verdicts(e):
    """documented semantics: atoms by the real atom classes (body / header operators by the independent RefBody / RefHdr), combination by the tree"""
    def ev(e, fl):
        if e[0] == "atom":
            return bool(ATOMS[id(e)](fl))
        if e[0] == "not":
            return not ev(e[1], fl)
        a, b = ev(e[1], fl), ev(e[2], fl)  # both sides evaluated: an exception in any atom voids the flow
        return (a and b) if e[0] == "and" else (a or b)
    ATOMS = {}

    def build(e):
        if e[0] == "atom":
            ATOMS[id(e)] = mk_atom(e[1])
        else:
            for x in e[1:]:
                build(x)
    try:
        build(e)
    except ValueError:
        return None  # some argument is not a valid regex: the documented outcome is ValueError
    out = []
    for fl in FLOWS:
        try:
            out.append(ev(e, fl))
        except Exception as ex:
            out.append("exc:" + type(ex).__name__)
    return out


def akey_e(a):
    kind, code, arg = a
    return (code,) if kind == "u" else (code, int(arg)) if kind == "i" else (code, enc(arg).hex())


def akey_t(t):
    return (t[1],) if t[0] == "u" else (t[1], t[2])


def keys_e(e, acc):
    if e[0] == "atom":
        acc.add(akey_e(e[1]))
    else:
        for x in e[1:]:
            keys_e(x, acc)


def keys_t(t, acc):
    if t[0] in ("and", "or"):
        for x in t[1]:
            keys_t(x, acc)
    elif t[0] == "not":
        keys_t(t[1], acc)
    else:
        acc.add(akey_t(t))


def equivalent(e, t):
    """the returned structure denotes the same boolean function of the atoms as the tree"""
    ks = set()
    keys_e(e, ks)
    keys_t(t, ks)
    ks = sorted(ks, key=repr)
    if len(ks) <= 5:
        vals = [dict(zip(ks, bits)) for bits in itertools.product([False, True], repeat=len(ks))]
    else:
        vals = [{k: bool((zlib.crc32(repr((k, i)).encode()) >> 7) & 1) for k in ks} for i in range(40)]

    def ee(e, rho):
        if e[0] == "atom":
            return rho[akey_e(e[1])]
        if e[0] == "not":
            return not ee(e[1], rho)
        return (ee(e[1], rho) and ee(e[2], rho)) if e[0] == "and" else (ee(e[1], rho) or ee(e[2], rho))

    def et(t, rho):
        if t[0] == "and":
            return all(et(x, rho) for x in t[1])
        if t[0] == "or":
            return any(et(x, rho) for x in t[1])
        if t[0] == "not":
            return not et(t[1], rho)
        return rho[akey_t(t)]
    return all(ee(e, rho) == et(t, rho) for rho in vals)


def observe(s, e=None):
    f, err = real_parse(s)
    o = {"err": err, "tree": None}
    if f is not None:
        o["tree"] = tree_of(f)
        o["verdicts"] = verdicts(f)
        try:
            b = io.StringIO()
            f.dump(fp=b)
            str(f)
        except Exception as ex:
            o["err"] = "other:dump:" + type(ex).__name__
        if e is not None:
            o["equiv"] = equivalent(e, o["tree"])
    return o


def build_flow(spec):
    from mitmproxy import tcp, udp, websocket
    from mitmproxy.test import tflow
    from wsproto.frame_protocol import Opcode
    b = lambda h: None if h is None else bytes.fromhex(h)
    t = spec["t"]
    if t == "http":
        if spec["ws"] is not None:
            f = tflow.twebsocketflow()
            f.websocket.messages = [websocket.WebSocketMessage(Opcode.BINARY, fc, b(c)) for fc, c in spec["ws"]]
        else:
            f = tflow.tflow(resp=spec["resp"] == "present")
        f.request.content = b(spec["req"])
        if f.response is not None:
            f.response.content = b(spec["resp_body"])
        return f
    if t in ("tcp", "udp"):
        f = tflow.ttcpflow() if t == "tcp" else tflow.tudpflow()
        cls = tcp.TCPMessage if t == "tcp" else udp.UDPMessage
        f.messages = [cls(fc, b(c)) for fc, c in spec["msgs"]]
        return f
    if t == "dns":
        return tflow.tdnsflow(resp=spec["resp"])
    return tflow.tdummyflow()


def shape_of(f):
    """what the real flow object looks like to the body filters (for the Coq term)"""
    from mitmproxy import http, tcp, udp, dns
    h = lambda c: None if c is None else c.hex()
    if isinstance(f, http.HTTPFlow):
        return {"t": "http", "req": h(f.request.get_content(strict=False)),
                "resp": None if f.response is None else [h(f.response.get_content(strict=False))],
                "ws": None if f.websocket is None else [[bool(m.from_client), m.content.hex()] for m in f.websocket.messages]}
    if isinstance(f, (tcp.TCPFlow, udp.UDPFlow)):
        return {"t": "stream", "msgs": [[bool(m.from_client), m.content.hex()] for m in f.messages]}
    if isinstance(f, dns.DNSFlow):
        return {"t": "dns", "req": str(f.request).encode().hex(), "resp": h(str(f.response).encode() if f.response else None)}
    return {"t": "other"}


def run_body(case):
    s = "~" + case["op"] + ' "' + escape('"', case["rex"]) + '"'
    o = {"s": enc(s).hex(), "tree": None, "err": None}
    f = build_flow(case["flow"])
    o["shape"] = shape_of(f)
    flt, err = real_parse(s)
    o["err"] = err
    if flt is None:
        return o
    o["tree"] = tree_of(flt)
    try:
        o["impl"] = bool(flt(f))
    except Exception as ex:
        o["err"] = "other:call:" + type(ex).__name__
        return o
    ref = RefBody(case["op"], case["rex"])
    o["ref"] = ref(f)
    o["tbl"] = sorted({(c.hex(), ref.pat.search(c) is not None) for _, c in flow_parts(f)})
    o["tbl"] = [list(x) for x in o["tbl"]]
    return o


def run_hdr(case):
    from mitmproxy import http
    from mitmproxy.test import tflow
    op, spec = case["op"], case["flow"]
    s = "~a" if op == "a" else "~" + op + ' "' + escape('"', case["rex"]) + '"'
    o = {"s": enc(s).hex(), "tree": None, "err": None}
    if spec["t"] == "http":
        f = tflow.tflow(resp=spec["resp"] is not None)
        f.request.headers = http.Headers(tuple((n.encode(), v.encode()) for n, v in spec["req"]))
        if spec["resp"] is not None:
            f.response.headers = http.Headers(tuple((n.encode(), v.encode()) for n, v in spec["resp"]))
        fh = lambda m: [[n.hex(), v.hex()] for n, v in m.headers.fields]
        o["shape"] = {"t": "http", "req": fh(f.request), "resp": None if f.response is None else fh(f.response)}
    else:
        f = {"tcp": tflow.ttcpflow, "udp": tflow.tudpflow, "dns": tflow.tdnsflow}[spec["kind"]]()
        o["shape"] = {"t": "other"}
    flt, err = real_parse(s)
    o["err"] = err
    if flt is None:
        return o
    o["tree"] = tree_of(flt)
    try:
        o["impl"] = bool(flt(f))
    except Exception as ex:
        o["err"] = "other:call:" + type(ex).__name__
        return o
    ref = RefHdr(op, case["rex"])
    o["ref"] = ref(f)
    keys = set()
    if o["shape"]["t"] == "http":
        for m in [f.request] + ([f.response] if f.response is not None else []):
            keys.add(block(m.headers.fields))
            keys |= {v for n, v in m.headers.fields}
    o["tbls"] = [[[k.hex(), p.search(k) is not None] for k in sorted(keys)] for p in ref.pats]
    return o


def run_impl(case):
    if case["k"] == "body":
        return run_body(case)
    if case["k"] == "hdr":
        return run_hdr(case)
    if case["k"] == "str":
        s = case["s"]
        o = observe(s)
    else:
        e, st = case["e"], case["st"]
        s = case["lead"] + render(e, st, 0) + case["trail"]
        o = observe(s, e)
        o["guard"] = [atoms_ok(e), quoting_ok(e, st), juxt_top(e, st)]
        o["expected"] = expected_verdicts(e)
        if not all(o["guard"]):
            s2 = case["lead"] + render(e, repaired(st, e), 0) + case["trail"]
            o2 = observe(s2, e)
            o["repaired"] = {"s": s2, "err": o2["err"], "equiv": o2.get("equiv"), "verdicts": o2.get("verdicts")}
    o["s"] = enc(s).hex()
    o["bad_bin"], o["bad_str"] = bad_args(s) if o["err"] == "ValueError" else ([], [])
    return o


# ---------------------------------------------------------------- Coq terms
def c_ws(w):
    return clist(({" ": "WSp", "\t": "WTab", "\n": "WLf", "\r": "WCr"}[c] for c in w), "wsch")


def c_str(s):
    return cbytes(enc(s))


def c_expr(e):
    if e[0] == "atom":
        kind, code, arg = e[1]
        a = f"EUnary {c_str(code)}" if kind == "u" else f"ERex {c_str(code)} {c_str(arg)}" if kind == "r" \
            else f"EInt {c_str(code)} {c_str(arg)}"
        return f"(EAtom ({a}))"
    if e[0] == "not":
        return f"(ENot {c_expr(e[1])})"
    return f"({'EAnd' if e[0] == 'and' else 'EOr'} {c_expr(e[1])} {c_expr(e[2])})"


def c_style(st):
    if st is None:
        return "SNil"
    qs = sget(st, "qs")
    q = "QBare" if qs[0] == "bare" else f"({'QRaw' if qs[0] == 'raw' else 'QEsc'} {cbool(qs[1] == 1)})"
    ps = clist((f"({c_ws(a)}, {c_ws(b)})" for a, b in sget(st, "pars")), "(ws * ws)%type")
    return (f"(Sty {ps} {cbool(sget(st, 'naked'))} {q} {cbool(sget(st, 'juxt'))} {c_ws(sget(st, 'w1'))} "
            f"{c_ws(sget(st, 'w2'))} {c_style(sget(st, 'c1'))} {c_style(sget(st, 'c2'))})")


def c_tree(t):
    if t[0] in ("and", "or"):
        return f"({'And' if t[0] == 'and' else 'Or'} {clist((c_tree(x) for x in t[1]), 'ast')})"
    if t[0] == "not":
        return f"(Not {c_tree(t[1])})"
    if t[0] == "u":
        return f"(Atom (AUnary {c_str(t[1])}))"
    if t[0] == "r":
        return f"(Atom (ARex {c_str(t[1])} {cbytes(bytes.fromhex(t[2]))}))"
    if t[0] == "i":
        return f"(Atom (AInt {c_str(t[1])} {cN(t[2])}))"
    return "(Or (@nil ast))"  # unknown node class: can never equal a model result


def c_msgs(ms):
    return clist((f"({cbool(fc)}, {cbytes(bytes.fromhex(c))})" for fc, c in ms), "msg")


def c_flowb(sh):
    ob = lambda h: copt(h, lambda x: cbytes(bytes.fromhex(x)), "bytes")
    if sh["t"] == "http":
        resp = "(@None (option bytes))" if sh["resp"] is None else f"(Some {ob(sh['resp'][0])})"
        ws = "(@None (list msg))" if sh["ws"] is None else f"(Some {c_msgs(sh['ws'])})"
        return f"(HttpB {ob(sh['req'])} {resp} {ws})"
    if sh["t"] == "stream":
        return f"(StreamB {c_msgs(sh['msgs'])})"
    if sh["t"] == "dns":
        return f"(DnsB {cbytes(bytes.fromhex(sh['req']))} {ob(sh['resp'])})"
    return "OtherB"


def coq_hdr(case, obs):
    if obs["err"] is not None:
        return "Hdr 0%N OtherH (@nil (list (bytes * bool))) true"
    sh = obs["shape"]
    fl = lambda fs: clist((f"({cbytes(bytes.fromhex(n))}, {cbytes(bytes.fromhex(v))})" for n, v in fs), "field")
    if sh["t"] == "http":
        f = f"(HttpH {fl(sh['req'])} {copt(sh['resp'], fl, '(list field)')})"
    else:
        f = "OtherH"
    tbls = clist((clist((f"({cbytes(bytes.fromhex(h))}, {cbool(v)})" for h, v in t), "(bytes * bool)%type") for t in obs["tbls"]),
                 "(list (bytes * bool))")
    return f"Hdr {cN(HDR_OPS.index(case['op']))} {f} {tbls} {cbool(obs['impl'])}"


def coq_case(case, obs):
    if case["k"] == "hdr":
        return coq_hdr(case, obs)
    if case["k"] == "body":
        if obs["err"] is not None:  # the filter string must parse and the filter must not raise: forced disagreement
            return "Body 0%N OtherB (@nil (bytes * bool)) true"
        tbl = clist((f"({cbytes(bytes.fromhex(h))}, {cbool(v)})" for h, v in obs["tbl"]), "(bytes * bool)%type")
        return f"Body {cN(['b', 'bq', 'bs'].index(case['op']))} {c_flowb(obs['shape'])} {tbl} {cbool(obs['impl'])}"
    if obs["err"] is not None and obs["err"] != "ValueError":
        impl = "(Some (Or (@nil ast)))"  # foreign exception: forced disagreement
    else:
        impl = copt(obs["tree"], c_tree, "ast")
    if case["k"] == "render":
        src = (f"(Some ({c_expr(case['e'])}, {c_style(case['st'])}, {c_ws(case['lead'])}, {c_ws(case['trail'])}, "
               f"{cbool(all(obs['guard']))}))")
    else:
        src = "None"
    bl = lambda l: clist((cbytes(bytes.fromhex(h)) for h in l), "bytes")
    return f"Case {src} {cbytes(bytes.fromhex(obs['s']))} {bl(obs['bad_bin'])} {bl(obs['bad_str'])} {impl}"


# ---------------------------------------------------------------- oracle
def _judge(err, equiv, verd, expected):
    """-> None if the documented meaning holds, else (outcome, text)"""
    if err is not None and err != "ValueError":
        return "exception", f"raised {err}"
    if expected is None:
        return None if err == "ValueError" else ("invalid-regex-accepted", "an argument that re.compile rejects was accepted")
    if err == "ValueError":
        return "rejected", "rejected with ValueError"
    if not equiv:
        return "meaning", "returned structure is not equivalent to the expression"
    for i, (a, b) in enumerate(zip(verd, expected)):
        if isinstance(a, bool) and isinstance(b, bool) and a != b:
            return "verdict", f"verdict on flow #{i} is {a}, documented semantics gives {b}"
    return None


def _fragment(s, j):
    """a failure inside the fragment of C42_partial.  Two families are repaired by fixes/C42-*.diff"""
    bare = re.sub(r"'(?:[^'\\]|\\.)*'|\"(?:[^\"\\]|\\.)*\"", "Q", s)
    if j[0] == "rejected" and re.search(r"~[A-Za-z0-9]+[)&|!(~Q]", bare):
        return {"key": "code-before-punctuation-rejected", "what": f"parse({s!r}) {j[1]}"}
    if j[0] in ("meaning", "verdict") and "\t" in s:
        return {"key": "tab-in-quoted-argument-expanded", "what": f"parse({s!r}) {j[1]}"}
    return {"key": "fragment-" + j[0], "what": f"parse({s!r}) {j[1]}"}


def oracle(case, obs):
    if case["k"] == "hdr":
        s = bytes.fromhex(obs["s"]).decode()
        if obs["err"] is not None:
            return [{"key": "header-filter-error", "what": f"{s} on {case['flow']}: {obs['err']}"}]
        if obs["impl"] != obs["ref"]:
            return [{"key": "header-verdict", "what": f"parse({s!r}) on flow {case['flow']} gives {obs['impl']}; the documented "
                                                      f"meaning (some Content-Type value / header line matches) gives {obs['ref']}"}]
        return []
    if case["k"] == "body":
        s = bytes.fromhex(obs["s"]).decode()
        if obs["err"] is not None:
            return [{"key": "body-filter-error", "what": f"{s} on {case['flow']}: {obs['err']}"}]
        if obs["impl"] != obs["ref"]:
            return [{"key": "body-verdict", "what": f"parse({s!r}) on flow {case['flow']} gives {obs['impl']}; regex search over "
                                                    f"the bodies that are present gives {obs['ref']}"}]
        return []
    if case["k"] == "str":
        if obs["err"] is not None and obs["err"] != "ValueError":
            return [{"key": "other-exception", "what": f"parse({case['s']!r}) raised {obs['err']}"}]
        return []
    s = bytes.fromhex(obs["s"]).decode("utf-8", "surrogatepass")
    j = _judge(obs["err"], obs.get("equiv"), obs.get("verdicts"), obs["expected"])
    if j is None:
        return []
    a_ok, q_ok, j_ok = obs["guard"]
    if a_ok and q_ok and j_ok:
        return [_fragment(s, j)]
    rp = obs["repaired"]
    j2 = _judge(rp["err"], rp["equiv"], rp["verdicts"], obs["expected"])
    if j2 is not None:
        # not explained by the deviation: the repaired rendering is inside the fragment and fails too
        return [_fragment(rp["s"], j2)]
    if not j_ok and q_ok and a_ok:
        if j[0] == "rejected":
            return [{"key": "juxtaposition-in-group-rejected", "what": f"parse({s!r}) {j[1]}; with explicit & it is accepted"}]
        if j[0] in ("meaning", "verdict"):
            return [{"key": "juxtaposition-binds-looser-than-or", "what": f"parse({s!r}): {j[1]}; with explicit & it is right"}]
    if not q_ok and j_ok and a_ok and j[0] in ("rejected", "meaning", "verdict", "invalid-regex-accepted"):
        return [{"key": "quoted-backslash-consumed", "what": f"parse({s!r}): {j[1]}; with doubled backslashes it is right"}]
    return [{"key": "deviation-" + j[0], "what": f"parse({s!r}) {j[1]}"}]


def nontrivial(case, obs):
    s = bytes.fromhex(obs["s"]).decode("utf-8", "surrogatepass")
    return any(c in s for c in "!&|()~'\"")


def classify(case, obs):
    tags = [case["k"], "accepted" if obs["tree"] is not None else "rejected"]
    if case["k"] == "hdr":
        tags += ["hdr-~" + case["op"], "hdr-true" if obs.get("impl") else "hdr-false"]
        fl = case["flow"]
        if fl["t"] == "http":
            for side in ("req", "resp"):
                if fl[side] is not None:
                    n = sum(1 for k, _ in fl[side] if k.lower() == "content-type")
                    tags.append(f"hdr-{side}-ct-" + ("absent" if n == 0 else "once" if n == 1 else "repeated"))
        else:
            tags.append("hdr-not-http")
        return tags
    if case["k"] == "body":
        sh = obs["shape"]
        tags += ["body-~" + case["op"], "body-" + sh["t"], "body-true" if obs.get("impl") else "body-false"]
        if any(h == "" and v for h, v in obs.get("tbl", [])):
            tags.append("body-rex-matches-empty-present-body")
        if sh["t"] == "http":
            tags.append("body-req-" + ("absent" if sh["req"] is None else "empty" if sh["req"] == "" else "nonempty"))
            r = sh["resp"]
            tags.append("body-resp-" + ("none" if r is None else "absent" if r[0] is None else "empty" if r[0] == "" else "nonempty"))
        return tags
    if case["k"] == "render":
        g = obs["guard"]
        tags.append("in-guard" if all(g) else "dev-juxt" if not g[2] else "dev-raw")
        s = bytes.fromhex(obs["s"]).decode("utf-8", "surrogatepass")
        for name, pat in (("has-not", "!"), ("has-and", "&"), ("has-or", "|"), ("has-paren", "("), ("has-dq", '"'), ("has-sq", "'")):
            if pat in s:
                tags.append(name)
        if all(g) and sget(case["st"], "juxt") and case["e"][0] == "and":
            tags.append("top-juxt")
        if obs["expected"] is None:
            tags.append("invalid-regex-arg")
    elif obs["bad_bin"] or obs["bad_str"]:
        tags.append("has-bad-regex")
    return tags
