"""C51 — Escaped binary text converts back to the same bytes (mitmproxy/utils/strutils.py)."""
from lib.coqterm import cbytes, cbool, copt, hx, unhx

ID = "C51"
QUICK_N = 6000
THOROUGH_N = 30000
SHARD = 400
RULE = ("70% structured byte strings over a dictionary of backslash/quote/spacing/control/high-byte tokens "
        "(runs of backslashes of every parity before quotes and n/r/t), 15% uniform random bytes, 15% arbitrary "
        "escaped *texts* fed to the decoder (valid and malformed escapes); thorough adds every string of length <= 3 "
        "over a 12-byte alphabet x 4 flag combinations. Non-trivial = the escaped text differs from the input "
        "(at least one byte needed escaping) or the decoder input contains a backslash; distinct by canonical JSON.")
TRUSTED = ["Coq 8.16.1 kernel (coqc), vm_compute for 256-case sweeps and case evaluation",
           "harness/props/C51.py generator and comparison glue (Corr/C51.v)",
           "model of CPython bytes.__repr__ and codecs.escape_decode written by hand from CPython 3.12 sources; tied by correspondence"]
ASSUMPTIONS = ["str passed to codecs.escape_decode is encoded as UTF-8 (CPython behaviour); texts are compared as UTF-8 bytes"]

TOKENS = [b"\\", b"\\\\", b"\\\\\\", b"'", b'"', b"n", b"r", b"t", b"x", b"\n", b"\r", b"\t", b"\x00", b"\x1b",
          b"\x7f", b"\x80", b"\x9b", b"\xff", b"a", b"0", b"7", b"\\'", b"\\n", b"\\x41", b" ", b"b'", b"\\\\'", b"\\\\n"]
DEC_TOKENS = [b"\\", b"\\\\", b"\\n", b"\\r", b"\\t", b"\\'", b'\\"', b"\\x", b"\\x4", b"\\x41", b"\\xfg", b"\\0", b"\\12",
              b"\\123", b"\\777", b"\\8", b"\\a", b"\\b", b"\\f", b"\\v", b"\\z", b"\\\n", b"\n", b"a", b"'", b'"', b"\xc3\xa9",
              b"\\N", b"\\u1234", b"\\400"]


def gen(rng, n, tier):
    out = []
    if tier == "thorough":
        alpha = [0x5c, 0x27, 0x22, 0x6e, 0x72, 0x74, 0x0a, 0x09, 0x00, 0xff, 0x41, 0x78]
        def rec(prefix, depth):
            yield bytes(prefix)
            if depth:
                for a in alpha:
                    yield from rec(prefix + [a], depth - 1)
        for s in rec([], 3):
            for ks in (False, True):
                for eq in (False, True):
                    out.append({"k": "esc", "data": hx(s), "ks": ks, "eq": eq})
    for _ in range(n):
        r = rng.random()
        if r < 0.70:
            data = b"".join(rng.choice(TOKENS) for _ in range(rng.randint(0, 12)))
            out.append({"k": "esc", "data": hx(data), "ks": rng.chance(0.5), "eq": rng.chance(0.5)})
        elif r < 0.85:
            out.append({"k": "esc", "data": hx(rng.bytes(rng.randint(0, 40))), "ks": rng.chance(0.5), "eq": rng.chance(0.5)})
        else:
            text = b"".join(rng.choice(DEC_TOKENS) for _ in range(rng.randint(0, 8)))
            out.append({"k": "dec", "text": hx(text)})
    return out


def setup_impl():
    global strutils
    from mitmproxy.utils import strutils  # noqa


def _dec(text: str):
    try:
        r = strutils.escaped_str_to_bytes(text)
        return hx(r)
    except ValueError:
        return None


def run_impl(case):
    if case["k"] == "esc":
        e = strutils.bytes_to_escaped_str(unhx(case["data"]), case["ks"], case["eq"])
        return {"escaped": hx(e.encode("utf-8")), "back": _dec(e), "nonascii": any(ord(c) > 127 for c in e)}
    text = unhx(case["text"]).decode("utf-8", "surrogateescape")
    try:
        text.encode("utf-8")
    except UnicodeEncodeError:
        text = unhx(case["text"]).decode("latin-1")
        case["text"] = hx(text.encode("utf-8"))
    return {"decoded": _dec(text)}


def coq_case(case, obs):
    ob = lambda v: copt(v, lambda h: cbytes(unhx(h)), "bytes")
    if case["k"] == "esc":
        return f"Esc {cbytes(unhx(case['data']))} {cbool(case['ks'])} {cbool(case['eq'])} {cbytes(unhx(obs['escaped']))} {ob(obs['back'])}"
    return f"Dec {cbytes(unhx(case['text']))} {ob(obs['decoded'])}"


def oracle(case, obs):
    """The property itself, evaluated on the implementation's outputs."""
    if case["k"] != "esc":
        return []
    v = []
    if obs["back"] != case["data"]:
        v.append({"key": "roundtrip", "what": f"escaped_str_to_bytes(bytes_to_escaped_str({case['data']})) = {obs['back']}"})
    esc = unhx(obs["escaped"]).decode("utf-8")
    keep = "\t\n\r" if case["ks"] else ""
    for ch in esc:
        o = ord(ch)
        if (o < 32 or o == 127 or 128 <= o <= 159) and ch not in keep:
            v.append({"key": "control-char", "what": f"escaped text of {case['data']} contains U+{o:04X}"})
            break
    return v


def nontrivial(case, obs):
    if case["k"] == "esc":
        return obs["escaped"] != case["data"]
    return "5c" in case["text"]


def classify(case, obs):
    if case["k"] == "esc":
        return ["esc", f"ks={int(case['ks'])},eq={int(case['eq'])}", "changed" if obs["escaped"] != case["data"] else "identity"]
    return ["dec", "dec-error" if obs["decoded"] is None else "dec-ok"]
