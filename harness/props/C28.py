"""C28 — WebSocket messages are relayed exactly once with their exact content
(mitmproxy/proxy/layers/websocket.py, mitmproxy/websocket.py)."""
from lib.coqterm import cbool, cbytes, clist, cN, copt, ccodepoints, hx, unhx

ID = "C28"
QUICK_N = 1500
THOROUGH_N = 12000
SHARD = 130
RULE = ("10% upgrade hand-over cases (oracle only, not modelled): the real HttpLayer (transparent/regular) is driven through the HTTP/1 upgrade with server frames coalesced with the 101, client frames sent before the 101 is relayed (glued to the request head or not), payloads made of CR/LF tokens, segment cuts placed right behind CR/LF bytes (also mid-frame), zero or random client masks; 55% sessions with a real WebsocketLayer between two in-memory wsproto peers: 1-7 messages (text 60%/binary) in both "
        "directions built from a UTF-8 token dictionary (1-4 byte characters, emoji, combining marks), cut into 1-5 frames at "
        "arbitrary byte offsets (also inside a character), frames segmented into DataReceived pieces or coalesced, pings/pongs "
        "between fragments, injected messages (also while a fragmented message is in progress), close frames with code/reason, "
        "EOF, with/without permessage-deflate, FRAGMENT_SIZE monkeypatched to 1..16 (4000 in ~1% of cases with >4000-byte "
        "contents), addon actions keep / same-length edit (rotate) / longer / shorter / drop, hook replies delayed by 0-3 events; "
        "13% adversarial frame streams (invalid UTF-8, unexpected continuation, bad close payloads, reserved opcodes); "
        "20% direct Fragmentizer calls (length lists x contents x is_text). Non-trivial = at least one message was re-fragmented "
        "or fragmented (>= 2 frames out) or a direct Fragmentizer call with >= 2 fragments; distinct by canonical JSON.")
TRUSTED = ["Coq 8.16.1 kernel; vm_compute for case evaluation",
           "wsproto 1.3.2 as a contract: Connection.events() yields, per received frame piece, a Message event whose text data is "
           "a str of complete code points (strict incremental UTF-8 decoder), frame_finished/message_finished as on the wire; a "
           "CloseConnection event is the last event of its batch and sets state REMOTE_CLOSING (close frame) / leaves OPEN "
           "(ParseFailed) / CLOSED (receive_data(None), code 1006, reason None); Connection.send(Message) emits exactly one frame "
           "carrying data (str encoded as UTF-8) with FIN = message_finished. The events wsproto yields inside the layer are "
           "recorded by instrumentation and are the model input; the frames it emits are decoded by independent peer connections "
           "and checked against the send events by the oracle (key wsproto-contract)",
           "hand model of CPython bytes.decode('utf-8', errors='replace') (maximal-subpart replacement, from Objects/stringlib/codecs.h) "
           "and str.encode('utf-8') in Model/WsUtf8.v, tied by correspondence (direct Fragmentizer cases over arbitrary bytes)",
           "harness/props/C28.py (generator, instrumentation of WebsocketConnection.events/send2 and Fragmentizer, comparison glue Corr/C28.v)"]
ASSUMPTIONS = ["the HTTP/1 -> WebSocket upgrade hand-over (Http1Connection.make_pipe buffer flush, HttpLayer child-layer switch) is checked by the oracle only (cases k=hand have no Coq term); the theorems cover WebsocketLayer.relay_messages and Fragmentizer",
               "the addon is a deterministic function of the message list; it changes only content and dropped (not type/from_client)",
               "the model starts after WebsocketLayer.start (extension negotiation and the start hook are exercised but not modelled)",
               "timestamps, log text and SendData byte encodings (masking, deflate) are not compared; SendData is compared as the wsproto event passed to send2",
               "str values contain no lone surrogates (they come from UTF-8 decoders)"]


COQ_PRELUDE = "From MV Require Import Model.WsUtf8 Model.Websocket.\n"


# ------------------------------------------------------------------ implementation runner
def setup_impl():
    global wsproto, wsl, websocket, events, commands, context, connection, options, Proxyserver, http, Opcode
    import wsproto
    import wsproto.events
    import wsproto.extensions
    from wsproto.frame_protocol import Opcode
    from mitmproxy import connection, options, http, websocket
    from mitmproxy.addons.proxyserver import Proxyserver
    from mitmproxy.proxy import events, commands, context
    from mitmproxy.proxy.layers import websocket as wsl


def _ctx():
    opts = options.Options()
    Proxyserver().load(opts)
    ctx = context.Context(connection.Client(peername=("client", 1234), sockname=("127.0.0.1", 8080),
                                            timestamp_start=1605699329, state=connection.ConnectionState.OPEN), opts)
    ctx.server.address = ("example.com", 80)
    ctx.server.state = connection.ConnectionState.OPEN
    return ctx


EXT = "permessage-deflate; server_max_window_bits=10"
STATES = {"OPEN": 0, "REMOTE_CLOSING": 1, "LOCAL_CLOSING": 2, "CLOSED": 3}


def _ev(e, state=None):
    """wsproto event -> JSON"""
    if isinstance(e, wsproto.events.TextMessage):
        return ["t", hx(e.data.encode("utf-8", "surrogatepass")), bool(e.frame_finished), bool(e.message_finished)]
    if isinstance(e, wsproto.events.BytesMessage):
        return ["b", hx(bytes(e.data)), bool(e.frame_finished), bool(e.message_finished)]
    if isinstance(e, wsproto.events.Ping):
        return ["ping", hx(bytes(e.payload))]
    if isinstance(e, wsproto.events.Pong):
        return ["pong", hx(bytes(e.payload))]
    if isinstance(e, wsproto.events.CloseConnection):
        r = None if e.reason is None else hx(e.reason.encode("utf-8", "surrogatepass"))
        return ["close", int(e.code), r, STATES[state] if state is not None else 0]
    return ["other", type(e).__name__]


def raw_frame(fc, b0, payload):
    """hand-made frame (any opcode / RSV bits), masked when sent by the client"""
    assert len(payload) < 126
    if not fc:
        return bytes([b0, len(payload)]) + payload
    mask = b"\x11\x22\x33\x44"
    return bytes([b0, 0x80 | len(payload)]) + mask + bytes(x ^ mask[i % 4] for i, x in enumerate(payload))


def _exc_kind(e):
    n = type(e).__name__
    return n if n in ("LocalProtocolError", "TypeError", "AssertionError", "UnicodeEncodeError", "UnicodeDecodeError") else "Other:" + n


def run_direct(case):
    old = wsl.Fragmentizer.FRAGMENT_SIZE
    wsl.Fragmentizer.FRAGMENT_SIZE = case["fs"]
    try:
        f = wsl.Fragmentizer([b"x" * l for l in case["lens"]], case["text"])
        out = [_ev(e) for e in f(unhx(case["content"]))]
    finally:
        wsl.Fragmentizer.FRAGMENT_SIZE = old
    return {"out": out}


def run_impl(case):
    if case["k"] == "frag":
        return run_direct(case)
    if case["k"] == "hand":
        return run_handover(case)
    old_fs = wsl.Fragmentizer.FRAGMENT_SIZE
    old_cls = wsl.Fragmentizer
    fraglog = []

    class RF(old_cls):
        def __init__(self, fragments, is_text):
            super().__init__(fragments, is_text)
            fraglog.append([list(self.fragment_lengths), bool(is_text)])

    RF.FRAGMENT_SIZE = case["fs"]
    wsl.Fragmentizer = RF
    try:
        return _run_session(case, fraglog)
    finally:
        wsl.Fragmentizer = old_cls
        old_cls.FRAGMENT_SIZE = old_fs


def _run_session(case, fraglog):
    ctx = _ctx()
    flow = http.HTTPFlow(ctx.client, ctx.server)
    flow.request = http.Request.make("GET", "http://example.com/",
                                     headers={"Connection": "upgrade", "Upgrade": "websocket", "Sec-WebSocket-Version": "13"})
    hdr = {"Connection": "upgrade", "Upgrade": "websocket"}
    if case["deflate"]:
        hdr["Sec-WebSocket-Extensions"] = EXT
    flow.response = http.Response.make(101, headers=hdr)
    flow.websocket = websocket.WebSocketData()
    flow.live = True
    lay = wsl.WebsocketLayer(ctx, flow)

    def mkext():
        if not case["deflate"]:
            return []
        d = wsproto.extensions.PerMessageDeflate()
        d.finalize(EXT)
        return [d]
    peer = {True: wsproto.Connection(wsproto.ConnectionType.CLIENT, mkext()),     # the client talking to the proxy
            False: wsproto.Connection(wsproto.ConnectionType.SERVER, mkext())}   # the server the proxy talks to
    peer_seen = {True: [], False: []}     # what each real peer decoded from the bytes mitmproxy sent it
    peer_err = []

    log = []          # instrumentation log
    sendq = []        # events passed to send2, consumed when the SendData command appears
    cmds = []
    hooks = []        # pending (command, remaining delay)
    nhook = [0]
    post = []         # per message hook: [content after the addon, dropped]
    pre = []          # per message hook: content before the addon
    crash = [None]
    fed = []

    def instrument():
        for fc, ws in ((True, lay.client_ws), (False, lay.server_ws)):
            def wrap(fc=fc, ws=ws):
                o_events, o_send2, o_rd = ws.events, ws.send2, ws.receive_data

                def ev_gen():
                    log.append(["loop", fc])
                    for e in o_events():
                        log.append(["ev", fc, _ev(e, ws.state.name)])
                        yield e

                def send2(e):
                    sendq.append([fc, _ev(e)])
                    return o_send2(e)

                def rd(data):
                    log.append(["rd", fc, data is None])
                    return o_rd(data)
                ws.events, ws.send2, ws.receive_data = ev_gen, send2, rd
            wrap()

    def addon(k):
        m = flow.websocket.messages[-1]
        a = case["acts"][k] if k < len(case["acts"]) else ["keep"]
        c = m.content
        pre.append(hx(c))
        if a[0] == "set":
            m.content = unhx(a[1])
        elif a[0] == "rot":      # same length, characters (text) / bytes rotated by one: boundaries move
            if m.is_text:
                try:
                    s = c.decode()
                    m.content = (s[1:] + s[:1]).encode()
                except UnicodeDecodeError:
                    m.content = c[1:] + c[:1]
            else:
                m.content = c[1:] + c[:1]
        elif a[0] == "app":
            m.content = c + unhx(a[1])
        elif a[0] == "pre":
            m.content = unhx(a[1]) + c
        elif a[0] == "trunc":
            if m.is_text:
                try:
                    m.text = m.text[: a[1]]
                except UnicodeDecodeError:
                    m.content = c[: a[1]]
            else:
                m.content = c[: a[1]]
        elif a[0] == "drop":
            m.drop()
        elif a[0] == "setdrop":
            m.content = unhx(a[1])
            m.drop()
        post.append([hx(m.content), bool(m.dropped)])

    def note(c):
        if isinstance(c, commands.SendData):
            fc, e = sendq.pop(0)
            assert (c.connection is ctx.client) == fc
            cmds.append(["send", fc, e])
            p = peer[fc]
            try:
                p.receive_data(bytes(c.data))
                for e2 in p.events():
                    peer_seen[fc].append(_ev(e2, p.state.name))
            except Exception as ex:  # the peer refused what mitmproxy sent
                peer_err.append([fc, type(ex).__name__])
        elif isinstance(c, commands.CloseConnection):
            cmds.append(["closeconn", c.connection is ctx.client])
        elif isinstance(c, wsl.WebsocketMessageHook):
            cmds.append(["msghook"])
            addon(nhook[0])
            d = case["delay"][nhook[0]] if nhook[0] < len(case["delay"]) else 0
            nhook[0] += 1
            hooks.append([c, d])
        elif isinstance(c, wsl.WebsocketEndHook):
            cmds.append(["endhook"])
            hooks.append([c, 0])
        elif isinstance(c, wsl.WebsocketStartHook):
            hooks.append([c, 0])
        elif isinstance(c, commands.Log):
            cmds.append(["log"])
        else:
            cmds.append(["other", type(c).__name__])

    def feed(ev):
        if crash[0]:
            return
        try:
            for c in lay.handle_event(ev):
                note(c)
        except Exception as ex:
            crash[0] = _exc_kind(ex)

    def replies(force=False):
        progress = True
        while progress and not crash[0]:
            progress = False
            for h in list(hooks):
                if h[1] <= 0 or force:
                    hooks.remove(h)
                    feed(events.HookCompleted(h[0]))
                    progress = True
                    break

    feed(events.Start())
    replies(True)
    instrument()

    held = {True: b"", False: b""}
    for st in case["steps"]:
        for h in hooks:
            h[1] -= 1
        replies()
        if st[0] in ("f", "raw"):
            if st[0] == "f":
                _, fc, opcode, fin, payload, cuts, hold = st
                fc = bool(fc)
                wire = bytes(peer[fc]._proto._serialize_frame(Opcode(opcode), unhx(payload), fin))
            else:
                _, fc, b0, payload, cuts, hold = st
                fc = bool(fc)
                wire = raw_frame(fc, b0, unhx(payload))
            wire = held[fc] + wire
            held[fc] = b""
            pts = sorted({c % (len(wire) + 1) for c in cuts})
            segs, last = [], 0
            for p in pts + [len(wire)]:
                if p > last:
                    segs.append(wire[last:p])
                    last = p
            if hold and segs:
                held[fc] = segs.pop()
            for s in segs:
                fed.append(["data", fc])
                feed(events.DataReceived(ctx.client if fc else ctx.server, s))
                replies()
        elif st[0] == "eof":
            fc = bool(st[1])
            fed.append(["eof", fc])
            feed(events.ConnectionClosed(ctx.client if fc else ctx.server))
        elif st[0] == "inj":
            _, fc, is_text, content = st
            fed.append(["inj", bool(fc), bool(is_text), content])
            m = websocket.WebSocketMessage(Opcode.TEXT if is_text else Opcode.BINARY, bool(fc), unhx(content))
            feed(wsl.WebSocketMessageInjected(flow, m))
        replies()
    replies(True)

    # assemble the model input: one layer event per fed event, with the wsproto events observed in its loop
    loops, cur = [], None
    for l in log:
        if l[0] == "loop":
            cur = {"fc": l[1], "evs": []}
            loops.append(cur)
        elif l[0] == "ev" and cur is not None:
            cur["evs"].append(l[2])
    levs = []
    for i, f in enumerate(fed):
        lp = loops[i] if i < len(loops) else None
        if f[0] == "data":
            levs.append(["data", f[1], lp["evs"] if lp else []])
        elif f[0] == "eof":
            levs.append(["eof", f[1], lp["evs"] if lp else None])
        else:
            levs.append(["inj", f[1], f[2], f[3], lp["evs"] if lp else None])
    w = flow.websocket
    return {"levs": levs, "handled": len(loops), "cmds": cmds, "post": post, "pre": pre,
            "messages": [[m.is_text, bool(m.from_client), hx(m.content), bool(m.dropped), bool(m.injected)] for m in w.messages],
            "closed": None if w.closed_by_client is None else
            [bool(w.closed_by_client), int(w.close_code), None if w.close_reason is None else hx(w.close_reason.encode("utf-8", "surrogatepass"))],
            "fraglog": fraglog, "crash": crash[0], "live": bool(flow.live),
            "peer": {"c": peer_seen[True], "s": peer_seen[False]}, "peer_err": peer_err,
            "unreplied": len(hooks)}


# ------------------------------------------------------------------ generator
TOK = ["a", "b", " ", "Z", "0", "é", "ß", "€", "한", "\U0001f600", "́", "‍", "߿", "ࠀ", "￿", "\U00010000"]
BADTOK = [b"\xff", b"\xc0\xaf", b"\xe2\x82", b"\xf0\x9f\x98", b"\x80", b"\xed\xa0\x80", b"\xf4\x90\x80\x80", b"\xe0\x80\xaf", b"\xc3", b"\xf5"]


def _w(rng, pairs):
    return rng.weighted([(w, v) for v, w in pairs])


def g_text(rng, lo=0, hi=10):
    return "".join(rng.choice(TOK[:5]) if rng.chance(0.55) else rng.choice(TOK) for _ in range(rng.randint(lo, hi))).encode()


def g_content(rng, is_text, fs):
    if fs >= 1000:
        unit = g_text(rng, 1, 4) if is_text else rng.bytes(3)
        n = rng.randint(4001, 4400) // max(1, len(unit)) + 1
        return unit * n
    if is_text:
        return g_text(rng)
    return rng.bytes(rng.randint(0, 14))


def g_badbytes(rng):
    parts = []
    for _ in range(rng.randint(1, 6)):
        parts.append(rng.choice(BADTOK) if rng.chance(0.45) else rng.choice(TOK).encode())
    return b"".join(parts)


def g_cuts(rng, content, is_text, maxframes):
    n = len(content)
    k = _w(rng, [(1, 0.35), (2, 0.3), (3, 0.2), (4, 0.1), (5, 0.05)])
    k = min(k, maxframes)
    pts = sorted(rng.randint(0, n) for _ in range(k - 1))
    if is_text and rng.chance(0.75):   # move cuts to character boundaries
        pts = [next(q for q in range(p, n + 1) if q == n or (content[q] & 0xC0) != 0x80) for p in pts]
    return pts


def g_act(rng, is_text):
    a = _w(rng, [("keep", 0.48), ("rot", 0.06), ("app", 0.1), ("pre", 0.05), ("trunc", 0.08), ("set", 0.1), ("drop", 0.1), ("setdrop", 0.03)])
    if a in ("app", "pre"):
        return [a, hx(g_text(rng, 1, 3))]
    if a == "trunc":
        return [a, rng.randint(0, 5)]
    if a in ("set", "setdrop"):
        c = g_badbytes(rng) if rng.chance(0.15) else g_text(rng, 0, 12)
        return [a, hx(c)]
    return [a]


def g_seg(rng):
    cuts = [rng.randint(0, 40) for _ in range(rng.randint(1, 2))] if rng.chance(0.3) else []
    return cuts, rng.chance(0.12)


def g_close_payload(rng):
    if rng.chance(0.2):
        return b""
    code = rng.choice([1000, 1001, 1002, 1003, 1007, 1008, 1011, 3000, 4000, 4999])
    return code.to_bytes(2, "big") + g_text(rng, 0, 4)


def gen_session(rng, tier):
    big = rng.chance(0.006)
    fs = 4000 if big else _w(rng, [(rng.randint(1, 4), 0.35), (rng.randint(5, 16), 0.65)])
    steps, acts = [], []
    nmsg = 1 if big else rng.randint(1, 7)
    pending = []   # frames queued per message: interleave frames of at most one message per side
    streams = {1: [], 0: []}
    for _ in range(nmsg):
        fc = 1 if rng.chance(0.5) else 0
        is_text = rng.chance(0.6)
        content = g_content(rng, is_text, fs)
        pts = g_cuts(rng, content, is_text, 3 if big else 5)
        frames, last = [], 0
        for i, p in enumerate(pts + [len(content)]):
            cuts, hold = ([], False) if big else g_seg(rng)
            frames.append(["f", fc, (1 if is_text else 2) if i == 0 else 0, i == len(pts), hx(content[last:p]), cuts, hold])
            last = p
        streams[fc].append(frames)
        acts.append(g_act(rng, is_text))
    # merge the two directions, sprinkling control frames and injections between frames
    flat = {fc: [f for fr in streams[fc] for f in fr] for fc in (0, 1)}
    while flat[0] or flat[1]:
        fc = 1 if (flat[1] and (not flat[0] or rng.chance(0.5))) else 0
        steps.append(flat[fc].pop(0))
        r = rng.random()
        if r < 0.10:
            cuts, hold = g_seg(rng)
            steps.append(["f", rng.below(2), rng.choice([9, 10]), True, hx(rng.bytes(rng.randint(0, 5))), cuts, hold])
        elif r < 0.16 and not big and (rng.chance(0.35) or not any(f[2] == 0 for f in flat[0][:1] + flat[1][:1])):
            it = rng.chance(0.6)
            c = g_badbytes(rng) if (it and rng.chance(0.15)) else g_content(rng, it, fs)
            steps.append(["inj", rng.below(2), it, hx(c)])
            acts.insert(rng.randint(0, len(acts)), g_act(rng, it))
    r = rng.random()
    if r < 0.45:
        cuts, hold = g_seg(rng)
        steps.append(["f", rng.below(2), 8, True, hx(g_close_payload(rng)), cuts, False])
    elif r < 0.6:
        steps.append(["eof", rng.below(2)])
    if r < 0.6 and rng.chance(0.5):   # traffic after the end: handled by WebsocketLayer.done
        steps.append(["f", rng.below(2), 2, True, hx(b"late"), [], False])
        if rng.chance(0.3):
            steps.append(["inj", rng.below(2), False, hx(b"late")])
    delay = [_w(rng, [(0, 0.7), (1, 0.12), (2, 0.1), (3, 0.08)]) for _ in range(len(acts))]
    return {"k": "sess", "fs": fs, "deflate": rng.chance(0.3), "steps": steps, "acts": acts, "delay": delay, "valid": True}


def gen_adversarial(rng, tier):
    fs = rng.randint(1, 8)
    steps = []
    for _ in range(rng.randint(1, 8)):
        fc = rng.below(2)
        r = rng.random()
        cuts, hold = g_seg(rng)
        if r < 0.55:
            op = _w(rng, [(0, 0.25), (1, 0.35), (2, 0.2), (9, 0.1), (10, 0.1)])
            pl = g_badbytes(rng) if rng.chance(0.5) else g_text(rng, 0, 5)
            steps.append(["f", fc, op, rng.chance(0.6), hx(pl), cuts, hold])
        elif r < 0.7:
            pl = rng.choice([b"\x03", b"\x03\xe7", b"\x03\xed", b"\x03\xee", b"\x03\xf7", b"\x0b\xb7", b"\x03\xe8\xff", b"\x03\xe8ok", b"", b"\x13\x88x", b"\x03\xf3"])
            steps.append(["f", fc, 8, True, hx(pl), cuts, hold])
        elif r < 0.85:
            b0 = rng.choice([0x83, 0x8b, 0xc1, 0xa2, 0x91, 0x09, 0x08, 0x8f, 0x80, 0x01])
            steps.append(["raw", fc, b0, hx(rng.bytes(rng.randint(0, 6))), cuts, hold])
        elif r < 0.93:
            it = rng.chance(0.7)
            steps.append(["inj", fc, it, hx(g_badbytes(rng) if it else rng.bytes(rng.randint(0, 9)))])
        else:
            steps.append(["eof", fc])
    acts = [g_act(rng, True) for _ in range(rng.randint(0, 4))]
    return {"k": "sess", "fs": fs, "deflate": False, "steps": steps, "acts": acts, "delay": [rng.below(3) for _ in acts], "valid": False}


def gen_frag(rng, tier):
    big = rng.chance(0.01)
    fs = 4000 if big else rng.randint(1, 9)
    is_text = rng.chance(0.6)
    if is_text:
        content = g_badbytes(rng) if rng.chance(0.3) else g_content(rng, True, fs)
    else:
        content = g_content(rng, False, fs)
    lens = [rng.randint(0, 6) for _ in range(rng.randint(0, 5))]
    r = rng.random()
    if r < 0.45 and not big:      # lengths that add up to len(content): the reuse branch
        pts = sorted(rng.randint(0, len(content)) for _ in range(rng.randint(0, 4)))
        lens = [b - a for a, b in zip([0] + pts, pts + [len(content)])]
    elif r < 0.55 and not big:    # off by one
        pts = sorted(rng.randint(0, len(content)) for _ in range(rng.randint(0, 3)))
        lens = [b - a for a, b in zip([0] + pts, pts + [len(content)])]
        lens[rng.below(len(lens))] += 1
    elif big:
        lens = [len(content)] if rng.chance(0.3) else [rng.randint(0, 4000)]
    return {"k": "frag", "fs": fs, "lens": lens, "text": is_text, "content": hx(content)}


def gen(rng, n, tier):
    out = []
    for _ in range(n):
        r = rng.random()
        if r < 0.10:
            out.append(gen_handover(rng, tier))
        elif r < 0.65:
            out.append(gen_session(rng, tier))
        elif r < 0.80:
            out.append(gen_adversarial(rng, tier))
        else:
            out.append(gen_frag(rng, tier))
    return out


# ------------------------------------------------------------------ Coq terms
def c_str(h):
    return ccodepoints(unhx(h).decode("utf-8", "surrogatepass"))


def c_nat(n):
    return f"{n}%nat"


ST = ["OPEN", "REMOTE_CLOSING", "LOCAL_CLOSING", "CLOSED"]


def c_ev(e):
    if e[0] == "t":
        return f"(WText {c_str(e[1])} {cbool(e[2])} {cbool(e[3])})"
    if e[0] == "b":
        return f"(WBytes {cbytes(unhx(e[1]))} {cbool(e[2])} {cbool(e[3])})"
    if e[0] == "ping":
        return f"(WPing {cbytes(unhx(e[1]))})"
    if e[0] == "pong":
        return f"(WPong {cbytes(unhx(e[1]))})"
    if e[0] == "close":
        return f"(WClose {cN(e[1])} {copt(e[2], c_str, 'str')})"
    raise ValueError(e)


def c_evst(e):
    return f"({c_ev(e)}, {ST[e[3]] if e[0] == 'close' else 'OPEN'})"


def c_lev(l):
    if l[0] == "data":
        return f"(LData {cbool(l[1])} {clist([c_evst(e) for e in l[2]], '(wsevent * wsstate)')})"
    if l[0] == "eof":
        return f"(LClosed {cbool(l[1])})"
    return f"(LInject {cbool(l[1])} {cbool(l[2])} {cbytes(unhx(l[3]))})"


def c_cmd(c):
    if c[0] == "send":
        return f"(CSend {cbool(c[1])} {c_ev(c[2])})"
    if c[0] == "closeconn":
        return f"(CCloseConn {cbool(c[1])})"
    return {"msghook": "CMsgHook", "endhook": "CEndHook", "log": "CLog"}[c[0]]


def relay_lens(obs):
    return [l for l, _ in obs["fraglog"] if l]


def coq_case(case, obs):
    if case["k"] == "hand":
        return None      # the upgrade hand-over (HttpLayer -> WebsocketLayer) is not modelled: oracle only
    if case["k"] == "frag":
        return (f"Frag {c_nat(case['fs'])} {clist([c_nat(l) for l in case['lens']], 'nat')} {cbool(case['text'])} "
                f"{cbytes(unhx(case['content']))} {clist([c_ev(e) for e in obs['out']], 'wsevent')}")
    if any(c[0] == "other" for c in obs["cmds"]) or obs["unreplied"]:
        raise ValueError("unexpected command from the layer")
    lens = relay_lens(obs)
    if len(lens) != len(obs["messages"]):
        raise ValueError("fragmentizer log does not match the message list")
    if len(obs["pre"]) != len(obs["messages"]):
        raise ValueError("hook count does not match the message list")
    # an eof event is modelled by the wsproto contract (1006, no reason, CLOSED): check the observation agrees
    # (done in oracle under key wsproto-contract); the model input carries no events for it
    levs = clist([c_lev(l) for l in obs["levs"]], "levent")
    post = clist([f"({cbytes(unhx(p[0]))}, {cbool(p[1])})" for p in obs["post"]], "(bytes * bool)")
    inj = clist([f"({cbool(l[2])}, {cbytes(unhx(l[3]))}, {clist([c_ev(e) for e in l[4]], 'wsevent')})"
                 for l in obs["levs"] if l[0] == "inj" and l[4] is not None], "(bool * bytes * list wsevent)")
    cmds = clist([c_cmd(c) for c in obs["cmds"]], "cmd")
    msgs = clist([f"(mkO {cbool(m[0])} {cbool(m[1])} {cbytes(unhx(m[2]))} {cbool(m[3])} {cbool(m[4])} {clist([c_nat(x) for x in l], 'nat')} {cbytes(unhx(p))})"
                  for m, l, p in zip(obs["messages"], lens, obs["pre"])], "omsg")
    cl = obs["closed"]
    clt = "None" if cl is None else f"(Some ({cbool(cl[0])}, {cN(cl[1])}, {copt(cl[2], c_str, 'str')}))"
    return f"Sess {c_nat(case['fs'])} {levs} {post} {inj} {cmds} {msgs} {clt} {cbool(obs['crash'] is not None)} {cbool(obs['live'])}"


# ------------------------------------------------------------------ oracle (the property on the implementation)
def _valid(b):
    try:
        b.decode("utf-8")
        return True
    except UnicodeDecodeError:
        return False


def _reasm(evs):
    """message events -> [[is_text, content, frame_lens]], plus whether a message is left unfinished"""
    out, data, lens, cur, started = [], b"", [], 0, False
    for e in evs:
        if e[0] not in ("t", "b"):
            continue
        d = unhx(e[1])
        data += d
        cur += len(d)
        started = True
        if e[2]:
            lens.append(cur)
            cur = 0
        if e[3]:
            out.append([e[0] == "t", data, lens])
            data, lens, cur, started = b"", [], 0, False
    return out, started


def _split_explains(content, payloads):
    """True iff payloads = [slice.decode(errors=replace).encode()] for consecutive slices of content with at least
    one cut strictly inside a character (content is valid UTF-8): the text-split defect and nothing else."""
    n = len(content)

    def inside(p):
        return 0 < p < n and (content[p] & 0xC0) == 0x80

    def rec(i, off, bad):
        if i == len(payloads):
            return off == n and bad
        p = payloads[i]
        for L in range(max(0, len(p) - 8), len(p) + 1):
            if off + L <= n and content[off:off + L].decode("utf-8", "replace").encode() == p:
                if rec(i + 1, off + L, bad or inside(off + L)):
                    return True
        return False
    return rec(0, 0, False)


K_SPLIT = "text-split-inside-character"
K_INJ = "inject-during-fragmented-message"
K_TXTB = "text-frame-boundary-moved-to-codepoint"
K_DEFL = "deflate-frame-boundaries-moved"
K_CTRL = "deflate-control-frame-inside-message"


def _ctrl_mid(case, fc):
    """a ping/pong from fc is put on the wire between two frames of a message from fc"""
    prog = False
    for st in case["steps"]:
        if st[0] == "f" and bool(st[1]) == fc:
            if st[2] in (0, 1, 2):
                prog = not st[3]
            elif st[2] in (9, 10) and prog:
                return True
    return False


def oracle_frag(case, obs):
    v = []
    content, lens, fs = unhx(case["content"]), case["lens"], case["fs"]
    out = obs["out"]
    if not out or [e[3] for e in out] != [False] * (len(out) - 1) + [True] or not all(e[2] for e in out):
        return [{"key": "fragment-flags", "what": f"message_finished/frame_finished flags wrong for lens={lens} len={len(content)}"}]
    if any((e[0] == "t") != case["text"] for e in out):
        v.append({"key": "fragment-type", "what": "fragment of the wrong type"})
    pay = [unhx(e[1]) for e in out]
    if not case["text"] or _valid(content):
        if b"".join(pay) != content:
            if case["text"] and _split_explains(content, pay):
                v.append({"key": K_SPLIT, "what": f"Fragmentizer({lens}, True) with FRAGMENT_SIZE={fs} cut a {len(content)}-byte text inside a character: U+FFFD sent"})
            else:
                v.append({"key": "content-mismatch", "what": f"fragments of {case['content'][:60]} do not concatenate to the content"})
        else:
            got = [len(p) for p in pay]
            if len(content) == sum(lens) and lens:
                if got != lens:
                    v.append({"key": "frame-boundaries-changed", "what": f"lengths {lens} add up to the content but fragments are {got}"})
            elif len(content) != sum(lens):
                if any(g != fs for g in got[:-1]) or got[-1] > fs or (got[-1] == 0 and len(content) > 0):
                    v.append({"key": "rechunk-sizes", "what": f"re-chunked fragment sizes {got[:6]} for FRAGMENT_SIZE={fs}"})
    return v


def _true_msgs(case, fc):
    """messages the peer really put on the wire (valid sessions): [is_text, content, frame_lens]"""
    out, cur = [], None
    for st in case["steps"]:
        if st[0] == "f" and bool(st[1]) == fc and st[2] in (0, 1, 2):
            if st[2] != 0:
                cur = [st[2] == 1, b"", []]
            if cur is None:
                continue
            cur[1] += unhx(st[4])
            cur[2].append(len(unhx(st[4])))
            if st[3]:
                out.append(cur)
                cur = None
    return out


def oracle(case, obs):
    if case["k"] == "frag":
        return oracle_frag(case, obs)
    if case["k"] == "hand":
        return oracle_hand(case, obs)
    v = []

    def add(key, what):
        v.append({"key": key, "what": what})
    if obs["crash"]:
        add("layer-exception", f"WebsocketLayer raised {obs['crash']}")
    if obs["peer_err"]:
        add("peer-rejected-frames", f"a wsproto peer could not parse what mitmproxy sent: {obs['peer_err'][:2]}")
    msgs, pre, levs = obs["messages"], obs["pre"], obs["levs"]
    if len(pre) != len(msgs):
        add("hook-count", f"{len(pre)} message hooks for {len(msgs)} recorded messages")
        return v
    # which injections arrived while a message from the same side was in progress
    inprog, midinj = {True: False, False: False}, {True: False, False: False}
    first_close = None
    for l in levs:
        if l[0] == "data":
            for e in l[2]:
                if e[0] in ("t", "b"):
                    inprog[l[1]] = not e[3]
                elif e[0] == "close" and first_close is None:
                    first_close = [l[1], e[1], e[2]]
        elif l[0] == "eof":
            if l[2] is not None:
                if l[2] != [["close", 1006, None, 3]]:
                    add("wsproto-contract", f"receive_data(None) yielded {l[2]}")
                if first_close is None:
                    first_close = [l[1], 1006, None]
        elif l[0] == "inj" and l[4] is not None and inprog[l[1]]:
            midinj[l[1]] = True

    for X in (True, False):            # X receives; the messages come from side not X
        Y = not X
        seen = obs["peer"]["c" if X else "s"]
        delivered, unfinished = _reasm(seen)
        expected = [[m[0], unhx(m[2]), i] for i, m in enumerate(msgs) if m[1] == Y and not m[3]]
        who = "client" if X else "server"
        if unfinished:
            add("not-exactly-once-in-order", f"{who} was left with an unfinished message")
        if len(delivered) != len(expected) or any(d[0] != e[0] for d, e in zip(delivered, expected)):
            add("not-exactly-once-in-order", f"{who} received {len(delivered)} messages (types {[d[0] for d in delivered][:8]}), recorded non-dropped: {len(expected)}")
            continue
        # source side view: wsproto events the layer saw from Y
        src_evs = [e for l in levs if l[0] == "data" and l[1] == Y for e in l[2]]
        src_msgs, _ = _reasm(src_evs)
        rec_noninj = [[m[0], unhx(pre[i]), i] for i, m in enumerate(msgs) if m[1] == Y and not m[4]]
        src_ok = len(rec_noninj) == len(src_msgs) and all(r[0] == s[0] and r[1] == s[1] for r, s in zip(rec_noninj, src_msgs))
        if not src_ok:
            if midinj[Y]:
                add(K_INJ, f"a message injected while a fragmented message from the {'client' if Y else 'server'} was in progress was merged with it")
            else:
                add("recorded-mismatch", f"messages recorded for the {'client' if Y else 'server'} differ from the messages it sent")
        if case.get("valid") and not midinj[Y]:
            tm = _true_msgs(case, Y)
            if any(i >= len(tm) or r[0] != tm[i][0] or r[1] != tm[i][1] for i, r in enumerate(rec_noninj)):
                if case["deflate"] and _ctrl_mid(case, Y):
                    add(K_CTRL, "wsproto PerMessageDeflate stops inflating a fragmented message after an interleaved control frame: recorded content is the compressed bytes")
                else:
                    add("recorded-mismatch", "recorded messages are not a prefix of the messages put on the wire")
            elif not case["deflate"] and src_ok:
                for i, s in enumerate(src_msgs):
                    if s[2] != tm[i][2]:
                        c, cuts = tm[i][1], [sum(tm[i][2][:j + 1]) for j in range(len(tm[i][2]) - 1)]
                        if s[0] and any(0 < p < len(c) and (c[p] & 0xC0) == 0x80 for p in cuts):
                            add(K_TXTB, f"text frames {tm[i][2]} cut inside a character are relayed as {s[2]}")
                        else:
                            add("wsproto-contract", f"wsproto reported frame lengths {s[2]} for frames {tm[i][2]}")
        # injected messages from Y, in order
        inj_in = [l for l in levs if l[0] == "inj" and l[1] == Y and l[4] is not None]
        rec_inj = [[m[0], unhx(pre[i])] for i, m in enumerate(msgs) if m[1] == Y and m[4]]
        if not midinj[Y]:
            if len(inj_in) != len(rec_inj):
                add("injected-lost-or-duplicated", f"{len(inj_in)} injections, {len(rec_inj)} injected messages recorded")
            else:
                for l, r in zip(inj_in, rec_inj):
                    c = unhx(l[3])
                    if l[2] != r[0]:
                        add("injected-type", "injected message recorded with another type")
                    elif (not l[2] or _valid(c)) and r[1] != c:
                        pay, _ = _reasm(l[4])
                        if l[2] and _split_explains(c, [unhx(e[1]) for e in l[4]]):
                            add(K_SPLIT, f"injected {len(c)}-byte text cut inside a character at FRAGMENT_SIZE={case['fs']}: recorded with U+FFFD")
                        else:
                            add("content-mismatch", "injected message recorded with a different content")
        # content and frame boundaries of what was delivered
        # frames as delivered (per message): payloads of the peer's events grouped by message
        frames, cur = [], []
        for e in seen:
            if e[0] in ("t", "b"):
                cur.append(unhx(e[1]))
                if e[3]:
                    frames.append(cur)
                    cur = []
        noninj_pos = {r[2]: k for k, r in enumerate(rec_noninj)}
        for d, e, fr in zip(delivered, expected, frames):
            i = e[2]
            if d[1] != e[1]:
                if e[0] and not _valid(e[1]):
                    continue      # an addon stored bytes that are not UTF-8 in a TEXT message: no text frame can carry them
                if e[0] and not case["deflate"] and _split_explains(e[1], fr):
                    add(K_SPLIT, f"modified text message ({len(e[1])} bytes) re-fragmented at FRAGMENT_SIZE={case['fs']} inside a character: {who} received U+FFFD")
                elif e[0] and case["deflate"] and b"\xef\xbf\xbd" in d[1] and len(fr) > 1:
                    add(K_SPLIT, f"modified text message re-fragmented inside a character (deflate): {who} received U+FFFD")
                else:
                    add("content-mismatch", f"{who} received {d[1][:40].hex()} for recorded content {e[1][:40].hex()}")
                continue
            if unhx(pre[i]) == e[1] and i in noninj_pos and src_ok:     # unmodified: same frame boundaries
                s = src_msgs[noninj_pos[i]]
                if d[2] != s[2]:
                    if case["deflate"] and len(d[2]) == len(s[2]):
                        add(K_DEFL, f"frames {s[2]} relayed as {d[2]}")
                    elif midinj[Y]:
                        add(K_INJ, f"frames {s[2]} relayed as {d[2]}: an injected message took over the frames already received")
                    else:
                        add("frame-boundaries-changed", f"unmodified message with frames {s[2]} relayed as {d[2]}")
                if case.get("valid") and case["deflate"] and not midinj[Y]:
                    t = _true_msgs(case, Y)[noninj_pos[i]]
                    if len(t[2]) != len(d[2]):
                        add("frame-boundaries-changed", f"message of {len(t[2])} frames relayed as {len(d[2])} frames")
                    elif t[2] != d[2]:
                        add(K_DEFL, f"frames {t[2]} relayed as {d[2]} with permessage-deflate")
        # pings and pongs
        want = [e for l in levs if l[0] == "data" and l[1] == Y for e in l[2] if e[0] in ("ping", "pong")]
        got = [e for e in seen if e[0] in ("ping", "pong")]
        if want != got:
            add("ping-pong-relay", f"{who} received {got[:4]} for pings/pongs {want[:4]}")
    # close code and reason
    cl = obs["closed"]
    if first_close is None:
        if cl is not None or not obs["live"]:
            add("close-recording", f"closed={cl} without any close event")
    else:
        if cl != first_close:
            add("close-recording", f"recorded {cl}, closing event was {first_close}")
        if obs["live"]:
            add("close-recording", "flow still live after the close")
        eof_side = first_close[0] if first_close[1] == 1006 and first_close[2] is None else None
        for X in (True, False):
            cs = [e for e in obs["peer"]["c" if X else "s"] if e[0] == "close"]
            if X == eof_side:
                continue
            code = {1005: 1005, 1006: 1000, 1015: 1000}.get(first_close[1], first_close[1])
            reason = unhx(first_close[2] or "") if code != 1005 else b""
            if len(cs) != 1 or cs[0][1] != code or not reason.startswith(unhx(cs[0][2] or "")) or (len(reason) <= 123 and unhx(cs[0][2] or "") != reason):
                add("close-relay", f"{'client' if X else 'server'} received close {cs[:2]} for {first_close}")
    if case.get("valid"):
        for st in case["steps"]:
            if st[0] == "f" and st[2] == 8:
                p = unhx(st[4])
                exp = [bool(st[1]), int.from_bytes(p[:2], "big") if p else 1005, hx(p[2:])]
                if first_close is not None and first_close[0] == exp[0] and first_close != exp and not any(s[0] == "eof" for s in case["steps"]):
                    if case["deflate"] and _ctrl_mid(case, exp[0]):
                        add(K_CTRL, "wsproto PerMessageDeflate stops inflating a fragmented message after an interleaved control frame: parse error")
                    else:
                        add("close-recording", f"peer closed with {exp}, wsproto reported {first_close}")
    return v


def nontrivial(case, obs):
    if case["k"] == "hand":
        return bool(obs["buffered"]["c"] or obs["buffered"]["s"])
    if case["k"] == "frag":
        return len(obs["out"]) >= 2
    n, run = 0, 0
    for c in obs["cmds"]:
        if c[0] == "send" and c[2][0] in ("t", "b"):
            run += 1
            if c[2][3]:
                n = max(n, run)
                run = 0
    return n >= 2


def classify(case, obs):
    if case["k"] == "hand":
        t = ["handover", "handover-" + case["mode"]]
        for side, name in (("s", "server-coalesced-with-101"), ("c", "client-frames-before-101")):
            b = obs["buffered"][side]
            if b:
                t.append("handover-" + name)
                if unhx(b)[-1:] in (b"\r", b"\n"):
                    t.append("handover-buffer-ends-in-crlf")
                if unhx(b)[:1] in (b"\r", b"\n"):
                    t.append("handover-buffer-starts-with-crlf")
        if any(unhx(x)[-1:] in (b"\r", b"\n") for side in ("c", "s") for x in obs["segments"][side]):
            t.append("handover-segment-ends-in-crlf")
        return t
    if case["k"] == "frag":
        same = len(unhx(case["content"])) == sum(case["lens"])
        return ["frag", "frag-text" if case["text"] else "frag-binary", "reuse-lengths" if same else "rechunk",
                f"fragments={min(len(obs['out']), 4)}{'+' if len(obs['out']) > 4 else ''}", "fs=4000" if case["fs"] == 4000 else "fs-small"]
    t = ["session" if case.get("valid") else "adversarial", "deflate" if case["deflate"] else "plain"]
    msgs, pre, post = obs["messages"], obs["pre"], obs["post"]
    if any(m[4] for m in msgs):
        t.append("injected")
    if any(m[3] for m in msgs):
        t.append("dropped")
    if any(p != q[0] and len(unhx(p)) == len(unhx(q[0])) for p, q in zip(pre, post)):
        t.append("modified-same-length")
    if any(len(unhx(p)) != len(unhx(q[0])) for p, q in zip(pre, post)):
        t.append("modified-other-length")
    if any(len(l) > 1 for l in relay_lens(obs)):
        t.append("fragmented-in")
    if any(c[0] == "log" for c in obs["cmds"]):
        t.append("ping-pong")
    if obs["closed"] is not None:
        t.append("closed-" + ("eof" if obs["closed"][1] == 1006 else "parse-error" if any(
            e[0] == "close" and e[3] == 0 for l in obs["levs"] if l[0] == "data" for e in l[2]) else "frame"))
    if len(obs["levs"]) > obs["handled"]:
        t.append("events-after-done")
    if case["fs"] == 4000:
        t.append("fs=4000")
    if any(d > 0 for d in case["delay"][:len(msgs)]):
        t.append("delayed-hook-reply")
    if obs["crash"]:
        t.append("crash")
    return t



# ------------------------------------------------------------------ upgrade hand-over (HttpLayer -> WebsocketLayer), oracle only
# The bytes a peer sent right behind the HTTP/1 handshake sit in the Http1Connection buffer when the connection becomes
# a pipe (Http1Connection.make_pipe); they must reach the WebsocketLayer unchanged.
H_REQ = {"transparent": b"GET /chat HTTP/1.1\r\nHost: example.com\r\n",
         "regular": b"GET http://example.com/chat HTTP/1.1\r\nHost: example.com\r\n"}
H_UP = b"Connection: upgrade\r\nUpgrade: websocket\r\nSec-WebSocket-Version: 13\r\n\r\n"
H_RESP = b"HTTP/1.1 101 Switching Protocols\r\nUpgrade: websocket\r\nConnection: Upgrade\r\n\r\n"
NL_TOK = [b"\n", b"\r", b"\r\n", b"\n\n", b"a", b"line", b"{\"k\":1}", b"\x00", b"\xff", b" ", b"\r\r\n"]


def h_frame(fc, opcode, fin, payload, mask):
    b0 = (0x80 if fin else 0) | opcode
    n = len(payload)
    ln = bytes([n]) if n < 126 else bytes([126, n >> 8, n & 255])
    if not fc:
        return bytes([b0]) + ln + payload
    m = unhx(mask)
    return bytes([b0, 0x80 | ln[0]]) + ln[1:] + m + bytes(x ^ m[i % 4] for i, x in enumerate(payload))


def h_stream(case, fc):
    """wire bytes of one side and the messages they carry"""
    wire, msgs = b"", []
    for m in case["c" if fc else "s"]:
        content = unhx(m["content"])
        pts = m["cuts"]
        last = 0
        for i, p in enumerate(pts + [len(content)]):
            wire += h_frame(fc, (1 if m["text"] else 2) if i == 0 else 0, i == len(pts), content[last:p], m.get("mask", "00000000"))
            last = p
        msgs.append([bool(m["text"]), hx(content)])
    return wire, msgs


def h_segments(wire, cuts):
    pts = sorted({c for c in cuts if 0 < c < len(wire)})
    return [wire[a:b] for a, b in zip([0] + pts, pts + [len(wire)])]


def g_nl_content(rng, is_text):
    parts = [rng.choice(NL_TOK) for _ in range(rng.randint(1, 8))]
    if is_text:
        parts = [x for x in parts if x not in (b"\x00", b"\xff")] or [b"\n"]
        if rng.chance(0.3):
            parts.append(rng.choice(TOK).encode())
    if rng.chance(0.6):
        parts.append(rng.choice([b"\n", b"\r", b"\r\n"]))
    return b"".join(parts)


def gen_handover(rng, tier):
    case = {"k": "hand", "mode": "regular" if rng.chance(0.4) else "transparent", "c": [], "s": []}
    for side in ("c", "s"):
        for _ in range(rng.randint(0 if side == "c" else 1, 3)):
            is_text = rng.chance(0.6)
            content = g_nl_content(rng, is_text)
            pts = sorted(rng.randint(0, len(content)) for _ in range(_w(rng, [(0, 0.6), (1, 0.3), (2, 0.1)])))
            if is_text:   # keep text frame cuts on ASCII boundaries (content is ASCII apart from one trailing token)
                pts = [p for p in pts if p == len(content) or (content[p] & 0xC0) != 0x80]
            m = {"text": is_text, "content": hx(content), "cuts": pts}
            if side == "c":
                m["mask"] = "00000000" if rng.chance(0.6) else hx(rng.bytes(4))
            case[side].append(m)
    for side in ("c", "s"):
        wire, _ = h_stream(case, side == "c")
        nl = [i + 1 for i, b in enumerate(wire) if b in (10, 13)]     # cut right behind a CR or LF byte
        cuts = []
        for _ in range(rng.randint(0, 3)):
            cuts.append(rng.choice(nl) if nl and rng.chance(0.7) else rng.randint(0, max(1, len(wire))))
        case[side + "cuts"] = sorted(set(cuts))
    # how many segments of each side travel with / right behind the handshake (before the 101 is relayed)
    case["s_with_101"] = _w(rng, [(0, 0.15), (1, 0.6), (2, 0.25)])
    case["c_before_101"] = _w(rng, [(0, 0.4), (1, 0.4), (2, 0.2)])
    case["c_glued"] = rng.chance(0.5)     # first early client segment in the same read as the request head
    case["order"] = [rng.below(2) for _ in range(12)]
    return case


def run_handover(case):
    from mitmproxy.proxy.layers import http as httpl
    opts = options.Options()
    Proxyserver().load(opts)
    ctx = context.Context(connection.Client(peername=("client", 1234), sockname=("127.0.0.1", 8080),
                                            timestamp_start=1605699329, state=connection.ConnectionState.OPEN), opts)
    regular = case["mode"] == "regular"
    if not regular:
        ctx.server.address = ("example.com", 80)
        ctx.server.state = connection.ConnectionState.OPEN
    top = httpl.HttpLayer(ctx, httpl.HTTPMode.regular if regular else httpl.HTTPMode.transparent)
    srv = [None if regular else ctx.server]
    sent = {"c": bytearray(), "s": bytearray()}
    flows, hooks, crash, other = [], [], [None], []

    def feed(ev):
        pending = [ev]
        while pending and not crash[0]:
            e = pending.pop(0)
            try:
                for c in top.handle_event(e):
                    if isinstance(c, commands.SendData):
                        sent["c" if c.connection is ctx.client else "s"] += c.data
                    elif isinstance(c, commands.OpenConnection):
                        srv[0] = c.connection
                        c.connection.state = connection.ConnectionState.OPEN
                        pending.append(events.OpenConnectionCompleted(c, None))
                    elif isinstance(c, commands.StartHook):
                        hooks.append(type(c).__name__)
                        f = getattr(c, "flow", None)
                        if f is not None and f not in flows:
                            flows.append(f)
                        pending.append(events.HookCompleted(c))
                    elif isinstance(c, commands.CloseConnection):
                        other.append("close-" + ("c" if c.connection is ctx.client else "s"))
            except Exception as ex:
                crash[0] = _exc_kind(ex)

    cwire, cmsgs = h_stream(case, True)
    swire, smsgs = h_stream(case, False)
    csegs, ssegs = h_segments(cwire, case["ccuts"]), h_segments(swire, case["scuts"])
    nce, nsw = min(case["c_before_101"], len(csegs)), min(case["s_with_101"], len(ssegs))
    early_c, early_s = csegs[:nce], ssegs[:nsw]
    feed(events.Start())
    req = H_REQ[case["mode"]] + H_UP
    if early_c and case["c_glued"]:
        feed(events.DataReceived(ctx.client, req + early_c[0]))
        rest_early = early_c[1:]
    else:
        feed(events.DataReceived(ctx.client, req))
        rest_early = early_c
    for seg in rest_early:
        feed(events.DataReceived(ctx.client, seg))
    if srv[0] is None:
        return {"harness": "no server connection", "crash": crash[0]}
    feed(events.DataReceived(srv[0], H_RESP + b"".join(early_s[:1])))
    for seg in early_s[1:]:
        feed(events.DataReceived(srv[0], seg))
    rc, rs = csegs[nce:], ssegs[nsw:]
    i = 0
    while rc or rs:
        pick_c = bool(rc) and (not rs or case["order"][i % len(case["order"])] == 1)
        i += 1
        if pick_c:
            feed(events.DataReceived(ctx.client, rc.pop(0)))
        else:
            feed(events.DataReceived(srv[0], rs.pop(0)))

    def decode(data, head_prefix, ctype):
        head, sep, rest = bytes(data).partition(b"\r\n\r\n")
        if not sep or not head.startswith(head_prefix):
            return None
        p = wsproto.Connection(ctype)
        try:
            p.receive_data(rest)
            return [_ev(e, p.state.name) for e in p.events()]
        except Exception as ex:
            return [["other", type(ex).__name__]]
    flow = flows[0] if flows else None
    w = getattr(flow, "websocket", None)
    return {"crash": crash[0], "hooks": hooks, "other": other,
            "sent": {"c": cmsgs, "s": smsgs},
            "buffered": {"c": hx(b"".join(early_c)), "s": hx(b"".join(early_s[:1]))},
            "segments": {"c": [hx(x) for x in csegs], "s": [hx(x) for x in ssegs]},
            "peer": {"c": decode(sent["c"], b"HTTP/1.1 101", wsproto.ConnectionType.CLIENT),
                     "s": decode(sent["s"], b"GET /chat HTTP/1.1", wsproto.ConnectionType.SERVER)},
            "messages": None if w is None else
            [[m.is_text, bool(m.from_client), hx(m.content), bool(m.dropped), bool(m.injected)] for m in w.messages],
            "closed": None if w is None or w.closed_by_client is None else [bool(w.closed_by_client), int(w.close_code)]}


def oracle_hand(case, obs):
    v = []

    def add(key, what):
        v.append({"key": key, "what": what})
    if obs.get("harness"):
        add("handover-harness", obs["harness"])
        return v
    if obs["crash"]:
        add("layer-exception", f"HttpLayer/WebsocketLayer raised {obs['crash']} during the upgrade hand-over")
    if obs["messages"] is None:
        add("handover-no-websocket", "the flow never became a WebSocket flow")
        return v
    for X, Y in (("c", "s"), ("s", "c")):           # X receives what Y sent
        who, src = ("client", "server") if X == "c" else ("server", "client")
        want = [[m[0], m[1]] for m in obs["sent"][Y]]
        rec = [[m[0], m[2]] for m in obs["messages"] if m[1] == (Y == "c") and not m[4]]
        buf = obs["buffered"][Y]
        ctx_ = (f"mode={case['mode']}, {len(unhx(buf))} bytes of the {src} buffered at the upgrade"
                + (" ending in CR/LF" if unhx(buf)[-1:] in (b"\r", b"\n") else ""))
        if rec != want:
            add("handover-recorded-mismatch", f"{src} sent {len(want)} messages, flow recorded {len(rec)} equal={sum(a == b for a, b in zip(rec, want))} ({ctx_})")
        seen = obs["peer"][X]
        if seen is None:
            add("handover-delivered-mismatch", f"{who} did not receive the relayed handshake ({ctx_})")
            continue
        got, unfinished = _reasm(seen)
        got = [[g[0], hx(g[1])] for g in got]
        if got != want or unfinished:
            add("handover-delivered-mismatch", f"{who} received {len(got)} messages for {len(want)} sent by the {src} ({ctx_})")
        if any(e[0] in ("close", "other") for e in seen):
            add("handover-unexpected-close", f"{who} received {[e for e in seen if e[0] in ('close', 'other')][:1]} although nobody closed ({ctx_})")
    if obs["closed"] is not None:
        add("handover-unexpected-close", f"flow closed with {obs['closed']} although nobody closed")
    return v
