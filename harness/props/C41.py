"""C41 -- HAR export followed by HAR import preserves the exchange
(mitmproxy/addons/savehar.py SaveHar.export_har/make_har/flow_entry, mitmproxy/io/har.py fix_headers/request_to_flow,
read back through mitmproxy.io.FlowReader)."""
import json
import os
import re
import tempfile
import zlib

from lib.coqterm import cbytes, cbool, clist, cpair, cN, hx, unhx

ID = "C41"
QUICK_N = 400
THOROUGH_N = 3000
SHARD = 35
RULE = ("each case is a list of 1-4 flows with distinct creation/start times that are mostly NOT in list order (HTTP request/response pairs, now and then a non-HTTP flow or an HTTP flow "
        "without response) exported with the real SaveHar.export_har to a file and read back with the real FlowReader. "
        "70% structured: method x version (HTTP/1.1, HTTP/2.0, HTTP/3, few HTTP/1.0 and HTTP/2) x Host/authority shape x "
        "header sets from a token dictionary (content-type with charsets, duplicates, content-length right/wrong/absent, "
        "content codings gzip/deflate/br/zstd/identity/unknown/corrupt, transfer-encoding) x bodies (empty, ASCII, UTF-8, "
        "latin-1, BOMs, html/xml/css with embedded charset, binary, sizes 99-104 with multi-byte characters at the "
        "is_mostly_bin cut, ratios around the 0.7/0.95 thresholds, missing body); 30% mutated (random bytes in header "
        "names/values/paths/charsets/bodies). Non-trivial = at least one HTTP flow with a response and a non-empty body or "
        "more than one header; distinct by canonical JSON.")
TRUSTED = ["Coq 8.16.1 kernel (coqc), vm_compute for case evaluation",
           "harness/props/C41.py generator, call recorder and comparison glue (Corr/C41.v)",
           "codec library is ABSTRACT in the model (record lib): mitmproxy.net.encoding.encode/decode (content codings and "
           "charsets), infer_content_encoding, base64, Python utf-8/surrogateescape codec, the URL setter of "
           "Request (urllib parse, hostport, unparse), content-type re-assembly of Message.set_text, json dumps/loads; the "
           "correspondence check feeds the model the results the real functions returned during the run (recorded by wrapping "
           "them) and fails if the model asks for a call that the implementation did not make",
           "hand model of http.Message get_content/set_content/get_text/set_text/decode, Request.make and Headers operations "
           "(Model/Headers.v from C35) -- tied by correspondence only",
           "translator harness/translators/har_tables.py (version match tables of request_to_flow, POST/PUT/PATCH list and "
           "CONNECT literal of flow_entry, regenerated from the source on every run)"]
ASSUMPTIONS = ["a str obtained from bytes by utf-8/surrogateescape is represented by those bytes; str.encode() (strict utf-8) of "
               "such a str returns the bytes iff they are valid UTF-8 and raises UnicodeEncodeError otherwise",
               "json.loads(json.dumps(x)) = x for the dict/list/str/int/None trees the exporter builds (strings with lone "
               "surrogates included)",
               "the two successive Host-header updates of Request.url's setter (host, then port) equal one update with the final value",
               "an absent body (raw_content None) and an empty body are identified when the response body is compared (oracle)"]
TRANSLATORS = ["har_tables"]
ALLOWED_AXIOMS = []
COQ_PRELUDE = "From MV Require Import Model.Har.\n"

POSTLIKE = ("POST", "PUT", "PATCH")
KNOWN_CE = ("none", "identity", "gzip", "deflate", "deflateraw", "br", "zstd")


# ------------------------------------------------------------------------------------------------ generator
HOSTS = ["example.com", "a.example.org", "10.0.0.1", "localhost", "sub.domain.example.net"]
ODD_HOSTS = ["xn--bcher-kva.example", "EXAMPLE.com"]
PATHS = [b"/", b"/index.html", b"/a/b?x=1&y=2", b"/p;k=v?q=1", b"/search?q=a%20b", b"/x#frag", b"/%E2%82%AC", b"/a//b/", b"/~u/", b"/a?b=c#d"]
BAD_PATHS = [b"/\xc3\xa9", b"/\xff", b"/a b", b"/\x7f", b"/?", b"/a?", b"/?#f", b"/a;", b"/a;?x=1", b"/a#", b"/a;p?#", b"/x;/y;"]
CT_TEXT = [b"text/plain", b"text/plain; charset=utf-8", b"text/plain;charset=UTF-8", b"application/json", b"text/html; charset=utf-8",
           b"application/x-www-form-urlencoded", b"application/javascript", b"text/plain; charset=latin-1", b"text/html; charset=iso-8859-1",
           b"application/octet-stream", b"image/png", b"multipart/form-data; boundary=xx", b"text/html", b"text/css", b"text/xml", b"application/xml",
           b"text/html; charset=windows-1252", b"garbage"]
CT_ODD = [b"text/plain; charset=utf-16", b"application/json; charset=ascii", b"text/plain; charset=x-nope", b"text/html; charset=shift_jis",
          b"text/plain; charset=gbk", b"text/plain; charset=utf-8-sig", b"text/plain; charset=utf-32", b"text/plain; charset=UTF-7",
          b"text/plain; charset=big5", b"text/plain; charset=cp037", b"text/plain; charset=idna", b"text/plain; charset=\xff", b"text/plain; charset=",
          b"text/plain; charset=\"utf-8\"", b"text/plain; charset=utf-8\x00"]
CT_CODEC = [b"text/plain; charset=hex", b"text/plain; charset=rot13", b"text/plain; charset=base64"]
PLAIN_H = [(b"Accept", b"*/*"), (b"User-Agent", b"curl/8.0"), (b"Cookie", b"a=1; b=2"), (b"X-Custom", b"caf\xc3\xa9"),
           (b"accept-language", b"de, en;q=0.5"), (b"X-Empty", b""), (b"Referer", b"http://example.com/"), (b"X-Dup", b"1"), (b"x-dup", b"2"),
           (b"Authorization", b"Basic dXNlcjpwdw=="), (b"X-\xe2\x82\xac", b"v")]
PLAIN_SH = [(b"Server", b"nginx"), (b"Set-Cookie", b"a=1; Path=/; HttpOnly"), (b"set-cookie", b"b=2; Secure; SameSite=Lax"),
            (b"Location", b"/next"), (b"Cache-Control", b"no-store"), (b"X-Custom", b"\xc3\xbcber"), (b"Vary", b"Accept"), (b"Date", b"Mon, 01 Jan 2024 00:00:00 GMT"),
            (b"ETag", b"\"abc\""), (b"X-Empty", b"")]
BAD_H = [(b"X-Bin", b"\xff\xfe"), (b"X-Latin", b"caf\xe9"), (b"X-\xff", b"v"), (b"X-Trunc", b"\xe2\x82"), (b"X-Sur", b"\xed\xa0\x80")]
TEXTS = [b"", b"hello", b"{\"a\": 1}", b"a=1&b=2", b"line1\r\nline2\n", b"caf\xc3\xa9 \xe2\x82\xac", b"abc", b"\t\n\r ok", b"<html><body>hi</body></html>",
         b"<meta charset=utf-8>\xc3\xa9", b"a{color:red}", b"<?xml version=\"1.0\"?><a>b</a>", b"\xf0\x9f\x98\x80 emoji", b"6162", b"YWJj"]
ODD_TEXTS = [b"caf\xe9", b"\xef\xbb\xbfbom", b"\xff\xfea\x00b\x00", b"\xfe\xff\x00a", b"<html><head><meta charset=\"latin-1\"></head>\xe9</html>",
             b"<?xml version=\"1.0\" encoding=\"iso-8859-1\"?><a>\xe9</a>", b"@charset \"latin-1\";a{}\xe9", b"\x82\xa0\x82\xa2", b"\xc4\xe3\xba\xc3",
             b"\x00\x01\x02\x03", b"\x89PNG\r\n\x1a\n\x00\x00", b"\x1b[0m", b"+2AA-", b"a\x00b", b"\x00\x00\xfe\xff\x00\x00\x00a", b"\xff\xfe\x00\x00a\x00\x00\x00"]
STATUS = [200, 201, 204, 301, 302, 304, 400, 404, 500, 503, 100, 599, 999, 0]
METHODS = [(30, "GET"), (25, "POST"), (9, "PUT"), (9, "PATCH"), (5, "DELETE"), (5, "HEAD"), (4, "OPTIONS")]
ODD_METHODS = [(3, "CONNECT"), (2, "post"), (1, "QUERY"), (1, "OPTIONS*")]
VERSIONS = [(61, "HTTP/1.1"), (14, "HTTP/2.0"), (20, "HTTP/3"), (3, "HTTP/1.0"), (2, "HTTP/2")]
ODD_VERSIONS = [(1, "http/2.0"), (1, "HTTP/0.9"), (1, ""), (1, "HTTP/2"), (1, "HTTP/1.0")]


def _compress(ce: str, data: bytes) -> bytes:
    if ce == "gzip":
        co = zlib.compressobj(6, zlib.DEFLATED, 31)
        return co.compress(data) + co.flush()
    if ce == "deflate":
        return zlib.compress(data)
    if ce == "br":
        import brotli
        return brotli.compress(data)
    if ce == "zstd":
        try:
            from compression import zstd
        except ImportError:
            from backports import zstd
        return zstd.compress(data, level=1)
    return data


def _gen_body(rng, mutated):
    r = rng.random()
    if r < 0.40:
        return rng.choice(TEXTS + ODD_TEXTS if mutated else TEXTS)
    if r < 0.50:
        return b"".join(rng.choice(TEXTS + ODD_TEXTS if mutated else TEXTS) for _ in range(rng.randint(2, 4)))[:160]
    if r < 0.57:
        # around the is_mostly_bin cut: 99..104 bytes with a multi-byte character straddling offset 100
        n = rng.randint(96, 101)
        tail = rng.choice([b"\xe2\x82\xac", b"\xc3\xa9", b"\xf0\x9f\x98\x80", b"\xe2\x82", b"\x80\x80\x80\x80\x80", b"ab"])
        return b"a" * n + tail + b"z" * rng.randint(0, 3)
    if r < 0.80:
        # ratio around the 0.7 / 0.95 thresholds: k printable bytes, the rest low/high bytes
        n = rng.choice([10, 20, 20, 40, 40, 100])
        k = rng.choice([n * 7 // 10 - 1, n * 7 // 10, n * 7 // 10 + 1, n * 19 // 20 - 1, n * 19 // 20, n * 19 // 20 + 1, n // 2, 0])
        k = max(0, min(n, k))
        filler = rng.choice([b"\x00", b"\xc3\xa9", b"\xff", b"\x01", b"\xe9", b"\x0b", b"\x7f"])
        return b"a" * k + (filler * n)[: n - k]
    return rng.bytes(rng.randint(1, 60))


def _gen_headers(rng, plain, body, mutated, is_resp):
    hs = []
    for _ in range(rng.randint(0, 3)):
        hs.append(rng.choice(plain))
    if rng.chance(0.7):
        cts = CT_TEXT + (CT_ODD if mutated else []) + (CT_CODEC if mutated and rng.chance(0.15) else [])
        hs.append((rng.choice([b"Content-Type", b"content-type", b"CONTENT-TYPE"]), rng.choice(cts)))
        if mutated and rng.chance(0.08):
            hs.append((b"content-type", rng.choice(cts)))
    raw = body
    if body is not None and rng.chance((0.12 if is_resp else 0.03) + (0.10 if mutated else 0)):
        ce = rng.weighted([(30, "gzip"), (12, "deflate"), (10, "br"), (10, "zstd"), (8, "identity")] +
                          ([(10, "foo"), (4, "GZIP"), (3, "gzip, br"), (3, ""), (2, "utf8"), (2, "none"), (10, "corrupt")] if mutated else []))
        if ce == "corrupt":
            hs.append((b"Content-Encoding", rng.choice([b"gzip", b"br", b"deflate", b"zstd"])))
        else:
            hs.append((rng.choice([b"Content-Encoding", b"content-encoding"]), ce.encode()))
            raw = _compress(ce.lower(), body)
    if raw is not None:
        r = rng.random()
        if r < 0.84:
            hs.append((rng.choice([b"Content-Length", b"content-length"]), str(len(raw)).encode()))
        elif r < 0.92:
            hs.append((b"Transfer-Encoding", b"chunked"))
        elif mutated and r < 0.96:
            hs.append((b"Content-Length", rng.choice([b"0", b"5", b"007", str(len(raw) + 1).encode(), b"x"])))
        elif mutated and r < 0.98:
            hs.append((b"Content-Length", str(len(raw)).encode()))
            hs.append((b"content-length", str(len(raw)).encode()))
    if mutated and rng.chance(0.10):
        hs.append(rng.choice(BAD_H))
    if mutated and rng.chance(0.06):
        hs.append((rng.bytes(rng.randint(1, 6)), rng.bytes(rng.randint(0, 8))))
    if len(hs) > 1 and rng.chance(0.3):
        rng.shuffle(hs)
    return hs, raw


def _gen_flow(rng, mutated):
    method = rng.weighted(METHODS + (ODD_METHODS if mutated else []))
    ver = rng.weighted(VERSIONS + (ODD_VERSIONS if mutated else []))
    scheme = rng.choice(["http", "https", "https"])
    host = rng.choice(HOSTS + ODD_HOSTS if mutated and rng.chance(0.4) else HOSTS)
    dport = 443 if scheme == "https" else 80
    port = dport if rng.chance(0.75) else rng.choice([8080, 8443, 80, 443, 1, 65535])
    path = rng.choice(PATHS)
    if mutated and rng.chance(0.25):
        path = rng.choice(BAD_PATHS + [b"/" + rng.bytes(rng.randint(1, 5))])
    if method == "OPTIONS*":
        method, path = "OPTIONS", b"*"
    body = None
    if method in POSTLIKE or method == "post" or rng.chance(0.10):
        body = _gen_body(rng, mutated)
    elif rng.chance(0.9):
        body = b""
    if method in POSTLIKE and mutated and rng.chance(0.06):
        body = None
    rh, rraw = _gen_headers(rng, PLAIN_H, body, mutated, False)
    auth = b""
    hp = host.encode() if port == dport else f"{host}:{port}".encode()
    if ver in ("HTTP/2.0", "HTTP/3"):
        r = rng.random()
        auth = hp if r < 0.85 else (b"" if r < 0.93 else (host + ":" + str(port)).encode())
        if rng.chance(0.15):
            rh.insert(0, (b"host", hp))
    else:
        r = rng.random()
        if r < 0.84:
            rh.insert(0, (rng.choice([b"Host", b"Host", b"host"]), hp))
        elif r < 0.90:
            rh.insert(0, (b"Host", (host + ":" + str(port)).encode()))
        elif r < 0.95 and mutated:
            rh.insert(0, (b"host", rng.choice([b"other.example", b"EXAMPLE.com", b"other.example:8080", b"[::1]:80", b"", b"xn--bcher-kva.example"])))
        elif r < 0.98 and mutated:
            rh.insert(0, (b"Host", hp))
            rh.append((b"host", hp))
    if rng.chance(0.18):
        # Host / :authority that DISAGREES with the connection's host and port (reverse, transparent, port-forwarding setups)
        rh = [x for x in rh if x[0].lower() != b"host"]
        auth = b""
        kind = rng.below(8)
        if kind == 0:                                   # Host without port, upstream on a non-default port
            port = rng.choice([8080, 8443, 3000, 80 if scheme == "https" else 443])
            hh = host.encode()
        elif kind == 1:                                 # Host with a port different from the upstream port
            hh = (host + ":" + str(rng.choice([p for p in (8080, 8443, 81, 444) if p != port]))).encode()
        elif kind == 2:                                 # different host, no port
            hh = b"shop.example"
            port = rng.choice([port, 8080])
        elif kind == 3:                                 # different host and port
            hh = b"shop.example:" + str(rng.choice([8080, 9443, dport])).encode()
        elif kind == 4:                                 # IPv6 literal in the header
            hh = rng.choice([b"[::1]", b"[::1]:8080", b"[2001:db8::1]", b"[2001:db8::1]:" + str(dport).encode()])
        elif kind == 5:                                 # IPv6 literal as connection host, name in the header
            host = rng.choice(["::1", "2001:db8::1"])
            hh = rng.choice([b"v6.example", b"v6.example:8080"])
        elif kind == 6:                                 # IPv6 connection host, no header at all
            host = "::1"
            port = rng.choice([dport, 8080])
            hh = None
        else:                                           # no header, non-default port
            port = rng.choice([8080, 8443])
            hh = None
        if hh is not None:
            if ver in ("HTTP/2.0", "HTTP/3") and rng.chance(0.8):
                auth = hh
            else:
                rh.insert(0, (rng.choice([b"Host", b"host"]), hh))
    if method == "CONNECT":
        path = b""
        auth = (host + ":" + str(port)).encode()
    f = {"t": "http", "method": method, "scheme": scheme, "host": host, "port": port, "path": hx(path), "ver": ver,
         "auth": hx(auth), "rh": [[hx(k), hx(v)] for k, v in rh], "rb": None if rraw is None else hx(rraw), "resp": None}
    if rng.chance(0.95):
        sbody = _gen_body(rng, mutated)
        if rng.chance(0.02):
            sbody = None
        sh, sraw = _gen_headers(rng, PLAIN_SH, sbody, mutated, True)
        sver = ver if rng.chance(0.93) else rng.weighted(VERSIONS)
        f["resp"] = {"status": rng.choice(STATUS), "ver": sver, "h": [[hx(k), hx(v)] for k, v in sh],
                     "b": None if sraw is None else hx(sraw)}
    return f


def gen(rng, n, tier):
    out = []
    for _ in range(n):
        mutated = rng.chance(0.30)
        k = rng.weighted([(55, 1), (28, 2), (12, 3), (5, 4)])
        flows = [_gen_flow(rng, mutated and (i == k - 1 or rng.chance(0.3))) for i in range(k)]
        if rng.chance(0.08):
            flows.insert(rng.randint(0, len(flows)), {"t": "tcp"})
        # creation times: distinct; the list is the order in which the flows are handed to the exporter (completion order for
        # hardump, any order for save.har), which for 85% of the multi-flow cases is not the order of creation
        m = len(flows)
        tcs = []
        while len(tcs) < m:
            t = rng.randint(1, 5000)
            if t not in tcs:
                tcs.append(t)
        tcs.sort()
        if m > 1 and rng.chance(0.85):
            perm = list(tcs)
            while perm == tcs:
                rng.shuffle(perm)
            tcs = perm
        for f, t in zip(flows, tcs):
            f["tc"] = 1000.0 + t / 4.0
            f["dur"] = rng.choice([0.5, 2.0, 30.0, 900.0])
        out.append({"flows": flows})
    return out


# ------------------------------------------------------------------------------------------------ implementation runner
_REC = None          # list the wrappers append to while recording
_PROBE = {}


def _se(s: str) -> bytes:
    return s.encode("utf-8", "surrogateescape")


def _cps(s: str):
    return [ord(c) for c in s]


def _val(v):
    if isinstance(v, bytes):
        return ["b", hx(v)]
    if isinstance(v, str):
        return ["s", _cps(v)]
    return ["o", type(v).__name__]


def _call(f, *a):
    try:
        return ["ok", f(*a)]
    except ValueError:
        return ["V"]
    except Exception:
        return ["O"]


def setup_impl():
    global http, connection, tcp, SaveHar, FlowReader, exceptions, enc_mod, urlmod, hdrmod, har_mod, base64, savehar_mod
    import base64
    from mitmproxy import http, connection, tcp, exceptions
    from mitmproxy.addons import savehar as savehar_mod
    from mitmproxy.addons.savehar import SaveHar
    from mitmproxy.io import FlowReader
    from mitmproxy.io import har as har_mod
    from mitmproxy.net import encoding as enc_mod
    from mitmproxy.net.http import url as urlmod
    from mitmproxy.net.http import headers as hdrmod
    import logging
    logging.disable(logging.CRITICAL)

    real_dec, real_enc, real_infer = enc_mod.decode, enc_mod.encode, hdrmod.infer_content_encoding
    real_b64e, real_b64d = base64.b64encode, base64.b64decode

    def rec(kind, args, thunk):
        try:
            r = thunk()
        except ValueError:
            if _REC is not None:
                _REC.append((kind, args, ["V"]))
            raise
        except Exception:
            if _REC is not None:
                _REC.append((kind, args, ["O"]))
            raise
        if _REC is not None:
            _REC.append((kind, args, ["ok", r]))
        return r

    def w_dec(encoded, encoding, errors="strict"):
        if encoded is None:
            return real_dec(encoded, encoding, errors)
        return rec("dec", (encoded, encoding), lambda: real_dec(encoded, encoding, errors))

    def w_enc(decoded, encoding, errors="strict"):
        if decoded is None:
            return real_enc(decoded, encoding, errors)
        return rec("enc", (decoded, encoding), lambda: real_enc(decoded, encoding, errors))

    def w_infer(content_type, content=b""):
        return rec("infer", (content_type, content), lambda: real_infer(content_type, content))

    class B64:
        """stands in for the base64 module inside savehar.py / har.py only"""
        @staticmethod
        def b64encode(b):
            return rec("b64e", (b,), lambda: real_b64e(b))

        @staticmethod
        def b64decode(s):
            return rec("b64d", (s,), lambda: real_b64d(s))

    real_pa, real_unparse = urlmod.parse_authority, urlmod.unparse

    def w_pa(authority, check):
        return rec("pauth", (authority, check), lambda: real_pa(authority, check))

    def w_unparse(scheme, host, port, path):
        return rec("unparse", (scheme, host, port, path), lambda: real_unparse(scheme, host, port, path))

    urlmod.parse_authority, urlmod.unparse = w_pa, w_unparse
    enc_mod.decode, enc_mod.encode = w_dec, w_enc
    http.infer_content_encoding = w_infer
    har_mod.infer_content_encoding = w_infer
    savehar_mod.base64 = B64
    har_mod.base64 = B64
    # does fix_headers accept surrogate-escaped (non-UTF-8) header strings?  (fixes/C41-header-surrogateescape.diff)
    try:
        har_mod.fix_headers([{"name": "x", "value": "\udcff"}])
        _PROBE["hdr_se"] = True
    except UnicodeEncodeError:
        _PROBE["hdr_se"] = False


def _build(f, idx=0):
    # creation / start times come from the case: distinct and in general NOT in list order (an earlier-started slow
    # request that completes after a later one is handed to the exporter after it); old corpus cases default to list order
    tc = float(f.get("tc", 1000.0 + 10 * idx))
    dur = float(f.get("dur", 2.0))
    if f["t"] != "http":
        fl = tcp.TCPFlow(connection.Client(peername=("127.0.0.1", 1), sockname=("127.0.0.1", 2), timestamp_start=tc),
                         connection.Server(address=("example.com", 1)))
        fl.timestamp_created = tc
        return fl
    req = http.Request(f["host"], f["port"], f["method"].encode(), f["scheme"].encode(), unhx(f["auth"]), unhx(f["path"]),
                       f["ver"].encode(), http.Headers([(unhx(k), unhx(v)) for k, v in f["rh"]]),
                       None if f["rb"] is None else unhx(f["rb"]), None, tc, tc + 0.25)
    fl = http.HTTPFlow(connection.Client(peername=("127.0.0.1", 1), sockname=("127.0.0.1", 2), timestamp_start=tc),
                       connection.Server(address=(f["host"], f["port"])))
    fl.timestamp_created = tc
    fl.request = req
    r = f["resp"]
    if r is not None:
        fl.response = http.Response(r["ver"].encode(), r["status"], b"", http.Headers([(unhx(k), unhx(v)) for k, v in r["h"]]),
                                    None if r["b"] is None else unhx(r["b"]), None, tc + dur, tc + dur + 0.25)
    return fl


def _hl(headers):
    return [[hx(k), hx(v)] for k, v in headers.fields]


def _oh(b):
    return None if b is None else hx(b)


def _prop_fields(fl):
    """the fields the property talks about, read from a real flow object (used by the oracle only)"""
    d = {"ts": fl.request.timestamp_start,
         "method": fl.request.method, "url": _cps(fl.request.pretty_url), "ver": fl.request.http_version,
         "rh": _hl(fl.request.headers), "rbody": _oh(fl.request.get_content(strict=False)), "resp": None}
    if fl.response is not None:
        d["resp"] = {"status": fl.response.status_code, "ver": fl.response.http_version, "h": _hl(fl.response.headers),
                     "body": _oh(fl.response.get_content(strict=False)), "sniffed": _sniffed(fl.response)}
    d["rsniffed"] = _sniffed(fl.request)
    try:
        urlmod.parse(fl.request.pretty_url)
        d["url_rejected"] = False
    except ValueError:
        d["url_rejected"] = True
    d["codec_charset"] = any(_codec_charset(m) for m in (fl.request, fl.response) if m is not None)
    return d


def _sniffed(m):
    """does the charset the exporter decodes with depend on the body (BOM, meta/xml/css declaration)?  implementation library only"""
    ct = m.headers.get("content-type", "")
    c = m.get_content(strict=False)
    return c is not None and hdrmod.infer_content_encoding(ct, c) != hdrmod.infer_content_encoding(ct)


def _codec_charset(m):
    import codecs
    p = hdrmod.parse_content_type(m.headers.get("content-type", ""))
    cs = p[2].get("charset") if p else None
    if not cs:
        return False
    try:
        return not codecs.lookup(cs)._is_text_encoding
    except (LookupError, ValueError, TypeError):
        return False


def _jh(lst):
    return [[hx(_se(h["name"])), hx(_se(h["value"]))] for h in lst]


def run_impl(case):
    global _REC
    flows = [_build(f, i) for i, f in enumerate(case["flows"])]
    obs = {"hdr_se": _PROBE["hdr_se"], "export_error": None, "entries": [], "imp": [], "imp_failed": False, "imp_exc": None}
    obs["orig"] = [(_prop_fields(fl) if isinstance(fl, http.HTTPFlow) else None) for fl in flows]
    # model inputs that come from outside the anchored code: pretty_url of each request
    obs["purl"] = [(_cps(fl.request.pretty_url) if isinstance(fl, http.HTTPFlow) else None) for fl in flows]
    # sniffing facts for the oracle (implementation library, not the model)
    fd, path = tempfile.mkstemp(prefix="c41-", suffix=".har")
    os.close(fd)
    rec = []
    try:
        _REC = rec
        try:
            SaveHar().export_har(flows, path)
        except Exception as e:
            obs["export_error"] = type(e).__name__
            obs["imp_prop"] = []
            obs["tables"] = _tables(flows, obs, rec)
            return obs
        finally:
            _REC = None
        with open(path, "rb") as fo:
            data = fo.read()
        har = json.loads(data.decode("utf-8"))
        for e in har["log"]["entries"]:
            rq, rs = e["request"], e["response"]
            ent = {"method": hx(_se(rq["method"])), "url": _cps(rq["url"]), "rver": hx(_se(rq["httpVersion"])), "rh": _jh(rq["headers"]),
                   "post": None, "status": rs["status"], "sver": hx(_se(rs["httpVersion"])), "sh": _jh(rs["headers"]),
                   "ctext": None, "enc": None, "b64": rs["content"].get("encoding") == "base64"}
            if rs["content"].get("encoding") is not None:
                ent["enc"] = hx(_se(rs["content"]["encoding"]))
            if "postData" in rq:
                t = rq["postData"]["text"]
                ent["post"] = {"text": None if t is None else _cps(t)}
            if "text" in rs["content"]:
                ent["ctext"] = _cps(rs["content"]["text"])
            obs["entries"].append(ent)
        imported = []
        _REC = rec
        try:
            with open(path, "rb") as fo:
                for fl in FlowReader(fo).stream():
                    imported.append(fl)
        except exceptions.FlowReadException as e:
            obs["imp_failed"] = True
            obs["imp_exc"] = type(e.__context__).__name__ if e.__context__ is not None else None
        finally:
            _REC = None
    finally:
        _REC = None
        if os.path.exists(path):
            os.unlink(path)
    for fl in imported:
        obs["imp"].append({"method": hx(fl.request.data.method), "url": _cps(_url_of(fl.request)), "ver": hx(fl.request.data.http_version),
                           "rh": _hl(fl.request.headers), "rb": _oh(fl.request.raw_content),
                           "status": fl.response.status_code, "sver": hx(fl.response.data.http_version),
                           "sh": _hl(fl.response.headers), "sb": _oh(fl.response.raw_content)})
    obs["imp_prop"] = [_prop_fields(fl) for fl in imported]
    obs["tables"] = _tables(flows, obs, rec)
    return obs


def _cut_candidates(b: bytes):
    if len(b) <= 100:
        return [b]
    return [b[:k] for k in range(100, min(104, len(b)) + 1)]


def _tables(flows, obs, rec):
    """results of the abstract codec library on every argument the run used (recorded) plus the unpatchable builtins
    (bytes.decode / str.encode with utf-8) evaluated on every byte string / text that occurs in the run"""
    t = {"dec": [], "enc": [], "infer": [], "b64e": [], "b64d": [], "utf8": [], "decse": [], "encse": [], "url": [], "ctfix": [],
         "auth": [], "pauth": [], "unparse": []}
    seen = set()
    blobs, texts, cts, hdrs = set(), set(), set(), set()

    def put(tab, key, item):
        k = (tab, json.dumps(key))
        if k not in seen:
            seen.add(k)
            t[tab].append(item)

    for kind, args, res in rec:
        r = res if res[0] != "ok" else ["ok", _val(res[1])]
        if kind in ("dec", "enc"):
            a0 = _val(args[0])
            put(kind, [a0, args[1]], [a0, hx(_se(args[1])), r])
            for v in (args[0], res[1] if res[0] == "ok" else None):
                if isinstance(v, bytes):
                    blobs.add(v)
                elif isinstance(v, str):
                    texts.add(v)
        elif kind == "infer":
            put("infer", [args[0], hx(args[1])], [hx(_se(args[0])), hx(args[1]), hx(_se(res[1])) if res[0] == "ok" else None])
            blobs.add(args[1])
        elif kind == "b64e":
            rr = ["ok", ["s", _cps(res[1].decode())]] if res[0] == "ok" else res
            put("b64e", hx(args[0]), [hx(args[0]), rr])
            blobs.add(args[0])
        elif kind == "b64d":
            put("b64d", _cps(args[0]), [_cps(args[0]), r])
        elif kind == "pauth" and res[0] == "ok" and isinstance(args[0], str) and args[1] is False:
            put("pauth", args[0], [hx(_se(args[0])), hx(_se(res[1][0])), res[1][1]])
        elif kind == "unparse" and res[0] == "ok" and all(isinstance(a, str) for a in (args[0], args[1], args[3])):
            put("unparse", list(args), [hx(_se(args[0])), hx(_se(args[1])), args[2], hx(_se(args[3])), _cps(res[1])])
    for fl in flows:
        if isinstance(fl, http.HTTPFlow):
            for m in (fl.request, fl.response):
                if m is not None:
                    if m.raw_content is not None:
                        blobs.add(m.raw_content)
                    cts.add(m.headers.get("content-type", ""))
            a = _se(fl.request.authority)
            put("auth", hx(fl.request.data.authority), [hx(fl.request.data.authority), hx(a)])
            blobs.add(a)
    for e in obs["entries"]:
        for lst in (e["rh"], e["sh"]):
            for k, v in lst:
                hdrs.add(unhx(k)); hdrs.add(unhx(v))
        if e["post"] is not None and e["post"]["text"] is not None:
            texts.add("".join(map(chr, e["post"]["text"])))
        if e["ctext"] is not None:
            texts.add("".join(map(chr, e["ctext"])))
        u = "".join(map(chr, e["url"]))
        r = _call(_url_set, u)
        put("url", e["url"], [e["url"], r])
    for b in sorted(hdrs - blobs):
        put("utf8", hx(b), [hx(b), _valid_utf8(b)])
    for b in sorted(blobs):
        for c in _cut_candidates(b):
            try:
                c.decode()
                ok = True
            except ValueError:
                ok = False
            put("utf8", hx(c), [hx(c), ok])
        put("decse", hx(b), [hx(b), _cps(b.decode("utf8", "surrogateescape"))])
    for s in sorted(texts):
        r = _call(lambda: ["b", hx(s.encode("utf-8", errors="surrogateescape"))])
        put("encse", _cps(s), [_cps(s), r])
    for ct in sorted(cts):
        p = hdrmod.parse_content_type(ct) or ("text", "plain", {})
        p[2]["charset"] = "utf-8"
        put("ctfix", ct, [hx(_se(ct)), hx(_se(hdrmod.assemble_content_type(*p)))])
    return t


def _url_set(u):
    r = http.Request.make("GET", u)
    return [hx(_se(urlmod.hostport(r.scheme, r.host, r.port))), _cps(_url_of(r))]


def _url_of(r):
    """scheme://host[:port]path from the four components the URL setter assigned (Request.url would print host:port for CONNECT)"""
    return urlmod.unparse(r.scheme, r.host, r.port, r.path)


# ------------------------------------------------------------------------------------------------ Coq terms
class _Pool:
    """byte strings / texts longer than a few elements are printed once per case as let-bound variables (coqc spends
    most of its time elaborating list literals; a body otherwise occurs ~10 times in one case)"""

    def __init__(self):
        self.b, self.s, self.defs = {}, {}, []

    def B(self, b: bytes) -> str:
        if len(b) <= 4:
            return cbytes(b)
        if b not in self.b:
            # a prefix of an already bound string (is_mostly_bin cut candidates) is printed as firstn
            for other, name in list(self.b.items()):
                if len(other) > len(b) >= 90 and other.startswith(b):
                    self.b[b] = f"(firstn {len(b)} {name})"
                    break
            else:
                name = f"b{len(self.b)}"
                self.b[b] = name
                self.defs.append(f"let {name} : bytes := {cbytes(b)} in")
        return self.b[b]

    def S(self, cps) -> str:
        cps = tuple(cps)
        if len(cps) <= 3:
            return clist((cN(c) for c in cps), "N")
        if cps not in self.s:
            name = f"s{len(self.s)}"
            self.s[cps] = name
            self.defs.append(f"let {name} : str := {clist((cN(c) for c in cps), 'N')} in")
        return self.s[cps]

    def wrap(self, term: str) -> str:
        return "(" + "\n ".join(self.defs) + "\n " + term + ")"


def _cres(r, f):
    if r[0] == "ok":
        x = f(r[1])
        return None if x is None else f"(Ok {x})"
    return "EValue" if r[0] == "V" else "EOther"


def coq_case(case, obs):
    P = _Pool()
    B = lambda h: P.B(unhx(h))
    S = P.S
    t = obs["tables"]
    # bind the long raw bodies first so that cut candidates can refer to them
    for f in case["flows"]:
        if f["t"] == "http":
            for h in (f["rb"], f["resp"]["b"] if f["resp"] else None):
                if h:
                    B(h)
    for x in sorted(t["utf8"], key=lambda x: -len(x[0])):
        B(x[0])

    def fields(lst):
        return clist((cpair(B(k), B(v)) for k, v in lst), "(bytes * bytes)")

    def ob(h):
        return "(@None bytes)" if h is None else f"(Some {B(h)})"

    def val(v):
        if v[0] == "b":
            return f"(VB {B(v[1])})"
        if v[0] == "s":
            return f"(VS {S(v[1])})"
        return None

    parts = []

    def tab(name, items, ty):
        if any(i is None for i in items):
            raise ValueError("unrepresentable table entry in " + name)
        parts.append(clist(items, ty))

    def de(x):
        a, e, r = x
        rv, av = _cres(r, val), val(a)
        return None if rv is None or av is None else f"({av}, {B(e)}, {rv})"
    tab("dec", [de(x) for x in t["dec"]], "(val * bytes * res val)")
    tab("enc", [de(x) for x in t["enc"]], "(val * bytes * res val)")
    tab("infer", [None if x[2] is None else f"({B(x[0])}, {B(x[1])}, {B(x[2])})" for x in t["infer"]], "(bytes * bytes * bytes)")
    tab("b64e", [f"({B(x[0])}, {_cres(x[1], val)})" for x in t["b64e"]], "(bytes * res val)")
    tab("b64d", [f"({S(x[0])}, {_cres(x[1], val)})" for x in t["b64d"]], "(str * res val)")
    tab("utf8", [f"({B(x[0])}, {cbool(x[1])})" for x in t["utf8"]], "(bytes * bool)")
    tab("decse", [f"({B(x[0])}, {S(x[1])})" for x in t["decse"]], "(bytes * str)")
    tab("encse", [f"({S(x[0])}, {_cres(x[1], val)})" for x in t["encse"]], "(str * res val)")
    tab("url", [f"({S(x[0])}, {_cres(x[1], lambda p: cpair(B(p[0]), S(p[1])))})" for x in t["url"]], "(str * res (bytes * str))")
    tab("ctfix", [f"({B(x[0])}, {B(x[1])})" for x in t["ctfix"]], "(bytes * bytes)")
    tab("auth", [f"({B(x[0])}, {B(x[1])})" for x in t["auth"]], "(bytes * bytes)")
    tab("pauth", [f"({B(x[0])}, ({B(x[1])}, {'(@None N)' if x[2] is None else '(Some ' + cN(x[2]) + ')'}))" for x in t["pauth"]],
        "(bytes * (bytes * option N))")
    tab("unparse", [f"({B(x[0])}, {B(x[1])}, {cN(x[2])}, {B(x[3])}, {S(x[4])})" for x in t["unparse"]], "(bytes * bytes * N * bytes * str)")
    tables = "(mkTables " + " ".join(parts) + ")"

    flows = []
    for f, pu in zip(case["flows"], obs["purl"]):
        if f["t"] != "http":
            flows.append("OtherFlow")
            continue
        r = f["resp"]
        resp = "(@None response)" if r is None else \
            f"(Some (mkResponse {cN(r['status'])} {P.B(r['ver'].encode())} {fields(r['h'])} {ob(r['b'])}))"
        flows.append(f"(HttpFlow (mkRequest {P.B(f['method'].encode())} {P.B(f['scheme'].encode())} {P.B(f['host'].encode())} "
                     f"{cN(f['port'])} {B(f['path'])} {B(f['auth'])} {P.B(f['ver'].encode())} "
                     f"{fields(f['rh'])} {ob(f['rb'])}) {resp})")
    if obs["export_error"] is not None:
        return P.wrap(f"ExportCrash {tables} {clist(flows, 'flow')}")
    ents = []
    for e in obs["entries"]:
        post = "(@None (option str))" if e["post"] is None else \
            ("(Some (@None str))" if e["post"]["text"] is None else f"(Some (Some {S(e['post']['text'])}))")
        ctext = "(@None str)" if e["ctext"] is None else f"(Some {S(e['ctext'])})"
        ents.append(f"(mkEntry {B(e['method'])} {S(e['url'])} {B(e['rver'])} {fields(e['rh'])} {post} "
                    f"{cN(e['status'])} {B(e['sver'])} {fields(e['sh'])} {ctext} {ob(e['enc'])})")
    imps = []
    for i in obs["imp"]:
        imps.append(f"(mkIflow {B(i['method'])} {S(i['url'])} {B(i['ver'])} {fields(i['rh'])} {ob(i['rb'])} "
                    f"{cN(i['status'])} {B(i['sver'])} {fields(i['sh'])} {ob(i['sb'])})")
    return P.wrap(f"Case {cbool(obs['hdr_se'])} {tables} {clist(flows, 'flow')} {clist(ents, 'entry')} "
                  f"{clist(imps, 'iflow')} {cbool(obs['imp_failed'])}")


# ------------------------------------------------------------------------------------------------ oracle
def _valid_utf8(b: bytes) -> bool:
    try:
        b.decode("utf-8")
        return True
    except UnicodeDecodeError:
        return False


_SIMPLE_AUTH = re.compile(r"^([A-Za-z0-9.-]+|\[[0-9A-Fa-f:]+\])(?::([1-9][0-9]{0,4}))?$")


def _ref_pretty_url(f):
    """reference, from the case alone: the URL the client asked for.  Host and port come from the Host header (HTTP/2, HTTP/3:
    :authority, else Host), a header without port meaning the scheme's default port; without such a header they are the
    connection's.  None when the header is not a plain name/IPv4/bracketed IPv6 with optional port (left to the correspondence)."""
    if f["method"].upper() == "CONNECT":
        return None
    hosts = [unhx(v) for k, v in f["rh"] if unhx(k).lower() == b"host"]
    if len(hosts) > 1:
        return None
    hh = hosts[0] if hosts else b""
    if f["ver"] in ("HTTP/2.0", "HTTP/3") and f["auth"]:
        hh = unhx(f["auth"])
    dflt = {"http": 80, "https": 443}[f["scheme"]]
    try:
        path = unhx(f["path"]).decode("ascii")
    except UnicodeDecodeError:
        return None
    if path == "*":
        path = ""
    if hh:
        m = _SIMPLE_AUTH.match(hh.decode("latin-1"))
        if not m or "xn--" in m.group(1).lower():
            return None
        host, port = m.group(1), int(m.group(2)) if m.group(2) else dflt
    else:
        host, port = f["host"], f["port"]
        if ":" in host:
            host = "[" + host + "]"
    return f"{f['scheme']}://{host}" + ("" if port == dflt else f":{port}") + path


def _ref_normalise_url(u: str) -> str:
    """independent characterisation of what re-parsing a URL (RFC 3986 split into scheme, authority, path, ;params of the last
    segment, ?query, #fragment, then re-assembly of the non-empty parts) normalises: TAB/CR/LF removed anywhere; host
    lower-cased and IDNA-decoded; a default port dropped; an empty path replaced by a slash; the delimiter of an EMPTY params,
    query or fragment part dropped.  Nothing else may change."""
    for ch in "\t\r\n":
        u = u.replace(ch, "")
    scheme, sep, rest = u.partition("://")
    cut = len(rest)
    for ch in "/?#":
        k = rest.find(ch)
        if k != -1:
            cut = min(cut, k)
    auth, tail = rest[:cut], rest[cut:]
    if auth.startswith("["):
        close = auth.find("]")
        host, portpart = auth[:close + 1], auth[close + 1:]
    else:
        host, c, p = auth.partition(":")
        portpart = c + p
    host = host.lower()
    try:
        host = host.encode("ascii").decode("idna")
    except ValueError:
        pass
    if portpart[1:].isdigit() and int(portpart[1:]) == {"http": 80, "https": 443}.get(scheme.lower()):
        portpart = ""
    before_frag, _, frag = tail.partition("#")
    path, _, query = before_frag.partition("?")
    k = path.find(";", path.rfind("/") + 1)
    params = ""
    if k != -1:
        path, params = path[:k], path[k + 1:]
    if not path.startswith("/"):
        path = "/" + path
    return (scheme + sep + host + portpart + path + (";" + params if params else "") + ("?" + query if query else "")
            + ("#" + frag if frag else ""))


def _lower(h):
    return bytes.fromhex(h).lower()


def _no_cl(hs):
    return [[k, v] for k, v in hs if _lower(k) != b"content-length"]


def _hdr_causes(before, after, is_req):
    """names (lower-case) whose field sub-list changed between two header lists, or ['*order*'] if only the order of
    different names changed"""
    names = []
    for k, _ in before + after:
        n = _lower(k)
        if n not in names:
            names.append(n)
    changed = [n for n in names if [f for f in before if _lower(f[0]) == n] != [f for f in after if _lower(f[0]) == n]]
    if not changed and before != after:
        return [b"*order*"]
    return changed


def oracle(case, obs):
    """The property on the implementation: every HTTP flow of the exported list comes back, in order, with the same method,
    URL (pretty_url), HTTP version, request headers (Content-Length aside), request body for POST/PUT/PATCH, status code,
    response headers and decoded response body."""
    v = []

    def add(key, what):
        if not any(x["key"] == key for x in v):
            v.append({"key": key, "what": what})
    if obs["export_error"] is not None:
        if any(o is not None and o["codec_charset"] for o in obs["orig"]):
            add("non-text-charset-export-raises", f"export_har raised {obs['export_error']}: a Content-Type charset names a Python codec "
                                                  "that is not a text encoding (hex, rot13, base64, ...)")
        else:
            add("unexpected-export-raises", f"export_har raised {obs['export_error']}")
        return v
    origs = [(f, o) for f, o in zip(case["flows"], obs["orig"]) if o is not None]
    imps = obs["imp_prop"]
    # "in the same order": every flow carries its own start time (distinct within a case, startedDateTime in the file), so
    # position i of the import must show the start time of exported flow i -- whatever the other fields look like
    want = [o["ts"] for _, o in origs][:len(imps)]
    got = [i["ts"] for i in imps]
    if any(abs(a - b) > 1e-3 for a, b in zip(want, got)):
        add("unexpected-order-changed", f"flows handed to the exporter started at {[o['ts'] for _, o in origs]}, "
                                        f"the imported flows (same positions) started at {got}")
        return v
    if len(imps) > len(origs):
        add("unexpected-extra-flow", f"{len(imps)} flows imported from {len(origs)} exported")
    for idx, (f, o) in enumerate(origs):
        meth = o["method"]          # Request.method, i.e. upper-cased
        if idx >= len(imps):
            if not obs["imp_failed"]:
                add("unexpected-flow-missing", f"flow {idx} missing after import without an error")
                break
            # the reader stopped at this entry: attribute the failure to a property of the ORIGINAL flow
            rh = [(unhx(k), unhx(x)) for k, x in f["rh"]]
            sh = [(unhx(k), unhx(x)) for k, x in (f["resp"]["h"] if f["resp"] else [])]
            what = f"FlowReader raised FlowReadException ({obs['imp_exc']}) at entry {idx}; "
            if not obs["hdr_se"] and any(not _valid_utf8(k) or not _valid_utf8(x) for k, x in rh + sh):
                add("non-utf8-header-import-fails", what + "a header name/value is not valid UTF-8")
            elif o["url_rejected"]:
                add("url-rejected-import-fails", what + f"Request.make rejects the exported URL {''.join(map(chr, o['url']))!r}")
            elif meth in POSTLIKE and f["rb"] is None:
                add("missing-request-body-import-fails", what + f"{f['method']} request without captured body exports postData.text = null")
            elif any(k.lower() == b"content-encoding" and x.lower() not in KNOWN_CE for k, x in sh):
                add("unknown-content-encoding-import-fails", what + "the response has a Content-Encoding mitmproxy cannot encode")
            elif o["codec_charset"]:
                add("non-text-charset-import-fails", what + "a Content-Type charset names a Python codec that is not a text encoding")
            elif any(k.lower() == b"content-encoding" and x.lower() not in KNOWN_CE for k, x in rh):
                add("unknown-request-content-encoding-import-fails", what + "the request has a Content-Encoding mitmproxy cannot encode")
            else:
                add("unexpected-import-failure", what + json.dumps(f)[:300])
            break
        i = imps[idx]
        tag = f"flow {idx} ({f['method']} {f['ver']}): "
        ref = _ref_pretty_url(f)
        exported = "".join(map(chr, obs["entries"][idx]["url"]))
        if ref is not None and exported != ref:
            add("unexpected-exported-url", tag + f"exported url {exported!r}, but the request's URL as seen by the client (scheme, host and "
                                                 f"port of the Host/:authority header, else of the connection) is {ref!r}")
        if i["method"] != o["method"]:
            add("unexpected-method", tag + f"method {o['method']!r} -> {i['method']!r}")
        if i["url"] != o["url"]:
            ou, iu = "".join(map(chr, o["url"])), "".join(map(chr, i["url"]))
            if meth == "CONNECT":
                add("connect-url-changed", tag + f"url {ou!r} -> {iu!r}")
            elif _ref_normalise_url(ou) == iu:
                add("url-normalised-by-importer", tag + f"url {ou!r} -> {iu!r}")
            else:
                add("unexpected-url-changed", tag + f"url {ou!r} -> {iu!r}")
        if i["ver"] != o["ver"]:
            if o["ver"] == "HTTP/2.0":
                add("http2-imports-as-http11", tag + f"request version HTTP/2.0 -> {i['ver']}")
            elif o["ver"] in ("HTTP/1.1", "HTTP/3"):
                add("unexpected-version", tag + f"request version {o['ver']} -> {i['ver']}")
            # other spellings (HTTP/1.0, HTTP/0.9, empty) are outside the quantifier of C41
        ch = _hdr_causes(_no_cl(o["rh"]), _no_cl(i["rh"]), True)
        for n in ch:
            if n == b"host":
                add("host-header-rewritten", tag + f"Host {[x for x in o['rh'] if _lower(x[0]) == n]} -> {[x for x in i['rh'] if _lower(x[0]) == n]} (hex)")
            elif n == b"content-encoding" and not [x for x in i["rh"] if _lower(x[0]) == n]:
                add("request-content-encoding-dropped", tag + "request Content-Encoding header removed by the importer")
            elif n == b"content-type":
                add("request-content-type-rewritten", tag + "request Content-Type rewritten (charset=utf-8 forced)")
            else:
                add("unexpected-request-header-change", tag + f"header {n!r} changed")
        if meth in POSTLIKE and (o["rbody"] or "") != (i["rbody"] or ""):
            if obs["entries"][idx]["post"] is None:
                add("unexpected-request-body-dropped", tag + "the exported entry has no postData although the method is POST/PUT/PATCH")
            else:
                add("request-body-charset-sniffed" if o["rsniffed"] else "request-body-reencoded", tag + f"request body {o['rbody']} -> {i['rbody']}")
        orr, ir = o["resp"], i["resp"]
        if orr is None:
            continue
        if ir["status"] != orr["status"]:
            add("unexpected-status", tag + f"status {orr['status']} -> {ir['status']}")
        if ir["ver"] != orr["ver"]:
            if orr["ver"] == "HTTP/2.0":
                add("http2-imports-as-http11", tag + f"response version HTTP/2.0 -> {ir['ver']}")
            elif orr["ver"] in ("HTTP/1.1", "HTTP/3"):
                add("unexpected-version", tag + f"response version {orr['ver']} -> {ir['ver']}")
        for n in _hdr_causes(orr["h"], ir["h"], False):
            now = [x for x in ir["h"] if _lower(x[0]) == n]
            if n == b"content-length" and len(now) == 1 and unhx(now[0][1]) == str(len(unhx(ir["body"] or ""))).encode():
                add("response-content-length-rewritten", tag + "response Content-Length added or changed by the importer")
            elif n == b"content-encoding" and not now:
                add("response-content-encoding-dropped", tag + "response Content-Encoding header removed by the importer")
            else:
                add("unexpected-response-header-change", tag + f"header {n!r} changed")
        if (orr["body"] or "") != (ir["body"] or ""):
            ent = obs["entries"][idx]
            if ent["b64"]:
                add("unexpected-binary-body-changed", tag + f"base64 body {orr['body']} -> {ir['body']}")
            else:
                add("text-body-charset-sniffed" if orr["sniffed"] else "text-body-reencoded",
                    tag + f"response body exported as text: {orr['body']} -> {ir['body']}")
    return v


def nontrivial(case, obs):
    for f in case["flows"]:
        if f["t"] == "http" and f["resp"] is not None and (f["resp"]["b"] or len(f["rh"]) + len(f["resp"]["h"]) > 1):
            return True
    return False


def classify(case, obs):
    tags = [f"flows={len(case['flows'])}"]
    if obs["export_error"]:
        return tags + ["export-error"]
    tags.append("import-failed" if obs["imp_failed"] else "import-ok")
    for f, e in zip([f for f in case["flows"] if f["t"] == "http"], obs["entries"]):
        tags.append("m=" + f["method"])
        tags.append("v=" + f["ver"])
        tags.append("resp" if f["resp"] else "no-resp")
        if f["resp"]:
            tags.append("body=" + ("b64" if e["b64"] else ("empty" if not e["ctext"] else "text")))
            if any(_lower(k) == b"content-encoding" for k, _ in f["resp"]["h"]):
                tags.append("resp-ce")
        if e["post"] is not None:
            tags.append("postData")
    if any(f["t"] != "http" for f in case["flows"]):
        tags.append("non-http-flow")
    if not oracle(case, obs):
        tags.append("roundtrip-clean")
    return sorted(set(tags))
