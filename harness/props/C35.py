"""C35 — Header collections behave as a case-insensitive ordered multimap
(mitmproxy/coretypes/multidict.py, mitmproxy/http.py Headers, mitmproxy/net/http/http1/read.py _read_headers)."""
from lib.coqterm import cbytes, cbool, copt, clist, cpair, cN, cZ, hx, unhx

ID = "C35"
QUICK_N = 1500
THOROUGH_N = 12000
SHARD = 100
COQ_PRELUDE = "From MV Require Import Model.Headers.\n"
RULE = ("60% operation histories on two Headers objects (0-25 ops: getitem/in/setitem/del/get_all/set_all/add/insert/"
        "iter/len/==/copy; names from {A,a,B,b,Ab,aB,AB,ab} plus 15% adversarial names (empty, non-ASCII, utf-8 upper/lower, "
        "Content-Type spellings), keys passed as str or bytes, insert indices in [-len-2, len+2]); 25% field lists for the "
        "HTTP/1 round trip (70% of them valid-only, rest with colon/leading blank/CR/LF/obs-fold/whitespace tokens); 10% "
        "arbitrary line lists for _read_headers (continuations, empty lines, no colon); 5% arbitrary data for h11 line "
        "extraction. Thorough adds every history of <= 3 ops over 22 op instances from two initial states. On object 0 before the history and on "
        "the touched object after EVERY operation all read views of the real Headers class are observed and compared with the "
        "model and with the oracle: items(), keys(), values(), items/keys/values(multi=True), list(h), len, bytes(h), copy()==h, "
        "copy().fields, and get_all/[]/in for first/last/swapped-case names (str and bytes). Non-trivial = "
        "history with a mutation and a repeated case-insensitive name, or a non-empty field/line list; distinct by canonical JSON.")
TRUSTED = ["Coq 8.16.1 kernel (coqc), vm_compute for case evaluation",
           "harness/props/C35.py generator, runner and comparison glue (Corr/C35.v)",
           "hand model coq/Model/Headers.v of _MultiDict/Headers/_read_headers (tied by correspondence)",
           "hand model of h11 ReceiveBuffer.maybe_extract_lines (library, how mitmproxy cuts a head into lines; tied by correspondence only)",
           "CPython: bytes.lower/strip/split/join, tuple slicing, set/len semantics as modelled"]
ASSUMPTIONS = ["header names/values are observed as bytes; str arguments/results are converted with utf-8/surrogateescape exactly as "
               "Headers does (a bijection on bytes), so the model is stated over bytes",
               "the serialised header block is followed by the blank line (CRLF) and cut into lines by h11 as in proxy/layers/http/_http1.py"]

NAMES = [b"A", b"a", b"B", b"b", b"Ab", b"aB", b"AB", b"ab"]
ADV_NAMES = [b"", b"\xc3\x84", b"\xc3\xa4", b"\xff", b"A ", b"Content-Type", b"content-type", b"CONTENT-TYPE", b"Z", b"z", b"\xc4\xb0", b"a:"]
VALUES = [b"1", b"2", b"3", b"x", b"", b"v, w", b"\xff", b"\xc3\xa9", b"yy"]

RT_NAMES = [b"Host", b"content-type", b"Content-Type", b"X-A", b"a", b"A", b"Set-Cookie", b"x\rb", b"a\r", b"\x0bfoo", b"a ", b"\xc3\xa9"]
RT_BAD_NAMES = [b"", b" a", b"\ta", b"a:b", b":a", b"a\nb", b"a\r\nb", b"\n", b"\r\n", b" "]
RT_VALUES = [b"example.com", b"1", b"", b"a b", b"a, b", b"a\rb", b"x:y", b"a\tb", b"\xff\xfe", b"text/html; charset=utf-8"]
RT_BAD_VALUES = [b" a", b"a ", b"\ta", b"a\t", b"a\r\n b", b"a\r\n\tb", b"a\nb", b"a\n b", b"a\r", b"\r\n", b"a\r\n\r\nb", b"\x0cx", b"x\x0b",
                 b"a\r\nB: c", b"\n", b"a\n\nb", b" "]
LINES = [b"A: 1", b"a:2", b" cont", b"\tcont ", b"", b"nocolon", b": v", b"a:b:c", b"A:  v  ", b"A:", b" ", b"\t", b"B : x", b"\x0bA: 1",
         b":", b"A:\x0c1\x0b", b"\r", b"A: 1\r", b"  x  y  "]
EX_TOKENS = [b"a", b"\r\n", b"\n", b"\r", b"\r\n\r\n", b"\n\n", b"x: y", b"\n\r\n", b"\r\r\n", b" ", b"b\r"]


def _name(rng):
    return rng.choice(ADV_NAMES) if rng.chance(0.15) else rng.choice(NAMES)


def _fields(rng, lo, hi):
    return [[hx(_name(rng)), hx(rng.choice(VALUES))] for _ in range(rng.randint(lo, hi))]


def _op(rng, approx_len):
    t = 1 if rng.chance(0.25) else 0
    s = rng.chance(0.4)
    k = hx(_name(rng))
    v = hx(rng.choice(VALUES))
    kind = rng.weighted([(12, "get"), (6, "in"), (12, "set"), (10, "del"), (10, "getall"), (14, "setall"), (10, "add"),
                         (10, "ins"), (6, "iter"), (5, "len"), (4, "eq"), (5, "copy")])
    if kind in ("get", "in", "del", "getall"):
        return [kind, t, k, s]
    if kind in ("set", "add"):
        return [kind, t, k, v, s]
    if kind == "setall":
        return [kind, t, k, [hx(rng.choice(VALUES)) for _ in range(rng.weighted([(2, 0), (4, 1), (4, 2), (3, 3), (1, 5)]))], s]
    if kind == "ins":
        return [kind, t, rng.randint(-approx_len - 2, approx_len + 2), k, v, s]
    if kind in ("iter", "len", "copy"):
        return [kind, t]
    return ["eq"]


def _exhaustive():
    keys = [b"A", b"a", b"B"]
    inst = []
    for k in keys:
        kk = hx(k)
        inst += [["get", 0, kk, False], ["del", 0, kk, False], ["set", 0, kk, hx(b"9"), False], ["add", 0, kk, hx(b"8"), False]]
    inst += [["setall", 0, hx(b"a"), [], False], ["setall", 0, hx(b"a"), [hx(b"5"), hx(b"6"), hx(b"7")], False],
             ["setall", 0, hx(b"b"), [hx(b"5")], True], ["ins", 0, 1, hx(b"a"), hx(b"4"), False], ["ins", 0, -1, hx(b"B"), hx(b"4"), False],
             ["iter", 0], ["len", 0], ["eq"], ["copy", 0], ["getall", 1, hx(b"A"), False]]
    inits = [[[hx(b"A"), hx(b"1")], [hx(b"b"), hx(b"2")], [hx(b"a"), hx(b"3")]], []]
    out = []
    for i0 in inits:
        for a in [None] + inst:
            for b in [None] + inst:
                for c in [None] + inst:
                    ops = [o for o in (a, b, c) if o is not None]
                    if (a is None and (b or c)) or (b is None and c):
                        continue
                    out.append({"k": "hist", "i0": i0, "i1": [], "ops": ops})
    return out


def gen(rng, n, tier):
    out = []
    if tier == "thorough":
        out += _exhaustive()
    for _ in range(n):
        r = rng.random()
        if r < 0.60:
            i0 = _fields(rng, 0, 6)
            i1 = _fields(rng, 0, 3) if rng.chance(0.3) else []
            nops = rng.weighted([(1, 0), (6, rng.randint(1, 6)), (8, rng.randint(7, 14)), (3, rng.randint(15, 25))])
            out.append({"k": "hist", "i0": i0, "i1": i1, "ops": [_op(rng, len(i0) + 2) for _ in range(nops)]})
        elif r < 0.85:
            fs = []
            good = rng.chance(0.7)
            for _ in range(rng.weighted([(1, 0), (4, 1), (4, 2), (3, 3), (2, rng.randint(4, 8))])):
                nm = rng.choice(RT_NAMES) if good or rng.chance(0.6) else rng.choice(RT_BAD_NAMES)
                vl = rng.choice(RT_VALUES) if good or rng.chance(0.5) else rng.choice(RT_BAD_VALUES)
                fs.append([hx(nm), hx(vl)])
            out.append({"k": "rt", "fields": fs})
        elif r < 0.95:
            out.append({"k": "rd", "lines": [hx(rng.choice(LINES)) for _ in range(rng.randint(0, 6))]})
        else:
            out.append({"k": "ex", "data": hx(b"".join(rng.choice(EX_TOKENS) for _ in range(rng.randint(0, 8))))})
    return out


def setup_impl():
    global Headers, _read_headers, ReceiveBuffer
    from mitmproxy.http import Headers  # noqa
    from mitmproxy.net.http.http1.read import _read_headers  # noqa
    from h11._receivebuffer import ReceiveBuffer  # noqa


def _s(b: bytes):
    return b.decode("utf-8", "surrogateescape")


def _b(x):
    return x if isinstance(x, bytes) else x.encode("utf-8", "surrogateescape")


def _fl(h):
    return [[hx(n), hx(v)] for n, v in h.fields]


def _arg(h, s):
    b = unhx(h)
    return _s(b) if s else b


def _run_op(hs, op):
    kind = op[0]
    try:
        if kind == "get":
            return ["val", hx(_b(hs[op[1]][_arg(op[2], op[3])]))]
        if kind == "in":
            return ["bool", _arg(op[2], op[3]) in hs[op[1]]]
        if kind == "set":
            hs[op[1]][_arg(op[2], op[4])] = _arg(op[3], op[4])
            return ["none"]
        if kind == "del":
            del hs[op[1]][_arg(op[2], op[3])]
            return ["none"]
        if kind == "getall":
            return ["vals", [hx(_b(x)) for x in hs[op[1]].get_all(_arg(op[2], op[3]))]]
        if kind == "setall":
            r = hs[op[1]].set_all(_arg(op[2], op[4]), [_arg(x, op[4]) for x in op[3]])
            return ["none"] if r is None else ["other", "set_all returned a value"]
        if kind == "add":
            hs[op[1]].add(_arg(op[2], op[4]), _arg(op[3], op[4]))
            return ["none"]
        if kind == "ins":
            hs[op[1]].insert(op[2], _arg(op[3], op[5]), _arg(op[4], op[5]))
            return ["none"]
        if kind == "iter":
            return ["keys", [hx(_b(x)) for x in hs[op[1]]]]
        if kind == "len":
            return ["len", len(hs[op[1]])]
        if kind == "eq":
            return ["bool", hs[0] == hs[1]]
        if kind == "copy":
            hs[1 - op[1]] = hs[op[1]].copy()
            return ["none"]
    except KeyError:
        return ["keyerror"]
    except Exception as e:  # any other failure is its own observable value
        return ["other", type(e).__name__]
    raise AssertionError(kind)


def _target(op):
    if op[0] == "eq":
        return 0
    if op[0] == "copy":
        return 1 - op[1]
    return op[1]


def _lines(data: bytes):
    buf = ReceiveBuffer()
    buf += data
    ls = buf.maybe_extract_lines()
    return None if ls is None else [bytes(x) for x in ls]


def _rh(lines):
    try:
        return ["ok", _fl(_read_headers(lines))]
    except ValueError:
        return ["ValueError"]
    except IndexError:
        return ["IndexError"]


def _probe_names(names):
    """a few lookup names derived from the stored spellings: first, last, last with swapped case"""
    cand = ([names[0], names[-1], names[-1].swapcase()] if names else [b"A"])
    out = []
    for c in cand:
        if c not in out:
            out.append(c)
    return out


def _view(h):
    """EVERY read view of the real Headers object (each through its own public entry point)."""
    def opt(f):
        try:
            return f()
        except Exception:  # an exception escaping a read view is its own observable value
            return None
    e = lambda x: hx(_b(x))
    v = {"items": opt(lambda: [[e(k), e(x)] for k, x in h.items()]),
         "keys": opt(lambda: [e(k) for k in h.keys()]),
         "values": opt(lambda: [e(x) for x in h.values()]),
         "itm": [[e(k), e(x)] for k, x in h.items(multi=True)],
         "km": [e(k) for k in h.keys(multi=True)],
         "vm": [e(x) for x in h.values(multi=True)],
         "it": [e(k) for k in h],
         "len": len(h),
         "bytes": hx(bytes(h))}
    c = h.copy()
    v["ceq"] = bool(c == h) and bool(h == c)
    v["cf"] = _fl(c)
    probes = []
    for i, k in enumerate(_probe_names([n for n, _ in h.fields])):
        arg = _s(k) if i % 2 else k
        try:
            gi = e(h[arg])
        except KeyError:
            gi = None
        probes.append([hx(k), [e(x) for x in h.get_all(arg)], gi, arg in h])
    v["probes"] = probes
    return v


def run_impl(case):
    k = case["k"]
    if k == "hist":
        hs = [Headers([(unhx(n), unhx(v)) for n, v in case["i0"]]), Headers([(unhx(n), unhx(v)) for n, v in case["i1"]])]
        steps = []
        views = [_view(hs[0])]
        for op in case["ops"]:
            r = _run_op(hs, op)
            steps.append([r, _fl(hs[_target(op)])])
            views.append(_view(hs[_target(op)]))
        return {"steps": steps, "f0": _fl(hs[0]), "f1": _fl(hs[1]), "views": views}
    if k == "rt":
        h = Headers([(unhx(n), unhx(v)) for n, v in case["fields"]])
        b = bytes(h)
        ls = _lines(b + b"\r\n")
        return {"bytes": hx(b), "lines": None if ls is None else [hx(x) for x in ls], "parsed": None if ls is None else _rh(ls)}
    if k == "rd":
        return {"parsed": _rh([unhx(x) for x in case["lines"]])}
    ls = _lines(unhx(case["data"]))
    return {"lines": None if ls is None else [hx(x) for x in ls]}


# ------------------------------------------------------------------ Coq printing
def _cb(h):
    return cbytes(unhx(h))


def _cfields(fs):
    return clist((cpair(_cb(n), _cb(v)) for n, v in fs), "field")


def _cbl(l):
    return clist((_cb(x) for x in l), "bytes")


def _cop(op):
    k = op[0]
    t = cbool(len(op) > 1 and op[1] == 1)
    if k == "get":
        return f"OGetItem {t} {_cb(op[2])}"
    if k == "in":
        return f"OContains {t} {_cb(op[2])}"
    if k == "set":
        return f"OSetItem {t} {_cb(op[2])} {_cb(op[3])}"
    if k == "del":
        return f"ODelItem {t} {_cb(op[2])}"
    if k == "getall":
        return f"OGetAll {t} {_cb(op[2])}"
    if k == "setall":
        return f"OSetAll {t} {_cb(op[2])} {_cbl(op[3])}"
    if k == "add":
        return f"OAdd {t} {_cb(op[2])} {_cb(op[3])}"
    if k == "ins":
        return f"OInsert {t} {cZ(op[2])} {_cb(op[3])} {_cb(op[4])}"
    if k == "iter":
        return f"OIter {t}"
    if k == "len":
        return f"OLen {t}"
    if k == "eq":
        return "OEq"
    if k == "copy":
        return f"OCopy {t}"
    raise AssertionError(k)


def _cres(r):
    k = r[0]
    return {"none": lambda: "RNone", "keyerror": lambda: "RKeyError", "val": lambda: f"RVal {_cb(r[1])}",
            "vals": lambda: f"RVals {_cbl(r[1])}", "keys": lambda: f"RKeys {_cbl(r[1])}", "bool": lambda: f"RBool {cbool(r[1])}", "len": lambda: f"RLen {cN(r[1])}",
            "other": lambda: "ROther"}[k]()


def _crh(p):
    if p[0] == "ok":
        return f"(RhOk {_cfields(p[1])})"
    return "RhValueError" if p[0] == "ValueError" else "RhIndexError"


def _cview(v):
    probes = clist((f"({_cb(k)}, {_cbl(ga)}, {copt(gi, _cb, 'bytes')}, {cbool(co)})" for k, ga, gi, co in v["probes"]),
                   "(bytes * list bytes * option bytes * bool)")
    return (f"(View {copt(v['items'], _cfields, '(list field)')} {copt(v['keys'], _cbl, '(list bytes)')} "
            f"{copt(v['values'], _cbl, '(list bytes)')} {_cfields(v['itm'])} {_cbl(v['km'])} {_cbl(v['vm'])} {_cbl(v['it'])} "
            f"{cN(v['len'])} {_cb(v['bytes'])} {cbool(v['ceq'])} {_cfields(v['cf'])} {probes})")


def coq_case(case, obs):
    k = case["k"]
    if k == "hist":
        ops = clist((f"({_cop(o)})" for o in case["ops"]), "op")
        steps = clist((cpair(f"({_cres(r)})", _cfields(fs)) for r, fs in obs["steps"]), "(result * list field)")
        views = clist((_cview(v) for v in obs["views"]), "view")
        return f"Hist {_cfields(case['i0'])} {_cfields(case['i1'])} {ops} {steps} {_cfields(obs['f0'])} {_cfields(obs['f1'])} {views}"
    if k == "rt":
        return (f"Rt {_cfields(case['fields'])} {_cb(obs['bytes'])} {copt(obs['lines'], _cbl, '(list bytes)')} "
                f"{copt(obs['parsed'], _crh, 'rh_result')}")
    if k == "rd":
        return f"Rd {_cbl(case['lines'])} {_crh(obs['parsed'])}"
    return f"Ex {_cb(case['data'])} {copt(obs['lines'], _cbl, '(list bytes)')}"


# ------------------------------------------------------------------ oracle (independent reference)
class _Ref:
    """Ordered multimap with case-insensitive names, written index-based (not like the implementation)."""

    def __init__(self, fields):
        self.e = [(bytes(n), bytes(v)) for n, v in fields]

    def idx(self, k):
        c = k.lower()
        return [i for i, (n, _) in enumerate(self.e) if n.lower() == c]

    def get_all(self, k):
        return [self.e[i][1] for i in self.idx(k)]

    def set_all(self, k, vs):
        ix = self.idx(k)
        drop = set(ix[len(vs):])
        for j, i in enumerate(ix[:len(vs)]):
            self.e[i] = (self.e[i][0], vs[j])
        self.e = [f for i, f in enumerate(self.e) if i not in drop] + [(k, v) for v in vs[len(ix):]]

    def delete(self, k):
        ix = set(self.idx(k))
        if not ix:
            return False
        self.e = [f for i, f in enumerate(self.e) if i not in ix]
        return True

    def insert(self, i, k, v):
        n = len(self.e)
        if i < 0:
            i = max(0, i + n)
        i = min(i, n)
        self.e = self.e[:i] + [(k, v)] + self.e[i:]

    def first_names(self):
        out, low = [], []
        for n, _ in self.e:
            if n.lower() not in low:
                low.append(n.lower())
                out.append(n)
        return out


def _others(fs, k):
    c = k.lower()
    return [f for f in fs if f[0].lower() != c]


def _view_violation(ref, view, where):
    """every read view must show the ordered ci-multimap: names in first spelling, values folded"""
    firsts = ref.first_names()
    folded = [b", ".join(ref.get_all(n)) for n in firsts]
    h = lambda l: [hx(x) for x in l]
    exp = {"items": [[hx(n), hx(v)] for n, v in zip(firsts, folded)], "keys": h(firsts), "values": h(folded),
           "itm": [[hx(n), hx(v)] for n, v in ref.e], "km": h(n for n, _ in ref.e), "vm": h(v for _, v in ref.e),
           "it": h(firsts), "len": len(firsts), "bytes": hx(b"".join(n + b": " + v + b"\r\n" for n, v in ref.e)),
           "ceq": True, "cf": [[hx(n), hx(v)] for n, v in ref.e]}
    for key, val in exp.items():
        if view[key] != val:
            return [{"key": "view-" + key, "what": f"{where}: read view {key} is {view[key]}, ordered ci-multimap gives {val} (fields {ref.e})"}]
    for k, ga, gi, co in view["probes"]:
        vs = ref.get_all(unhx(k))
        if ga != h(vs) or gi != (hx(b", ".join(vs)) if vs else None) or co != bool(vs):
            return [{"key": "view-lookup", "what": f"{where}: lookup of {unhx(k)} gives {ga}/{gi}/{co} on fields {ref.e}"}]
    return []


def _oracle_hist(case, obs):
    refs = [_Ref([(unhx(n), unhx(v)) for n, v in case["i0"]]), _Ref([(unhx(n), unhx(v)) for n, v in case["i1"]])]
    v = _view_violation(refs[0], obs["views"][0], "initial object")
    if v:
        return v
    for step, (op, (res, fs)) in enumerate(zip(case["ops"], obs["steps"])):
        kind = op[0]
        t = op[1] if len(op) > 1 else 0
        ref = refs[t]
        before = list(ref.e)
        if kind == "get":
            vs = ref.get_all(unhx(op[2]))
            exp = ["val", hx(b", ".join(vs))] if vs else ["keyerror"]
        elif kind == "in":
            exp = ["bool", bool(ref.get_all(unhx(op[2])))]
        elif kind == "set":
            ref.set_all(unhx(op[2]), [unhx(op[3])])
            exp = ["none"]
        elif kind == "del":
            exp = ["none"] if ref.delete(unhx(op[2])) else ["keyerror"]
        elif kind == "getall":
            exp = ["vals", [hx(x) for x in ref.get_all(unhx(op[2]))]]
        elif kind == "setall":
            ref.set_all(unhx(op[2]), [unhx(x) for x in op[3]])
            exp = ["none"]
        elif kind == "add":
            ref.insert(len(ref.e), unhx(op[2]), unhx(op[3]))
            exp = ["none"]
        elif kind == "ins":
            ref.insert(op[2], unhx(op[3]), unhx(op[4]))
            exp = ["none"]
        elif kind == "iter":
            exp = ["keys", [hx(x) for x in ref.first_names()]]
        elif kind == "len":
            exp = ["len", len(ref.first_names())]
        elif kind == "eq":
            exp = ["bool", refs[0].e == refs[1].e]
        else:
            refs[1 - t] = _Ref(ref.e)
            exp = ["none"]
        if res != exp:
            return [{"key": "history-result", "what": f"step {step} {op}: implementation returned {res}, ordered ci-multimap gives {exp}"}]
        tgt = refs[_target(op)]
        got = [(unhx(n), unhx(v)) for n, v in fs]
        if got != tgt.e:
            return [{"key": "history-fields", "what": f"step {step} {op}: fields {got} expected {tgt.e}"}]
        if kind in ("set", "del", "setall") and _others(got, unhx(op[2])) != _others(before, unhx(op[2])):
            return [{"key": "untouched-fields", "what": f"step {step} {op}: untouched fields changed spelling/order"}]
        v = _view_violation(tgt, obs["views"][step + 1], f"after step {step} {op}")
        if v:
            return v
    for i, key in ((0, "f0"), (1, "f1")):
        if [(unhx(n), unhx(v)) for n, v in obs[key]] != refs[i].e:
            return [{"key": "history-final", "what": f"final fields of object {i} differ (aliasing between copies?)"}]
    return []


def _valid_field(n: bytes, v: bytes) -> bool:
    return (len(n) > 0 and n[:1] not in (b" ", b"\t") and b":" not in n and b"\n" not in n
            and b"\n" not in v and v == v.strip())


def oracle(case, obs):
    """The property itself, evaluated on the implementation's observations (never calls the model)."""
    if case["k"] == "hist":
        return _oracle_hist(case, obs)
    if case["k"] == "rt":
        fs = [(unhx(n), unhx(v)) for n, v in case["fields"]]
        if all(_valid_field(n, v) for n, v in fs):
            if obs["parsed"] is None or obs["parsed"][0] != "ok":
                return [{"key": "roundtrip-error", "what": f"valid fields {fs} -> bytes -> _read_headers failed: {obs['parsed']}"}]
            back = [(unhx(n), unhx(v)) for n, v in obs["parsed"][1]]
            if back != fs:
                return [{"key": "roundtrip", "what": f"valid fields {fs} parsed back as {back}"}]
    return []


def nontrivial(case, obs):
    if case["k"] == "hist":
        mut = any(o[0] in ("set", "del", "setall", "add", "ins", "copy") for o in case["ops"])
        rep = False
        for _, fs in obs["steps"]:
            low = [unhx(n).lower() for n, _ in fs]
            if len(set(low)) < len(low):
                rep = True
                break
        return mut and rep
    if case["k"] == "rt":
        return len(case["fields"]) > 0
    if case["k"] == "rd":
        return len(case["lines"]) > 0
    return len(case["data"]) > 0


def classify(case, obs):
    k = case["k"]
    if k == "hist":
        tags = ["hist", f"ops={min(len(case['ops']) // 5 * 5, 20)}+"]
        tags += sorted({"op:" + o[0] for o in case["ops"]})
        if any(r[0] == "keyerror" for r, _ in obs["steps"]):
            tags.append("keyerror")
        if any(o[0] == "ins" and o[2] < 0 for o in case["ops"]):
            tags.append("neg-index")
        return tags
    if k == "rt":
        fs = [(unhx(n), unhx(v)) for n, v in case["fields"]]
        valid = all(_valid_field(n, v) for n, v in fs)
        ok = obs["parsed"] is not None and obs["parsed"][0] == "ok" and [(unhx(n), unhx(v)) for n, v in obs["parsed"][1]] == fs
        return ["rt", ("valid" if valid else "invalid") + ("-roundtrips" if ok else "-differs")]
    if k == "rd":
        return ["rd", "rd-" + obs["parsed"][0]]
    return ["ex", "ex-none" if obs["lines"] is None else "ex-lines"]
