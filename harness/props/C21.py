"""C21 -- SOCKS5 handshakes are parsed exactly and relay subsequent data
(mitmproxy/proxy/layers/modes.py: Socks5Proxy)."""
import ipaddress
import struct

from lib.coqterm import cbytes, cbool, copt, clist, cN, hx, unhx

ID = "C21"
QUICK_N = 3000
THOROUGH_N = 24000
SHARD = 250
RULE = ("Each case = options (proxyauth on/off, socks5_auth hook verdict, connection_strategy eager/lazy, "
        "OpenConnection failing) + a client byte stream + a segmentation. Streams: 70% built from RFC 1928/1929 "
        "message encoders over token dictionaries (versions, method lists incl. empty/255-long, commands, reserved byte, "
        "ATYP 1/3/4/other, domain names incl. empty/255-long/non-ASCII/IP-literal look-alikes, trailing data), of which a "
        "quarter is truncated at a random point or exactly at / one byte around a message boundary; 20% the same with byte-level mutations (flip/insert/delete/duplicate); "
        "10% raw random or HTTP-looking bytes. Segmentations: whole, byte-by-byte, random cut points, with occasional empty "
        "segments. Schedules: in 55% of the random cases and in a dedicated pipelining-client class (15%: greeting, credentials, "
        "CONNECT and 1-3 payload segments, some looking like SOCKS requests) the completions of Socks5AuthHook / OpenConnection / "
        "NextLayerHook are delivered late, after 1, 2, 3, 4 or all further client segments were queued behind the pause (both "
        "connection strategies, auth on/off); thorough adds every (auth, open, next_layer) delay triple for pipelined clients in each configuration. Thorough adds, for 60 base streams, every single cut point and, for streams <= 11 bytes, every "
        "composition. Every case is additionally run unsegmented so the oracle can compare outcomes. Non-trivial = at "
        "least two non-empty segments and at least one command emitted by the layer; distinct by canonical JSON.")
TRUSTED = ["Coq 8.16.1 kernel (coqc), vm_compute for case evaluation",
           "harness/props/C21.py: layer driver (answers Socks5AuthHook, OpenConnection, NextLayerHook), generator, reference decoder, Corr/C21.v glue",
           "hand-written Gallina model Model/Socks5.v of Socks5Proxy, tied to the code only by correspondence",
           "socket.inet_ntop(AF_INET6) output is compared as the address it denotes (ipaddress.IPv6Address(host).packed), not as text"]
COQ_PRELUDE = "From MV Require Import Model.Socks5Sched.\n"
ASSUMPTIONS = ["every blocking command is eventually completed (late completions: after 0..k further client segments, or after the last one)",
               "pausing inside the child layer (late next_layer hook) is exercised by the oracle only; the Coq model stops at the hand-over to the child",
               "the socks5_auth hook verdict depends only on the (username, password) pair",
               "only Start and DataReceived(client) events are delivered; ConnectionClosed is not modelled",
               "context.server.transport_protocol is tcp (default)"]

HTTP = b"GET / HTTP/1.1\r\nHost: example.com\r\n\r\n"
DOMAINS = [b"example.com", b"", b"a", b"1.2.3.4", b"::1", b"localhost", b"xn--bcher-kva.de", b"b\xc3\xbccher.de",
           b"\x80", b"\xff\xfe.com", b"A" * 255, b"a.b\x00c", b"ex ample", b"\xe4.de", b"host\x7f", b"mitm.it"]
USERS = [b"user", b"", b"u", b"\xff", b"a\\b", b"caf\xc3\xa9", b"x" * 255, b"\x00", b"admin", b"\xc3"]
TRAIL = [b"", b"GET / HTTP/1.1\r\n\r\n", b"\x16\x03\x01\x00\x05hello", b"\x00", b"\x05\x01\x00", b"applicationdata"]


def enc_greeting(rng, pa, clean):
    r = 0.0 if clean else rng.random()
    ver = 5 if r < 0.93 else rng.choice([4, 0, 0x47, 6, rng.below(256)])
    k = rng.weighted([(6, 1), (3, 2), (2, 3), (1, 0), (1, rng.randint(4, 9)), (0.3, 255)])
    pool = [0, 2, 0, 2, 1, 0x80, 0xFF, 3]
    methods = bytearray(rng.choice(pool) for _ in range(k))
    if k and (clean or rng.chance(0.85)):
        methods[rng.below(k)] = 2 if pa else 0
    methods = bytes(methods)
    n = k if clean or rng.chance(0.95) else rng.choice([0, min(k + 1, 255), max(k - 1, 0), 255])
    return bytes([ver, n]) + methods


def enc_auth(rng, clean):
    ver = 1 if clean or rng.chance(0.85) else rng.choice([0, 5, 2, rng.below(256)])
    u = rng.choice(USERS) if rng.chance(0.8) else rng.bytes(rng.randint(0, 8))
    p = rng.choice(USERS) if rng.chance(0.8) else rng.bytes(rng.randint(0, 8))
    ul = len(u) if clean or rng.chance(0.95) else rng.below(256)
    pl = len(p) if clean or rng.chance(0.95) else rng.below(256)
    return bytes([ver, ul]) + u + bytes([pl]) + p


def enc_request(rng, clean):
    ver = 5 if clean or rng.chance(0.93) else rng.choice([4, 0, 1, rng.below(256)])
    cmd = 1 if clean or rng.chance(0.9) else rng.choice([2, 3, 0, 0xFF])
    rsv = 0 if clean or rng.chance(0.95) else rng.choice([1, 0xFF])
    atyp = rng.weighted([(4, 1), (4, 3), (3, 4), (0 if clean else 1, rng.choice([0, 2, 5, 0xFF]))])
    if atyp == 1:
        addr = rng.choice([b"\x7f\x00\x00\x01", b"\x00\x00\x00\x00", b"\xff\xff\xff\xff", rng.bytes(4), b"\x0a\x64\x09\xc8"])
    elif atyp == 4:
        addr = rng.choice([b"\x00" * 15 + b"\x01", b"\x00" * 10 + b"\xff\xff\x01\x02\x03\x04", rng.bytes(16), b"\x00" * 16,
                           b"\x20\x01\x0d\xb8" + b"\x00" * 12, b"\xfe\x80" + b"\x00" * 6 + rng.bytes(8)])
    elif atyp == 3:
        d = rng.choice(DOMAINS) if rng.chance(0.8) else rng.bytes(rng.randint(0, 12))
        ln = len(d) if clean or rng.chance(0.95) else rng.below(256)
        addr = bytes([ln]) + d
    else:
        addr = rng.bytes(rng.randint(0, 6))
    port = rng.choice([b"\x00\x50", b"\x01\xbb", b"\x00\x00", b"\xff\xff", rng.bytes(2), b"\x12\x34"])
    return bytes([ver, cmd, rsv, atyp]) + addr + port


def mutate(rng, s):
    s = bytearray(s)
    for _ in range(rng.randint(1, 3)):
        op = rng.below(4)
        i = rng.below(len(s) + 1)
        if op == 0 and s:
            s[i % len(s)] = rng.choice([0, 1, 2, 3, 4, 5, 0x80, 0xFF, rng.below(256)])
        elif op == 1:
            s.insert(i, rng.below(256))
        elif op == 2 and s:
            del s[i % len(s)]
        elif s:
            j = i % len(s)
            s[j:j] = s[j:j + rng.randint(1, 4)]
    return bytes(s)


def gen_stream(rng, pa):
    r = rng.random()
    if r < 0.10:
        return rng.choice([HTTP, rng.bytes(rng.randint(0, 30)), b"\x05", b"", b"\x05\x00", b"\x04\x01\x00\x50\x7f\x00\x00\x01\x00"])
    clean = rng.chance(0.6)
    parts = [enc_greeting(rng, pa, clean)]
    if pa if clean or rng.chance(0.93) else not pa:
        parts.append(enc_auth(rng, clean))
    parts.append(enc_request(rng, clean))
    parts.append(rng.choice(TRAIL) if rng.chance(0.7) else rng.bytes(rng.randint(1, 24)))
    s = b"".join(parts)
    if r < 0.28:
        s = mutate(rng, s)
    elif r < 0.36:
        s = s[:rng.below(len(s) + 1)]
    elif r < 0.46:
        # cut at (or one byte around) a message boundary: the decisions that wait for "enough bytes"
        cut = len(b"".join(parts[:rng.randint(1, len(parts) - 1)])) + rng.choice([0, 0, 0, -1, 1])
        s = s[:max(cut, 0)]
    return s[:700]


def split(rng, s):
    r = rng.random()
    if r < 0.15 or not s:
        segs = [s]
    elif r < 0.30 and len(s) <= 80:
        segs = [s[i:i + 1] for i in range(len(s))]
    else:
        k = rng.randint(1, min(6, len(s)))
        cuts = sorted(rng.below(len(s) + 1) for _ in range(k))
        segs, prev = [], 0
        for c in cuts + [len(s)]:
            segs.append(s[prev:c])
            prev = c
        if not rng.chance(0.2):
            segs = [x for x in segs if x]
    return segs


def gen_cfg(rng):
    pa = rng.chance(0.35)
    eg = rng.chance(0.5)
    return {"pa": pa, "av": rng.chance(0.8), "eg": eg, "fl": eg and rng.chance(0.3)}


PAYLOADS = [b"GET / HTTP/1.1\r\nHost: example.com\r\n\r\n", b"\x16\x03\x01\x00\x05hello", b"\x00", b"abc",
            b"\x05\x01\x00\x01\x0a\x00\x00\x01\x00\x16tail", b"\x05\x01\x00", b"\x05\x02\x00\x01\x7f\x00\x00\x01\x00\x50",
            b"\x05\x01\x00\x09zzzz", b"applicationdata"]


def gen_late(rng):
    """late completion of the blocking commands: number of further client segments that arrive first"""
    if rng.chance(0.45):
        return None
    pick = lambda: rng.weighted([(3, 0), (3, 1), (2, 2), (1, 3), (1, 99)])
    late = {"a": pick(), "o": pick(), "n": pick()}
    return late if any(late.values()) else None


def gen_pipelined(rng, cfg):
    """a client that does not wait for replies: greeting, credentials, CONNECT and application data arrive as separate
    segments while the auth hook / OpenConnection / next_layer hook are still pending"""
    parts = [enc_greeting(rng, cfg["pa"], True)]
    if cfg["pa"]:
        parts.append(enc_auth(rng, True))
    parts.append(enc_request(rng, rng.chance(0.9)))
    for _ in range(rng.randint(1, 3)):
        parts.append(rng.choice(PAYLOADS) if rng.chance(0.8) else rng.bytes(rng.randint(1, 12)))
    if rng.chance(0.3):   # re-cut one boundary
        i = rng.below(len(parts) - 1)
        j = rng.below(len(parts[i + 1]) + 1)
        parts[i], parts[i + 1] = parts[i] + parts[i + 1][:j], parts[i + 1][j:]
    late = {"a": rng.choice([1, 2, 2, 3, 4, 99]), "o": rng.choice([0, 1, 2, 3, 99]), "n": rng.choice([0, 0, 1, 2, 99])}
    return dict(cfg, segs=[hx(x) for x in parts], late=late)


def gen(rng, n, tier):
    out = []
    if tier == "thorough":
        r2 = rng.fork()
        for _ in range(60):
            cfg = gen_cfg(r2)
            s = gen_stream(r2, cfg["pa"])[:60]
            for i in range(1, len(s)):
                out.append(dict(cfg, segs=[hx(s[:i]), hx(s[i:])]))
        for s, pa in [(b"\x05\x01\x00\x05\x01\x00\x01\x01\x02\x03\x04", False), (b"\x05\x01\x00\x05\x01\x00\x03\x00\x00\x50z", False),
                      (b"\x05\x01\x02\x01\x01u\x01p\x05\x01\x00", True), (b"\x05\x02\x01\x00\x05\x02\x00\x01", False)]:
            m = len(s) - 1
            for mask in range(1 << m):
                segs, prev = [], 0
                for i in range(m):
                    if mask >> i & 1:
                        segs.append(s[prev:i + 1])
                        prev = i + 1
                segs.append(s[prev:])
                out.append({"pa": pa, "av": True, "eg": False, "fl": False, "segs": [hx(x) for x in segs]})
    if tier == "thorough":   # every late-completion triple over a pipelined client, both strategies, auth on/off
        r3 = rng.fork()
        for pa in (False, True):
            for eg, fl in ((False, False), (True, False), (True, True)):
                for av in ((True, False) if pa else (True,)):
                    cfg = {"pa": pa, "av": av, "eg": eg, "fl": fl}
                    base = gen_pipelined(r3, cfg)["segs"]
                    for a in ((0, 1, 2, 3, 99) if pa else (0,)):
                        for o in ((0, 1, 2, 99) if eg else (0,)):
                            for nl in (0, 1, 2, 99):
                                out.append(dict(cfg, segs=base, late={"a": a, "o": o, "n": nl}))
    for _ in range(n):
        cfg = gen_cfg(rng)
        if rng.chance(0.15):
            out.append(gen_pipelined(rng, cfg))
            continue
        s = gen_stream(rng, cfg["pa"])
        case = dict(cfg, segs=[hx(x) for x in split(rng, s)])
        late = gen_late(rng)
        if late:
            case["late"] = late
        out.append(case)
    return out


# ---------------------------------------------------------------- implementation driver

_OPTS = {}


def setup_impl():
    global options, connection, context, events, commands, layer, modes, Proxyserver, ProxyAuth, Rec
    from mitmproxy import options, connection  # noqa
    from mitmproxy.addons.proxyserver import Proxyserver  # noqa
    from mitmproxy.addons.proxyauth import ProxyAuth  # noqa
    from mitmproxy.proxy import context, events, commands, layer  # noqa
    from mitmproxy.proxy.layers import modes  # noqa

    class Rec(layer.Layer):
        """recording child layer installed through the next_layer hook"""

        def __init__(self, ctx, log):
            super().__init__(ctx)
            self.log = log

        def _handle_event(self, ev):
            if isinstance(ev, events.Start):
                self.log.append(("cstart",))
            elif isinstance(ev, events.DataReceived):
                self.log.append(("cdata", ev.connection is self.context.client, ev.data))
            else:
                self.log.append(("cother", type(ev).__name__))
            yield from ()


def _opts(pa, eg):
    k = (pa, eg)
    if k not in _OPTS:
        o = options.Options()
        Proxyserver().load(o)
        if pa:
            ProxyAuth().load(o)
            o.proxyauth = "user:password"
        o.connection_strategy = "eager" if eg else "lazy"
        _OPTS[k] = o
    return _OPTS[k]


def _drive(case, segs, late=None):
    """late = {"a": k, "o": k, "n": k}: the completion of a Socks5AuthHook / OpenConnection / NextLayerHook issued while
    segment i was processed is delivered only after segment i+k has been processed (k = 0: right away, as the event
    loop does when the task finishes before more data arrives); whatever is still pending after the last segment
    is completed at the end, FIFO.  Returns the order of events actually delivered as sched."""
    late = late or {}
    client = connection.Client(peername=("client", 1234), sockname=("127.0.0.1", 8080), timestamp_start=1.0,
                               state=connection.ConnectionState.OPEN)
    ctx = context.Context(client, _opts(case["pa"], case["eg"]))
    lay = modes.Socks5Proxy(ctx)
    log = []
    sched = []
    pending = []   # (due segment index, tag, completion event)
    cur = [-1]
    queued = [0]   # client segments that arrived while Socks5Proxy was paused on a blocking command

    def complete(tag, ev, q):
        k = late.get(tag, 0)
        if k == 0:
            q.append((tag, ev))
        else:
            pending.append((cur[0] + k, tag, ev))

    def feed(tag, ev):
        q = [(tag, ev)]
        while q:
            t, e = q.pop(0)
            if t != "s":
                sched.append([t, hx(e.data)] if t == "d" else [t])
            if t == "d" and lay._paused is not None:
                queued[0] += 1
            for c in lay.handle_event(e):
                if isinstance(c, commands.SendData):
                    log.append(("send", c.connection is client, bytes(c.data)))
                elif isinstance(c, commands.CloseConnection):
                    log.append(("close", c.connection is client))
                elif isinstance(c, commands.Log):
                    pass
                elif isinstance(c, commands.OpenConnection):
                    log.append(("open", c.connection is ctx.server, c.connection.address))
                    complete("o", events.OpenConnectionCompleted(c, "connection refused" if case["fl"] else None), q)
                elif isinstance(c, modes.Socks5AuthHook):
                    log.append(("auth", c.data.username, c.data.password))
                    c.data.valid = case["av"]
                    complete("a", events.HookCompleted(c, None), q)
                elif isinstance(c, layer.NextLayerHook):
                    log.append(("nlhook",))
                    if c.data.layer is None:
                        c.data.layer = Rec(c.data.context, log)
                    complete("n", events.HookCompleted(c, None), q)
                else:
                    log.append(("cmd", type(c).__name__))

    def flush(upto):
        while True:
            due = [x for x in pending if upto is None or x[0] <= upto]
            if not due:
                return
            pending.remove(due[0])
            feed(due[0][1], due[0][2])

    exc = None
    try:
        feed("s", events.Start())
        for i, s in enumerate(segs):
            cur[0] = i
            feed("d", events.DataReceived(client, s))
            flush(i)
        flush(None)
    except Exception as e:  # any exception escaping the layer is its own observable
        exc = type(e).__name__
    return lay, ctx, log, exc, sched, queued[0]


def _cred(s):
    return None if "\\" in s else hx(s.encode("utf-8", "surrogatepass"))


def _observe(case, segs, late=None):
    lay, ctx, log, exc, sched, queued = _drive(case, segs, late)
    if exc is not None:
        state = 5
    elif lay._handle_event == lay.done:
        state = 4
    elif "child_layer" in lay.__dict__:
        state = 3
    else:
        state = {"state_greet": 0, "state_auth": 1, "state_connect": 2}[lay.state.__name__]
    anomalies = []
    sent = b""
    child = b""
    closes = opens = 0
    creds = None
    open_addr = None
    cstart = nlhooks = 0
    for ent in log:
        if ent[0] in ("send", "cdata", "open", "auth") and closes:
            anomalies.append(ent[0] + "-after-close")
        if ent[0] == "send":
            sent += ent[2]
            if not ent[1]:
                anomalies.append("send-to-other-connection")
            if child:
                anomalies.append("handshake-send-after-child-data")
        elif ent[0] == "close":
            closes += 1
            if not ent[1]:
                anomalies.append("close-other-connection")
        elif ent[0] == "open":
            opens += 1
            open_addr = ent[2]
            if not ent[1]:
                anomalies.append("open-other-server")
        elif ent[0] == "auth":
            if creds is not None:
                anomalies.append("auth-hook-twice")
            creds = (ent[1], ent[2])
        elif ent[0] == "cstart":
            cstart += 1
        elif ent[0] == "nlhook":
            nlhooks += 1
        elif ent[0] == "cdata":
            if cstart != 1:
                anomalies.append("child-data-without-single-start")
            if not ent[1]:
                anomalies.append("child-data-other-connection")
            child += ent[2]
        else:
            anomalies.append("unexpected-" + "-".join(map(str, ent)))
    if closes > 1:
        anomalies.append("closed-twice")
    if opens > 1:
        anomalies.append("opened-twice")
    if nlhooks > 1:
        anomalies.append("next-layer-hook-twice")   # the harness installs the child at the first hook
    if (nlhooks > 0) != (cstart > 0) and exc is None:
        anomalies.append("next-layer-hook-without-child-start")
    addr = ctx.server.address
    if opens and open_addr != addr:
        anomalies.append("open-address-differs")
    dest = None
    if addr is not None:
        host, port = addr
        v6 = None
        if ":" in host:
            try:
                v6 = hx(ipaddress.IPv6Address(host).packed)
            except ValueError:
                v6 = None
        dest = [hx(host.encode("utf-8", "surrogatepass")), v6, port, host]
    return {"state": state, "buf": hx(lay.buf) if state < 3 else "", "sent": hx(sent), "dest": dest,
            "opened": opens > 0, "closed": closes > 0,
            "creds": None if creds is None else [_cred(creds[0]), _cred(creds[1])],
            "creds_str": None if creds is None else [hx(x.encode("utf-8", "surrogatepass")) for x in creds],
            "child": hx(child), "anomalies": sorted(set(anomalies)), "exc": exc, "sched": sched, "queued": queued,
            "paused": lay._paused is not None}


def run_impl(case):
    segs = [unhx(x) for x in case["segs"]]
    o = _observe(case, segs, case.get("late"))
    w = _observe(case, [b"".join(segs)])
    o["whole"] = w
    return o


def coq_case(case, obs):
    ob = lambda v: copt(v, lambda h: cbytes(unhx(h)), "bytes")
    d = obs["dest"]
    dest = "(@None idest)" if d is None else f"(Some ({cbytes(unhx(d[0]))}, {ob(d[1])}, {cN(d[2])}))"
    cr = obs["creds"]
    creds = "(@None (option bytes * option bytes))" if cr is None else f"(Some ({ob(cr[0])}, {ob(cr[1])}))"
    evn = {"a": "EAuthDone", "o": "EOpenDone"}   # next_layer completions (n) belong to the child layer, not to this model
    segs = clist((f"EData {cbytes(unhx(e[1]))}" if e[0] == "d" else evn[e[0]] for e in obs["sched"] if e[0] != "n"), "ev")
    return (f"Case {cbool(case['pa'])} {cbool(case['av'])} {cbool(case['eg'])} {cbool(case['fl'])} {segs} "
            f"{cN(obs['state'])} {cbytes(unhx(obs['buf']))} {cbytes(unhx(obs['sent']))} {dest} "
            f"{cbool(obs['opened'])} {cbool(obs['closed'])} {creds} {cbytes(unhx(obs['child']))}")


# ---------------------------------------------------------------- oracle: RFC 1928 / 1929 reference decoder

class _Incomplete(Exception):
    pass


class _Reader:
    def __init__(self, data):
        self.d, self.i = data, 0

    def peek(self, n):
        if self.i + n > len(self.d):
            raise _Incomplete()
        return self.d[self.i:self.i + n]

    def take(self, n):
        b = self.peek(n)
        self.i += n
        return b

    def rest(self):
        return self.d[self.i:]


ERR = lambda code: bytes([5, code, 0, 1, 0, 0, 0, 0, 0, 0])


def reference(stream, case):
    """Expected outcome of a SOCKS5 server with mitmproxy's configuration for the whole client stream.
    Returns dict(verdict in waiting/rejected/accepted, sent, dest, opened, closed, creds, child)."""
    r = _Reader(stream)
    out = {"verdict": "waiting", "sent": b"", "dest": None, "opened": False, "closed": False, "creds": None, "child": b"",
           "lossy_domain": False}

    def reject(reply):
        out["sent"] += reply
        out["closed"] = True
        out["verdict"] = "rejected"
        return out

    try:
        ver, nm = r.peek(2)
        if ver != 5:
            return reject(b"")                       # no SOCKS5 reply is defined for a foreign protocol
        r.take(2)
        methods = r.take(nm)
        want = 2 if case["pa"] else 0
        if want not in methods:
            return reject(b"\x05\xff\x00\x01\x00\x00\x00\x00\x00\x00")   # code FF; mitmproxy appends its usual 8-byte tail
        out["sent"] += bytes([5, want])
        if case["pa"]:
            r.peek(3)                                # the implementation waits for VER ULEN and one more byte
            _ver, ulen = r.peek(2)                   # RFC 1929 VER is not checked by mitmproxy (documented leniency)
            plen = r.peek(2 + ulen + 1)[-1]
            r.peek(2 + ulen + 1 + plen)
            r.take(2)
            user = r.take(ulen)
            r.take(1)
            pw = r.take(plen)
            out["creds"] = (user, pw)
            if not case["av"]:
                return reject(b"\x01\x01")
            out["sent"] += b"\x01\x00"
        head = r.peek(5)
        if head[:3] != b"\x05\x01\x00":
            return reject(ERR(7))
        atyp = head[3]
        if atyp == 1:
            r.peek(10)
            r.take(4)
            host = ("text", str(ipaddress.IPv4Address(r.take(4))))
        elif atyp == 4:
            r.peek(22)
            r.take(4)
            host = ("v6", r.take(16))
        elif atyp == 3:
            r.peek(7 + head[4])
            r.take(5)
            name = r.take(head[4])
            if any(b >= 0x80 for b in name):
                out["lossy_domain"] = True
                host = ("text", None)
            else:
                host = ("text", name.decode("ascii"))
        else:
            return reject(ERR(8))
        (port,) = struct.unpack(">H", r.take(2))
        out["dest"] = (host, port)
        if case["eg"]:
            out["opened"] = True
            if case["fl"]:
                return reject(ERR(4))
        out["sent"] += ERR(0)
        out["verdict"] = "accepted"
        out["child"] = r.rest()
        return out
    except _Incomplete:
        return out


def _outcome(o):
    return {k: o[k] for k in ("state", "sent", "dest", "opened", "closed", "creds_str", "child", "exc")} | \
           {"buf": o["buf"] if o["state"] < 3 else ""}


def oracle(case, obs):
    """The property evaluated on the implementation's observations only."""
    v = []
    stream = b"".join(unhx(x) for x in case["segs"])
    for a in obs["anomalies"]:
        v.append({"key": "trace-" + a, "what": f"command trace anomaly {a} for segs {case['segs']}"})
    for a in obs["whole"]["anomalies"]:
        v.append({"key": "trace-" + a, "what": f"command trace anomaly {a} for unsegmented {hx(stream)}"})
    if obs["exc"] or obs["whole"]["exc"]:
        v.append({"key": "exception", "what": f"layer raised {obs['exc'] or obs['whole']['exc']} on {case['segs']}"})
    # 1. segmentation independence
    a, b = _outcome(obs), _outcome(obs["whole"])
    if obs["paused"]:
        v.append({"key": "schedule-still-paused", "what": f"layer still paused after every completion was delivered, segs {case['segs']} late {case.get('late')}"})
    if a != b:
        diff = [k for k in a if a[k] != b[k]]
        v.append({"key": ("schedule-" if case.get("late") else "segmentation-") + "-".join(diff), "what": f"outcome fields {diff} differ between segs {case['segs']} (late completions {case.get('late')}) and the unsegmented, promptly answered stream"})
    # 2. exact decoding, replies, relay
    ref = reference(stream, case)
    exp_state = {"waiting": None, "rejected": 4, "accepted": 3}[ref["verdict"]]
    if exp_state is None:
        if obs["state"] > 2:
            v.append({"key": "verdict", "what": f"incomplete handshake {hx(stream)} but layer state {obs['state']}"})
    elif obs["state"] != exp_state:
        v.append({"key": "verdict", "what": f"expected {ref['verdict']} for {hx(stream)}, layer state {obs['state']}"})
    if hx(ref["sent"]) != obs["sent"]:
        v.append({"key": "reply", "what": f"client got {obs['sent']} expected {hx(ref['sent'])} for {hx(stream)}"})
    if ref["closed"] != obs["closed"]:
        v.append({"key": "close", "what": f"closed={obs['closed']} expected {ref['closed']} for {hx(stream)}"})
    if ref["opened"] != obs["opened"]:
        v.append({"key": "open", "what": f"OpenConnection issued={obs['opened']} expected {ref['opened']} for {hx(stream)}"})
    if hx(ref["child"]) != obs["child"]:
        v.append({"key": "relay", "what": f"child layer got {obs['child']} expected {hx(ref['child'])} for {hx(stream)}"})
    if (ref["dest"] is None) != (obs["dest"] is None):
        v.append({"key": "destination", "what": f"server.address {obs['dest'] and obs['dest'][3]!r} vs expected {ref['dest']} for {hx(stream)}"})
    elif ref["dest"] is not None:
        (kind, val), port = ref["dest"]
        if port != obs["dest"][2]:
            v.append({"key": "port", "what": f"port {obs['dest'][2]} expected {port} for {hx(stream)}"})
        if ref["lossy_domain"]:
            v.append({"key": "domain-non-ascii-replaced",
                      "what": f"domain name with bytes >= 0x80 not rejected; connects to {obs['dest'][3]!r} for {hx(stream)}"})
        elif kind == "v6":
            if obs["dest"][1] != hx(val):
                v.append({"key": "destination", "what": f"IPv6 host {obs['dest'][3]!r} does not denote {hx(val)} for {hx(stream)}"})
        elif obs["dest"][3] != val:
            v.append({"key": "destination", "what": f"host {obs['dest'][3]!r} expected {val!r} for {hx(stream)}"})
    if (ref["creds"] is None) != (obs["creds_str"] is None):
        v.append({"key": "auth-hook", "what": f"socks5_auth hook called={obs['creds_str'] is not None} unexpectedly for {hx(stream)}"})
    elif ref["creds"] is not None:
        exp = [hx(x.decode("utf-8", "backslashreplace").encode("utf-8")) for x in ref["creds"]]
        if exp != obs["creds_str"]:
            v.append({"key": "auth-credentials", "what": f"hook saw {obs['creds_str']} expected {exp} for {hx(stream)}"})
    return v


def nontrivial(case, obs):
    return sum(1 for s in case["segs"] if s) >= 2 and (obs["sent"] != "" or obs["closed"])


def classify(case, obs):
    st = ["greet-wait", "auth-wait", "connect-wait", "relay", "done", "exception"][obs["state"]]
    tags = [st, f"auth={int(case['pa'])}", f"segs={min(len(case['segs']), 8)}" + ("+" if len(case["segs"]) >= 8 else "")]
    tags.append("late" if case.get("late") else "prompt")
    if case.get("late"):
        tags.append(f"queued-behind-pause={min(obs['queued'], 3)}")
    s = unhx(obs["sent"])
    if obs["state"] == 4:
        tags.append("reject:" + (s[-10:-8].hex() if len(s) >= 10 and s[-8:] == b"\x00\x01\x00\x00\x00\x00\x00\x00" else (s[-2:].hex() if s[-2:] == b"\x01\x01" else "noreply")))
    if obs["dest"] is not None:
        tags.append("host:" + ("v6" if obs["dest"][1] else "text"))
    if obs["state"] == 3:
        tags.append("trailing" if obs["child"] else "no-trailing")
    if case["eg"]:
        tags.append("eager-fail" if case["fl"] else "eager")
    if obs["creds"] is not None:
        tags.append("hook:" + ("ok" if case["av"] else "denied"))
    return tags
