"""C14 — TLS interception is byte-transparent after the handshake
(mitmproxy/proxy/tunnel.py TunnelLayer, mitmproxy/proxy/layers/tls.py TLSLayer/ClientTLSLayer/ServerTLSLayer).

The real layers are driven sans-io against real in-memory OpenSSL peers (Python ssl MemoryBIO objects).  The
SSL.Connection object handed to the layer by the tls_start hook is wrapped by a recorder, so every record-layer call
(bio_write / recv / bio_read / sendall / do_handshake) and its result is observed; the Coq model is run over that
script and must make exactly the same calls and produce the same commands / child events."""
from lib.coqterm import cbool, cnat, cN, clist, copt

ID = "C14"
QUICK_N = 200
THOROUGH_N = 1600
SHARD = 25
CASE_TYPE = "case"
COQ_PRELUDE = "From MV Require Import Model.TlsTunnel.\n"
ALLOWED_AXIOMS = []
TRANSLATORS = []
RULE = ("A case is a layer configuration (ClientTLSLayer alone, ServerTLSLayer alone eager/lazy, or ServerTLS over ClientTLS "
        "over a policy child), TLS versions of the peers, a child policy (ignore/echo/relay per connection, command lists on "
        "start/close/opened/injected events) and a schedule of steps: handshakes with random segmentation of every flight "
        "(optionally application data written before the Finished flight is delivered), peer writes with random record sizes, "
        "deliveries of the pending wire bytes cut at random offsets (1 byte .. everything), injected events that make the child "
        "send/close/open, close_notify, TCP close, and a 30% adversarial stream: bytes after close_notify, corrupted records in "
        "either direction (peer then answers with a fatal alert), garbage, sends after errors, opens that fail, no TLS context. "
        "Non-trivial = at least one handshake completed and application data or a close crossed the layer; distinct by canonical JSON.")
TRUSTED = ["Coq 8.16.1 kernel (coqc), vm_compute for case evaluation",
           "harness/props/C14.py (drivers, recorder around SSL.Connection, peers), harness/lib/sansio.py, Corr/C14.v glue",
           "OpenSSL record layer contract (Proofs/TlsTunnelData.v Section Contract): recv returns the plaintext of completely "
           "received records in order, exactly once, never an empty chunk; WantRead/ZeroReturn only when all of it was returned; "
           "ZeroReturn iff a close_notify was received and bytes after it are ignored; bio_read returning WantRead means the "
           "peer decodes everything read so far to exactly the plaintext accepted by sendall",
           "blocking hooks and the layer's own OpenConnection complete before the next event (Layer pause/resume is property C04)"]
ASSUMPTIONS = ["ignore_connection, establish_server_tls_first and DTLS are not modelled",
               "the model describes the tree with fixes/C14-close-once.diff applied"]

VERS = ["1.2", "1.3"]
SIDES = ["c", "s"]


# --------------------------------------------------------------------------------------------------
# generator
# --------------------------------------------------------------------------------------------------
def _data(rng, lo=1, hi=60):
    r = rng.random()
    if r < 0.1:
        n = rng.choice([1, 2, 255, 256, 300])
    else:
        n = rng.randint(lo, hi)
    return rng.bytes(n, b"abcdefghijklmnopqrstuvwxyz0123456789 \r\n").hex()


def _segs(rng):
    r = rng.random()
    if r < 0.3:
        return [0]
    if r < 0.45:
        return [1, 0]
    if r < 0.6:
        return [5, 0]
    return [rng.choice([1, 3, 5, 7, 64, 100, 500, 1000]) for _ in range(rng.randint(1, 4))] + [0]


def _cmds(rng, sides, allow_open=False):
    out = []
    for _ in range(rng.weighted([(5, 1), (2, 2), (1, 0), (1, 3)])):
        k = rng.weighted([(8, "send"), (1, "close"), (1, "other")] + ([(1, "open")] if allow_open else []))
        if k == "send":
            out.append(["send", rng.choice(sides), _data(rng)])
        elif k == "close":
            out.append(["close", rng.choice(sides), rng.chance(0.3)])
        elif k == "open":
            out.append(["open", rng.choice(sides)])
        else:
            out.append(["other", rng.randint(0, 5)])
    return out


def _deliver_all(rng, side):
    r = rng.random()
    if r < 0.4:
        return [["d", side, 0]]
    steps = [["d", side, rng.choice([1, 2, 3, 4, 5, 6, 10, 21, 22, 23, 29, 40, 100])] for _ in range(rng.randint(1, 4))]
    return steps + [["d", side, 0]]


def gen_one(rng):
    mode = rng.weighted([(4, "client"), (3, "server"), (4, "stack")])
    adversarial = rng.chance(0.3)
    case = {"mode": mode, "ver": {"c": rng.choice(VERS), "s": rng.choice(VERS)}, "provide_tls": True,
            "server_open": rng.choice(["eager", "lazy"]), "replies": []}
    tls_sides = {"client": ["c"], "server": ["s"], "stack": ["c", "s"]}[mode]
    all_sides = ["c", "s"]
    dm = lambda s: rng.weighted([(3, "ignore"), (3, "echo"), (3, "relay" if mode == "stack" else "echo")])
    pol = {"start": [], "data": {"c": dm("c"), "s": dm("s")},
           "close": {"c": _cmds(rng, tls_sides) if rng.chance(0.5) else [], "s": _cmds(rng, tls_sides) if rng.chance(0.5) else []},
           "opened": _cmds(rng, ["s"]) if rng.chance(0.5) and mode != "client" else [], "other": {}}
    ops = [["start"]]
    up = set()      # sides whose handshake is done
    nt = 0

    def inject(cmds):
        nonlocal nt
        t = 10 + nt
        nt += 1
        pol["other"][str(t)] = cmds
        ops.append(["i", t])

    def handshake(side):
        early = _data(rng) if rng.chance(0.4) else None
        ops.append(["hs", side, _segs(rng), early])
        up.add(side)

    # --- establishing
    if mode == "client":
        if adversarial and rng.chance(0.15):
            case["provide_tls"] = False
        handshake("c")
    elif mode == "server":
        if case["server_open"] == "lazy":
            if adversarial and rng.chance(0.2):
                case["replies"] = [True]
            if rng.chance(0.3):
                ops.append(["i", 1])           # passes through before the connection exists
            inject([["open", "s"]])
        if adversarial and rng.chance(0.1):
            case["provide_tls"] = False
        handshake("s")
    else:
        order = rng.choice([["c", "s"], ["s", "c"]]) if case["server_open"] == "lazy" else ["c", "s"]
        for side in order:
            if side == "s":
                inject([["open", "s"]])
                if rng.chance(0.3):
                    ops.append(["i", 2])
            handshake(side)
        if order[0] == "s":
            # the injected event was queued while the client handshake ran; the server handshake starts only now
            ops.append(["hs", "s", _segs(rng), None])
    # events passing through while establishing are covered by the early-data / inject steps above
    # --- application phase
    closed = set()
    for _ in range(rng.randint(2, 9)):
        side = rng.choice(tls_sides)
        k = rng.weighted([(6, "w"), (4, "i"), (1, "cn"), (1, "x"), (1, "e")] +
                         ([(2, "after-cn"), (2, "corin"), (2, "corout"), (1, "garbage"), (1, "reopen")] if adversarial else []))
        if k == "w":
            for _ in range(rng.randint(1, 3)):
                ops.append(["w", side, _data(rng, 1, 120)])
                if rng.chance(0.3):
                    ops += [["d", side, rng.choice([1, 3, 5, 10, 22, 30])]]
            ops += _deliver_all(rng, side)
        elif k == "i":
            inject(_cmds(rng, tls_sides if rng.chance(0.9) else all_sides))
        elif k == "e":
            ops.append(["d", side, 0])          # DataReceived with nothing pending is skipped by the runner
            ops.append(["i", rng.randint(0, 3)])
        elif k == "cn":
            if rng.chance(0.6):                      # data and close_notify in the same segment(s)
                for _ in range(rng.randint(1, 2)):
                    ops.append(["w", side, _data(rng, 1, 80)])
            ops.append(["cn", side])
            ops += _deliver_all(rng, side)
        elif k == "x":
            if side not in closed:
                ops.append(["x", side])
                closed.add(side)
        elif k == "after-cn":
            ops.append(["cn", side])
            ops += _deliver_all(rng, side)
            kk = rng.choice(["cn2", "garbage", "w"])
            if kk == "garbage":
                ops.append(["g", side, rng.bytes(rng.randint(1, 30)).hex()])
            elif kk == "w":
                ops.append(["g", side, "1703030005" + rng.bytes(5).hex()])
            else:
                ops.append(["g", side, "150303001a" + rng.bytes(26).hex()])
            ops += _deliver_all(rng, side)
        elif k == "corin":
            ops.append(["w", side, _data(rng)])
            ops.append(["cor", side, rng.randint(0, 40)])
            ops += _deliver_all(rng, side)
            if rng.chance(0.6):
                inject([["send", side, _data(rng)]])
        elif k == "corout":
            ops.append(["corout", side])
            inject([["send", side, _data(rng)]])
            ops += _deliver_all(rng, side)     # the alert the peer answered with
            if rng.chance(0.7) and side not in closed:
                ops.append(["x", side])
                closed.add(side)
        elif k == "garbage":
            ops.append(["g", side, rng.bytes(rng.randint(1, 40)).hex()])
            ops += _deliver_all(rng, side)
        elif k == "reopen":
            inject([["open", side]])
    if rng.chance(0.5):
        for side in tls_sides:
            if side not in closed and rng.chance(0.7):
                if rng.chance(0.6):
                    if rng.chance(0.5):
                        ops.append(["w", side, _data(rng, 1, 80)])
                    ops.append(["cn", side])
                    ops += _deliver_all(rng, side)
                ops.append(["x", side])
    case["pol"] = pol
    case["ops"] = ops
    return case


def gen(rng, n, tier):
    return [gen_one(rng) for _ in range(n)]


# --------------------------------------------------------------------------------------------------
# implementation runner
# --------------------------------------------------------------------------------------------------
_M = {}
CERTS = "test/mitmproxy/net/data/verificationcerts/"


def setup_impl():
    import os
    import ssl
    import mitmproxy
    from OpenSSL import SSL
    from mitmproxy import connection
    from mitmproxy.proxy import commands, events, layer
    from mitmproxy.proxy.layers import tls
    from lib import sansio
    root = os.path.dirname(os.path.dirname(os.path.abspath(mitmproxy.__file__)))
    _M.update(ssl=ssl, SSL=SSL, connection=connection, commands=commands, events=events, layer=layer, tls=tls,
              sansio=sansio, certs=os.path.join(root, CERTS))


class Peer:
    """in-memory TLS peer (Python ssl), like SSLTest in test/mitmproxy/proxy/layers/test_tls.py"""

    def __init__(self, server_side, ver):
        ssl = _M["ssl"]
        d = _M["certs"]
        self.inc, self.out = ssl.MemoryBIO(), ssl.MemoryBIO()
        ctx = ssl.SSLContext(ssl.PROTOCOL_TLS_SERVER if server_side else ssl.PROTOCOL_TLS_CLIENT)
        ctx.verify_mode = ssl.CERT_OPTIONAL if not server_side else ssl.CERT_NONE
        ctx.load_verify_locations(cafile=d + "trusted-root.crt")
        if server_side:
            ctx.load_cert_chain(d + "trusted-leaf.crt", d + "trusted-leaf.key")
        if ver == "1.2":
            ctx.maximum_version = ssl.TLSVersion.TLSv1_2
        self.obj = ctx.wrap_bio(self.inc, self.out, server_side=server_side,
                                server_hostname=None if server_side else "example.mitmproxy.org")
        self.done = False
        self.got = bytearray()      # plaintext decrypted by the peer
        self.got_close = 0
        self.errors = []
        self.pending = bytearray()  # wire bytes produced by the peer, not yet delivered to the layer
        self.sent_plain = bytearray()
        self.corrupt_next = False

    def handshake(self):
        ssl = _M["ssl"]
        if self.done:
            return
        try:
            self.obj.do_handshake()
            self.done = True
        except ssl.SSLWantReadError:
            pass
        except ssl.SSLError as e:
            self.errors.append(type(e).__name__)
        self.flush()

    def flush(self):
        self.pending += self.out.read()

    def feed(self, data):
        """bytes the layer wrote to this peer"""
        ssl = _M["ssl"]
        if self.corrupt_next and len(data) > 8:
            data = bytearray(data)
            data[-1] ^= 0x55
            data = bytes(data)
            self.corrupt_next = False
        self.inc.write(data)
        if not self.done:
            return
        while True:
            try:
                r = self.obj.read(65536)
            except ssl.SSLWantReadError:
                break
            except ssl.SSLZeroReturnError:
                self.got_close += 1
                break
            except ssl.SSLError as e:
                self.errors.append(type(e).__name__)
                break
            if not r:
                self.got_close += 1
                break
            self.got += r
        self.flush()

    def write(self, data):
        ssl = _M["ssl"]
        try:
            self.obj.write(data)
            self.sent_plain += data
        except ssl.SSLError as e:
            self.errors.append("write:" + type(e).__name__)
        self.flush()

    def close_notify(self):
        ssl = _M["ssl"]
        try:
            self.obj.unwrap()
        except ssl.SSLError:
            pass
        self.flush()


class RecTLS:
    """records every record-layer call the layer makes on the SSL.Connection"""

    def __init__(self, conn, script):
        self.__dict__["_c"] = conn
        self.__dict__["_s"] = script

    def __getattr__(self, name):
        return getattr(self._c, name)

    def __bool__(self):
        return True

    def bio_write(self, d):
        self._s.append(["bw", bytes(d).hex()])
        return self._c.bio_write(d)

    def recv(self, n):
        SSL = _M["SSL"]
        try:
            r = self._c.recv(n)
        except SSL.WantReadError:
            self._s.append(["recv", "want"]); raise
        except SSL.ZeroReturnError:
            self._s.append(["recv", "zero"]); raise
        except SSL.Error:
            self._s.append(["recv", "err"]); raise
        except Exception:
            self._s.append(["recv", "raise"]); raise
        self._s.append(["recv", "data", bytes(r).hex()])
        return r

    def bio_read(self, n):
        SSL = _M["SSL"]
        try:
            r = self._c.bio_read(n)
        except SSL.WantReadError:
            self._s.append(["br", None]); raise
        self._s.append(["br", bytes(r).hex()])
        return r

    def sendall(self, d):
        SSL = _M["SSL"]
        try:
            self._c.sendall(d)
        except SSL.ZeroReturnError:
            self._s.append(["send", bytes(d).hex(), "zero"]); raise
        except SSL.SysCallError:
            self._s.append(["send", bytes(d).hex(), "syscall"]); raise
        except Exception:
            self._s.append(["send", bytes(d).hex(), "raise"]); raise
        self._s.append(["send", bytes(d).hex(), "ok"])

    def do_handshake(self):
        SSL = _M["SSL"]
        try:
            self._c.do_handshake()
        except SSL.WantReadError:
            self._s.append(["hs", "want"]); raise
        except SSL.Error:
            self._s.append(["hs", "err"]); raise
        self._s.append(["hs", "done"])


HOOKS = {"tls_clienthello": ["hello"], "tls_start_client": ["start", "c"], "tls_start_server": ["start", "s"],
         "tls_established_client": ["est", "c"], "tls_established_server": ["est", "s"],
         "tls_failed_client": ["fail", "c"], "tls_failed_server": ["fail", "s"]}


class Run:
    def __init__(self, case):
        self.case = case
        self.L = []           # outer trace
        self.clog = []        # events seen by the policy child
        self.fed = []         # events fed to the top layer
        self.scripts = {"c": [], "s": []}
        self.child_opens = []
        self.close_state = {}
        self.hello = []       # (buffer length, parse result)
        self.peers = {}
        self.side_of = {}

    # ---- naming
    def side(self, conn):
        return "c" if conn is self.ctx.client else ("s" if conn is self.ctx.server else "?")

    def ev_json(self, ev):
        E = _M["events"]
        if isinstance(ev, E.Start):
            return ["start"]
        if isinstance(ev, E.DataReceived):
            return ["data", self.side(ev.connection), bytes(ev.data).hex()]
        if isinstance(ev, E.ConnectionClosed):
            return ["close", self.side(ev.connection)]
        if isinstance(ev, E.OpenConnectionCompleted):
            return ["opened", self.side(ev.command.connection), bool(ev.reply)]
        if isinstance(ev, E.Wakeup):
            return ["other", int(ev.command.delay)]
        if isinstance(ev, E.HookCompleted):
            return None
        return ["unknown", type(ev).__name__]

    def cmd_json(self, c):
        C = _M["commands"]
        if isinstance(c, C.SendData):
            return ["send", self.side(c.connection), bytes(c.data).hex()]
        if isinstance(c, C.CloseTcpConnection):
            return ["close", self.side(c.connection), bool(c.half_close)]
        if isinstance(c, C.CloseConnection):
            return ["close", self.side(c.connection), False]
        if isinstance(c, C.OpenConnection):
            return ["open", self.side(c.connection)]
        if isinstance(c, C.StartHook):
            return ["hook"] + HOOKS.get(c.name, ["?" + c.name])
        if isinstance(c, C.Log):
            return ["log"]
        if isinstance(c, C.RequestWakeup):
            return ["other", int(c.delay)]
        return ["unknown", type(c).__name__]

    # ---- the policy child
    def child_cmds(self, ev):
        pol = self.case["pol"]
        j = self.ev_json(ev)
        if j[0] == "start":
            return pol["start"]
        if j[0] == "data":
            m = pol["data"].get(j[1], "ignore")
            if m == "echo":
                return [["send", j[1], j[2]]]
            if m == "relay":
                return [["send", "s" if j[1] == "c" else "c", j[2]]]
            return []
        if j[0] == "close":
            return pol["close"].get(j[1], [])
        if j[0] == "opened":
            return pol["opened"]
        if j[0] == "other":
            return pol["other"].get(str(j[1]), [])
        return []

    def mk_cmd(self, cj):
        C = _M["commands"]
        conn = lambda s: self.ctx.client if s == "c" else self.ctx.server
        if cj[0] == "send":
            return C.SendData(conn(cj[1]), bytes.fromhex(cj[2]))
        if cj[0] == "close":
            return C.CloseTcpConnection(conn(cj[1]), half_close=True) if cj[2] else C.CloseConnection(conn(cj[1]))
        if cj[0] == "open":
            c = C.OpenConnection(conn(cj[1]))
            c.blocking = self.child      # what Layer.__process does for a real child layer
            self.child_opens.append(c)
            return c
        return C.RequestWakeup(cj[1])

    def make_child(self, log_to_trace):
        run = self

        class PolicyChild:
            def handle_event(self, ev):
                j = run.ev_json(ev)
                if j is None:
                    return
                run.clog.append(j)
                if log_to_trace:
                    run.L.append(["child"] + j)
                for cj in run.child_cmds(ev):
                    c = run.mk_cmd(cj)
                    if log_to_trace:
                        run.L.append(["fromchild"] + run.cmd_json(c))
                    yield c
        return PolicyChild()

    # ---- building the stack
    def build(self):
        tls, connection, SSL = _M["tls"], _M["connection"], _M["SSL"]
        sansio = _M["sansio"]
        case = self.case
        mode = case["mode"]
        run = self
        certs = _M["certs"]

        def policy(hook, drv):
            if hook.name in ("tls_start_client", "tls_start_server") and case["provide_tls"]:
                data = hook.data
                if hook.name == "tls_start_client":
                    c = SSL.Context(SSL.SSLv23_METHOD)
                    c.use_privatekey_file(certs + "trusted-leaf.key")
                    c.use_certificate_chain_file(certs + "trusted-leaf.crt")
                    conn = SSL.Connection(c)
                    conn.set_accept_state()
                    data.ssl_conn = RecTLS(conn, run.scripts["c"])
                else:
                    c = SSL.Context(SSL.SSLv23_METHOD)
                    c.load_verify_locations(cafile=certs + "trusted-root.crt")
                    conn = SSL.Connection(c)
                    conn.set_connect_state()
                    data.ssl_conn = RecTLS(conn, run.scripts["s"])

        def connect(conn, drv):
            # our own OpenConnection(tunnel connection): the reply script; anything else is the child's command
            if run.side(conn) in run.tls_sides:
                r = case["replies"][run.nreply] if run.nreply < len(case["replies"]) else False
                run.nreply += 1
                run.used_replies.append(bool(r))
                return "connect failed" if r else None
            return None

        self.nreply = 0
        self.used_replies = []
        ctx = sansio.make_context()
        ctx.server.address = ("example.mitmproxy.org", 443)
        if mode != "client" and case["server_open"] == "eager":
            ctx.server.state = connection.ConnectionState.OPEN
        self.ctx = ctx
        layers = []
        if mode == "client":
            ctx.layers.append(None)
            inner = tls.ClientTLSLayer(ctx)
            self.child = self.make_child(True)
            inner.child_layer = self.child
            top = inner
            layers = [("c", inner)]
        elif mode == "server":
            top = tls.ServerTLSLayer(ctx)
            self.child = self.make_child(True)
            top.child_layer = self.child
            layers = [("s", top)]
        else:
            top = tls.ServerTLSLayer(ctx)
            inner = tls.ClientTLSLayer(ctx)
            self.child = self.make_child(False)
            inner.child_layer = self.child
            top.child_layer = inner
            orig = inner.handle_event

            def logged(ev):
                j = run.ev_json(ev)
                if isinstance(ev, _M["events"].OpenConnectionCompleted) and ev.command.connection is ctx.client and run.own_open(ev.command):
                    j = None     # reply to the inner layer's own OpenConnection
                if j is not None:
                    run.L.append(["child"] + j)
                for c in orig(ev):
                    cj = run.cmd_json(c)
                    run.L.append(["fromchild"] + cj)
                    yield c
            inner.handle_event = logged
            layers = [("s", top), ("c", inner)]
        self.layers = layers
        self.tls_sides = [s for s, _ in layers]

        E = _M["events"]
        C = _M["commands"]

        class Drv(sansio.Driver):
            """commands are executed as they are yielded, like server.py's server_event"""

            def event(drv, ev):
                drv._q.append(ev)
                if drv._busy:
                    return
                drv._busy = True
                try:
                    while drv._q and drv.crashed is None:
                        e = drv._q.popleft()
                        j = run.ev_json(e)
                        own = isinstance(e, E.OpenConnectionCompleted) and run.own_open(e.command)
                        if j is not None and not own:
                            run.fed.append(j)
                        try:
                            for c in drv.layer.handle_event(e):
                                drv._execute(c)
                        except Exception as exc:
                            drv.crashed = (type(exc).__name__, str(exc)[:200])
                            run.crash = run.classify_crash(exc)
                            break
                finally:
                    drv._busy = False

            def _execute(drv, c):
                run.L.append(["cmd"] + run.cmd_json(c))
                n0 = len(drv.trace)
                super()._execute(c)
                for t in drv.trace[n0:]:
                    if t[0] == "send" and t[1] < len(drv.conns):
                        s = run.side(drv.conns[t[1]])
                        run.outbox.append((s, bytes.fromhex(t[2])))

        self.crash = None
        self.outbox = []
        self.drv = Drv(lambda c: top, policy=policy, connect=connect, ctx=ctx)
        self.drv.conns.append(ctx.server)

    def own_open(self, cmd):
        """OpenConnection commands created by a TLS layer itself (for its tunnel connection): their completion is the
        reply of the blocking command, not an event of the model"""
        return not any(cmd is c for c in self.child_opens)

    def classify_crash(self, exc):
        SSL, tls = _M["SSL"], _M["tls"]
        who = None
        tb = exc.__traceback__
        while tb is not None:
            s = tb.tb_frame.f_locals.get("self")
            if isinstance(s, tls.TLSLayer):
                who = s
            tb = tb.tb_next
        side = None
        for sd, l in self.layers:
            if l is who:
                side = sd
        if isinstance(exc, AttributeError):
            k = "NoTls"
        elif isinstance(exc, AssertionError):
            k = "AssertTls"
        elif isinstance(exc, SSL.Error):
            k = "SendRaise"
        else:
            k = "Other:" + type(exc).__name__
        return [side, k]

    # ---- steps
    def pump(self):
        """give the peers what the layer sent them"""
        keep = []
        while self.outbox:
            s, data = self.outbox.pop(0)
            if s in self.peers:
                self.peers[s].feed(data)
            elif s in self.tls_sides:
                keep.append((s, data))
        self.outbox = keep

    def deliver(self, side, n):
        p = self.peers[side]
        if not p.pending:
            return
        if n <= 0 or n > len(p.pending):
            n = len(p.pending)
        chunk = bytes(p.pending[:n])
        del p.pending[:n]
        conn = self.ctx.client if side == "c" else self.ctx.server
        if side == "c" and not self.layers_hello_done():
            self.note_hello(chunk)
        self.drv.event(_M["events"].DataReceived(conn, chunk))
        self.pump()

    def layers_hello_done(self):
        for s, l in self.layers:
            if s == "c":
                return l.client_hello_parsed
        return True

    def note_hello(self, chunk):
        tls = _M["tls"]
        for s, l in self.layers:
            if s == "c":
                buf = bytes(l.recv_buffer) + chunk
                try:
                    r = "ok" if tls.parse_client_hello(buf) else "incomplete"
                except ValueError:
                    r = "invalid"
                self.hello.append([len(buf), r])

    def can_receive(self, side):
        conn = self.ctx.client if side == "c" else self.ctx.server
        CS = _M["connection"].ConnectionState
        # server.py keeps reading until the transport is closed, whatever conn.state says
        return self.drv.crashed is None and conn.state is not CS.CLOSED and side not in self.tcp_closed

    def run(self):
        E, C = _M["events"], _M["commands"]
        case = self.case
        self.build()
        self.tcp_closed = set()
        self.hs_done = set()
        ver = case["ver"]
        for op in case["ops"]:
            if self.drv.crashed is not None:
                break
            k = op[0]
            if k == "start":
                self.drv.start()
                self.pump()
                continue
            if k == "i":
                self.drv.event(E.Wakeup(C.RequestWakeup(op[1])))
                self.pump()
                continue
            side = op[1]
            if side not in self.tls_sides:
                continue
            if k == "hs":
                if side not in self.peers:
                    self.peers[side] = Peer(server_side=(side == "s"), ver=ver[side])
                p = self.peers[side]
                if p.done:
                    continue
                self.pump()   # a ClientHello the layer may already have sent
                segs, early = op[2], op[3]
                for _ in range(12):
                    was_done = p.done
                    p.handshake()
                    if p.done and not was_done and early:
                        p.write(bytes.fromhex(early))
                    if not p.pending:
                        break
                    i = 0
                    while p.pending and self.can_receive(side):
                        self.deliver(side, segs[min(i, len(segs) - 1)])
                        i += 1
                    if p.pending:
                        break
                if p.done:
                    p.feed(b"")
                    self.hs_done.add(side)
                continue
            if side not in self.peers:
                continue
            p = self.peers[side]
            if k == "w":
                if p.done:
                    p.write(bytes.fromhex(op[2]))
            elif k == "d":
                if self.can_receive(side):
                    self.deliver(side, op[2])
            elif k == "cn":
                if p.done:
                    p.close_notify()
            elif k == "x":
                if self.can_receive(side):
                    # bytes still pending are lost, like a reset
                    self.tcp_closed.add(side)
                    self.close_state[side] = [l.tunnel_state.name for s_, l in self.layers if s_ == side][0]
                    self.drv.close(1 if side == "s" else 0)
                    self.pump()
            elif k == "cor":
                if p.pending:
                    i = min(op[2], len(p.pending) - 1)
                    p.pending[len(p.pending) - 1 - i] ^= 0x21
                    p.corrupted = True
            elif k == "corout":
                p.corrupt_next = True
            elif k == "g":
                p.pending += bytes.fromhex(op[2])
                p.garbage = True
        return self.observation()

    def observation(self):
        ts = lambda l: l.tunnel_state.name
        obs = {"trace": self.L, "clog": self.clog, "fed": self.fed, "scripts": {s: self.scripts[s] for s in self.tls_sides},
               "hello": self.hello, "replies": self.used_replies, "crash": self.crash,
               "final": {s: ts(l) for s, l in self.layers},
               "peers": {s: {"done": p.done, "got": bytes(p.got).hex(), "sent": bytes(p.sent_plain).hex(),
                             "undelivered": len(p.pending), "errors": p.errors, "got_close": p.got_close,
                             "dirty": bool(getattr(p, "corrupted", False) or getattr(p, "garbage", False) or p.corrupt_next)}
                         for s, p in self.peers.items()},
               "tcp_closed": sorted(self.tcp_closed), "hs_done": sorted(self.hs_done), "close_state": self.close_state}
        return obs


def run_impl(case):
    return Run(case).run()


# --------------------------------------------------------------------------------------------------
# Coq printer
# --------------------------------------------------------------------------------------------------
_INTERN = None   # while printing one case: hex string -> let-bound name


def chx(h):
    if not h:
        return "(@nil byte)"
    if _INTERN is not None and len(h) > 24:
        if h not in _INTERN:
            _INTERN[h] = "b%d" % len(_INTERN)
        return _INTERN[h]
    return '(hx "%s")' % h


def cconn(s):
    return {"c": "Client", "s": "Server"}[s]


def cevent(j):
    if j[0] == "start":
        return "EStart"
    if j[0] == "data":
        return f"(EData {cconn(j[1])} {chx(j[2])})"
    if j[0] == "close":
        return f"(EClose {cconn(j[1])})"
    if j[0] == "opened":
        return f"(EOpened {cconn(j[1])} {cbool(j[2])})"
    if j[0] == "other":
        return f"(EOther {cN(j[1])})"
    raise ValueError("unprintable event %r" % (j,))


def ccmd(j):
    if j[0] == "send":
        return f"(CSend {cconn(j[1])} {chx(j[2])})"
    if j[0] == "close":
        return f"(CClose {cconn(j[1])} {cbool(j[2])})"
    if j[0] == "open":
        return f"(COpen {cconn(j[1])})"
    if j[0] == "hook":
        h = {"hello": "HClientHello", "start": "(HTlsStart %s)", "est": "(HTlsEstablished %s)", "fail": "(HTlsFailed %s)"}[j[1]]
        return "(CHook %s)" % (h % cconn(j[2]) if "%s" in h else h)
    if j[0] == "log":
        return "CLog"
    if j[0] == "other":
        return f"(COther {cN(j[1])})"
    raise ValueError("unprintable command %r" % (j,))


def ctitem(j):
    if j[0] == "cmd":
        return f"(TCmd {ccmd(j[1:])})"
    if j[0] == "child":
        return f"(TChild {cevent(j[1:])})"
    return f"(TFromChild {ccmd(j[1:])})"


def ccall(j):
    if j[0] == "bw":
        return f"(KBioWrite {chx(j[1])})"
    if j[0] == "recv":
        r = {"want": "RWantRead", "zero": "RZeroReturn", "err": "RError", "raise": "RRaise"}.get(j[1])
        return f"(KRecv {r})" if r else f"(KRecv (RData {chx(j[2])}))"
    if j[0] == "br":
        return "(KBioRead None)" if j[1] is None else f"(KBioRead (Some {chx(j[1])}))"
    if j[0] == "send":
        r = {"ok": "SOk", "zero": "SZeroReturn", "syscall": "SSysCall", "raise": "SRaise"}[j[2]]
        return f"(KSendall {chx(j[1])} {r})"
    r = {"done": "HsDone", "want": "HsWantRead", "err": "HsError"}[j[1]]
    return f"(KHandshake {r})"


def cpol(case):
    pol = case["pol"]
    dm = {"ignore": "DIgnore", "echo": "DEcho", "relay": "DRelay"}
    cl = lambda l: clist([ccmd(c) for c in l], "cmd")
    other = clist(["(%s, %s)" % (cN(int(t)), cl(c)) for t, c in sorted(pol["other"].items(), key=lambda kv: int(kv[0]))], "(N * list cmd)")
    return (f"(mkPol {cl(pol['start'])} {dm[pol['data']['c']]} {dm[pol['data']['s']]} {cl(pol['close']['c'])} "
            f"{cl(pol['close']['s'])} {cl(pol['opened'])} {other})")


def ccrash(k):
    return k if k in ("NoTls", "AssertTls", "SendRaise", "RecvRaise", "ChildRaise", "OutOfFuel") else None


def ccfg(case, side):
    mode = case["mode"]
    if side == "c":
        return f"(mkCfg Client {cbool(case['provide_tls'])} false true FUEL)"
    eager = case["server_open"] == "eager"
    return f"(mkCfg Server {cbool(case['provide_tls'])} {cbool(mode == 'stack')} {cbool(eager)} FUEL)"


def coq_case(case, obs):
    """long byte strings occur several times (wire bytes in the script, the events and the commands): bind them once"""
    global _INTERN
    _INTERN = {}
    try:
        body = _coq_case(case, obs)
        lets = "".join('let %s := hx "%s" in ' % (name, h) for h, name in _INTERN.items())
    finally:
        _INTERN = None
    return "(%s%s)" % (lets, body)


def _coq_case(case, obs):
    if obs.get("crash") and ccrash(obs["crash"][1]) is None:
        # an exception the model has no name for: make the case fail visibly
        return "CBad"
    script = lambda s: clist([ccall(c) for c in obs["scripts"].get(s, [])], "call")
    hello = clist(["(%s, %s)" % (cnat_big(n), {"ok": "HelloOk", "incomplete": "HelloIncomplete", "invalid": "HelloInvalid"}[r])
                   for n, r in obs["hello"]], "(N * hello_res)")
    replies = clist([cbool(b) for b in obs["replies"]], "bool")
    evs = clist([cevent(e) for e in obs["fed"]], "event")
    tr = clist([ctitem(t) for t in obs["trace"]], "titem")
    clog = clist([cevent(e) for e in obs["clog"]], "event")
    st = lambda s: obs["final"][s]
    cr = obs.get("crash")
    mode = case["mode"]
    if mode in ("client", "server"):
        s = "c" if mode == "client" else "s"
        crash = copt(cr[1] if cr else None, ty="crash")
        return (f"CSingle {ccfg(case, s)} {script(s)} {hello} {replies} {cpol(case)} {evs} {tr} {clog} {st(s)} {crash}")
    cs = copt(None, ty="crash")
    cc = copt(None, ty="crash")
    if cr:
        if cr[0] == "c":
            cc = copt(cr[1]); cs = copt("ChildRaise")
        else:
            cs = copt(cr[1])
    return (f"CStack {ccfg(case, 's')} {ccfg(case, 'c')} {script('s')} {script('c')} {hello} {replies} {cpol(case)} "
            f"{evs} {tr} {clog} {st('s')} {st('c')} {cs} {cc}")


def cnat_big(n):
    return f"{n}%N"


# --------------------------------------------------------------------------------------------------
# oracle: the property on the implementation's observation (never calls the model)
# --------------------------------------------------------------------------------------------------
def _child_view(case, obs):
    """per TLS side: plaintext given to the policy child, number of closes, data-after-close flag"""
    v = {}
    for s in obs["final"]:
        data, closes, after = bytearray(), 0, False
        # the child of the ServerTLSLayer of a stack is the ClientTLSLayer: its input is in the trace
        evs = [t[1:] for t in obs["trace"] if t[0] == "child"] if (case["mode"] == "stack" and s == "s") else obs["clog"]
        for e in evs:
            if e[0] == "data" and e[1] == s:
                data += bytes.fromhex(e[2])
                if closes:
                    after = True
            elif e[0] == "close" and e[1] == s:
                closes += 1
        v[s] = (bytes(data), closes, after)
    return v


def _child_sent(case, obs, s):
    """plaintext the policy child asked to send on side s (from the trace in single mode, recomputed from the
    policy and the child log in stack mode)"""
    pol = case["pol"]
    out = bytearray()
    for e in obs["clog"]:
        if e[0] == "start":
            cmds = pol["start"]
        elif e[0] == "data":
            m = pol["data"].get(e[1], "ignore")
            cmds = [["send", e[1], e[2]]] if m == "echo" else ([["send", "s" if e[1] == "c" else "c", e[2]]] if m == "relay" else [])
        elif e[0] == "close":
            cmds = pol["close"].get(e[1], [])
        elif e[0] == "opened":
            cmds = pol["opened"]
        elif e[0] == "other":
            cmds = pol["other"].get(str(e[1]), [])
        else:
            cmds = []
        for c in cmds:
            if c[0] == "send" and c[1] == s:
                out += bytes.fromhex(c[2])
    return bytes(out)


def oracle(case, obs):
    v = []
    view = _child_view(case, obs)
    crash = obs.get("crash")
    for s, p in obs["peers"].items():
        if s not in obs["final"]:
            continue
        data, closes, after = view[s]
        dirty = p["dirty"] or bool(p["errors"])
        sent = bytes.fromhex(p["sent"])
        # close delivered at most once, and nothing after it
        if closes > 1:
            v.append({"key": "close-twice", "what": f"child received ConnectionClosed({s}) {closes} times"})
        if after:
            v.append({"key": "data-after-close", "what": f"child received DataReceived({s}) after ConnectionClosed({s})"})
        if crash:
            continue
        established = s in obs["hs_done"] and obs["final"][s] in ("OPEN", "CLOSED")
        # TCP close of an established tunnel is always reported, exactly once
        if s in obs["tcp_closed"] and obs["close_state"].get(s) == "OPEN" and closes == 0:
            v.append({"key": "close-missing", "what": f"TCP close of {s} after the handshake but child received {closes} ConnectionClosed"})
        if dirty or not p["done"] or not established:
            continue
        # inbound transparency
        if p["undelivered"] == 0 and s not in obs["tcp_closed"]:
            if data != sent:
                v.append({"key": "inbound-bytes", "what": f"peer {s} sent {len(sent)} plaintext bytes, child received {len(data)} (or different bytes)"})
        elif not sent.startswith(data):
            v.append({"key": "inbound-bytes", "what": f"child received bytes on {s} that are not a prefix of what the peer sent"})
        # outbound transparency
        want = _child_sent(case, obs, s)
        if bytes.fromhex(p["got"]) != want:
            v.append({"key": "outbound-bytes", "what": f"child sent {len(want)} bytes on {s}, peer decrypted {len(bytes.fromhex(p['got']))} (or different bytes)"})
    # events that pass through the layers (Start, injected events) reach the child in arrival order, each at most
    # once; all of them once every tunnel is established
    pt = lambda l: [e for e in l if e[0] in ("start", "other")]
    fed_pt, got_pt = pt(obs["fed"]), pt(obs["clog"])
    it = iter(fed_pt)
    if not all(any(e == f for f in it) for e in got_pt):
        v.append({"key": "event-order", "what": f"child received pass-through events {got_pt} but they arrived as {fed_pt}"})
    elif (not crash and got_pt != fed_pt and all(st in ("OPEN", "INACTIVE") for st in obs["final"].values())
          and not any(t[:3] == ["cmd", "hook", "fail"] for t in obs["trace"])):
        v.append({"key": "event-lost", "what": f"child received pass-through events {got_pt} of {fed_pt} although no tunnel is establishing"})
    if crash:
        dirty_any = any(p["dirty"] or p["errors"] for p in obs["peers"].values())
        if crash[1] == "SendRaise" and crash[0] not in obs["hs_done"]:
            pass   # the child sent on a connection whose handshake is not finished: outside the property
        elif crash[1] == "SendRaise" and dirty_any:
            v.append({"key": "send-after-tls-error-crash", "what": "SendData after a TLS record error: sendall raises SSL.Error, which send_data does not catch"})
        elif crash[1] in ("NoTls", "AssertTls"):
            pass   # child used a connection without TLS object / reopened an established one: outside the property
        else:
            v.append({"key": "crash-" + str(crash[1]), "what": f"exception escaped the layer: {crash}"})
    return v


def nontrivial(case, obs):
    return bool(obs["hs_done"]) and any(e[0] in ("data", "close") for e in obs["clog"])


def classify(case, obs):
    tags = ["mode=" + case["mode"]]
    for s in sorted(obs["final"]):
        tags.append(f"ver-{s}={case['ver'][s]}")
        tags.append(f"final-{s}={obs['final'][s]}")
    if obs.get("crash"):
        tags.append("crash=" + str(obs["crash"][1]))
    v = _child_view(case, obs)
    tags.append("child-data" if any(d for d, _, _ in v.values()) else "no-child-data")
    if any(c for _, c, _ in v.values()):
        tags.append("child-close")
    if any(p["dirty"] for p in obs["peers"].values()):
        tags.append("adversarial")
    if any(c[0] == "recv" and c[1] == "err" for sc in obs["scripts"].values() for c in sc):
        tags.append("recv-error")
    if any(c[0] == "recv" and c[1] == "zero" for sc in obs["scripts"].values() for c in sc):
        tags.append("close-notify")
    if any(e[0] == "opened" for e in obs["clog"]):
        tags.append("opened-" + ("err" if any(e[0] == "opened" and e[2] for e in obs["clog"]) else "ok"))
    nseg = sum(1 for e in obs["fed"] if e[0] == "data")
    tags.append("segments=" + ("0" if nseg == 0 else "1-5" if nseg <= 5 else "6-15" if nseg <= 15 else "16+"))
    return tags
