"""C07 — Body size limits are enforced and streamed bodies are relayed exactly
(mitmproxy/proxy/layers/http/__init__.py HttpStream, proxy/layers/http/_http1.py, utils/human.py)."""
from lib.coqterm import cbool, cbytes, clist, copt, cN, cZ, hx, unhx

ID = "C07"
QUICK_N = 3000
THOROUGH_N = 24000
SHARD = 250
RULE = ("10% operation sequences on a real BufferedH2Connection (1-3 streams, stream window 0-30, connection window 0-50 or default, sends of 0-40 bytes, window updates of 1-200, then re-opened in small steps until drained), 6% bodies relayed by a real HttpLayer over an HTTP/2 leg (h2 client or h2 upstream, INITIAL_WINDOW_SIZE 0-16, updates of 1-9, stream callables); of the rest: 85% exchanges through a real HttpLayer (regular mode, HTTP/1.1, one POST): body_size_limit / stream_large_bodies "
        "from a dictionary of size strings (unset, empty, small ints, signs, underscores, spaces, k suffix, invalid), "
        "store_streamed_bodies, request and response bodies whose total sizes sit on and around both thresholds "
        "(t-1, t, t+1, 2t+1, 0, 1, random <= 40) cut into random chunkings (whole, 1-byte, random), framing "
        "Content-Length / chunked / none / read-until-close, requestheaders/responseheaders policies that leave, clear, "
        "set True or install one of 7 stream callables (identity, drop-all, double, split, drop-odd, hold-back, iterator), "
        "Expect: 100-continue, failing server connection, truncated bodies, and response segments interleaved with a "
        "still-streaming request; 15% parse_size strings from a token dictionary. Non-trivial = a limit or streaming "
        "decision was taken (abort, early/late streaming, callable applied) or parse_size saw a non-plain-integer; "
        "distinct by canonical JSON.")
TRUSTED = ["Coq 8.16.1 kernel (coqc), vm_compute for case evaluation",
           "harness/props/C07.py (wire encoding of the generated chunks, trace canonicalisation) and Corr/C07.v",
           "heads reduced to framing: expected_http_body_size = Model.HttpBody.expected_size on the generated heads "
           "(Content-Length n / chunked / none / until-close); tied by correspondence",
           "h11 readers deliver one Data event per harness segment (segments are chunk-aligned); tied by correspondence "
           "through the per-step buffer lengths and the chunk boundaries of streamed output",
           "Python int() modelled for ASCII text only (Model.HttpBody.py_int)",
           "Model/Http1Msg.v emit_chunk, Model/Rfc9112.v reference chunked decoder (C01)",
           "hyper-h2 reduced to: super().send_data writes one DATA frame and lowers stream and connection window by its "
           "length; local_flow_control_window = min of both (Model/H2SendBuf.v), tied by correspondence"]
ASSUMPTIONS = ["hooks and GetHttpConnection complete before the next event reaches the stream (no events queued while paused)",
               "HTTP/1 on both sides; HTTP/2 flow-control buffering (BufferedH2Connection) is outside the bound",
               "addons only assign message.stream in requestheaders/responseheaders; no kill, no replaced response, no trailers"]
COQ_PRELUDE = "From MV Require Import Model.HttpBody Model.H2SendBuf.\nFrom Coq Require Import ZArith NArith.\n"

CALLABLES = ["KIdent", "KDropAll", "KDouble", "KSplit", "KDropOdd", "KHold", "KIter"]
SIZE_STRS = [None, None, None, "", "0", "1", "2", "3", "4", "5", "6", "8", "10", "12", "16", "20", "33", "1k", "-1",
             " 7", "7 ", "1_0", "+4", "007", "0b", "9b"]
BAD_SIZES = ["x", "k", "1kb", "1.5", "1K", "4 k", "_1", "1__0", "0x10", "--1"]
PS_TOKENS = ["", "0", "1", "9", "12", "007", "_", "__", "+", "-", " ", "\t", "\n", "\x0b", "\x0c", "\r", "\x1c", "\x1f",
             "b", "k", "m", "g", "t", "K", "M", "kb", "kk", ".", "e", "x", "0x", "1_0", "1__0", "_1", "1_", "3k", "5m",
             "2g", "1t", "10b", "-2k", "+3m", " 4k", "4k ", "4 k", "1.5k", "\x00", "a"]


# ------------------------------------------------------------------ generator
def _partition(rng, data):
    n = len(data)
    if n == 0:
        return []
    mode = rng.below(4)
    if mode == 0:
        return [data]
    if mode == 1 and n <= 12:
        return [data[i:i + 1] for i in range(n)]
    out, i = [], 0
    while i < n:
        k = rng.randint(1, max(1, min(n - i, rng.choice([1, 2, 3, 5, 9, 40]))))
        out.append(data[i:i + k])
        i += k
    return out


def _size(rng, opts):
    cands = [0, 1, 2, rng.randint(0, 40)]
    for o in opts:
        try:
            t = int(o) if o is not None else None
        except ValueError:
            t = None
        if t is not None and 0 <= t <= 40:
            cands += [max(0, t - 1), t, t + 1, t + 1, 2 * t + 1]
    return rng.choice(cands)


def _policy(rng):
    r = rng.random()
    if r < 0.45:
        return None
    if r < 0.55:
        return False
    if r < 0.67:
        return True
    return rng.choice(CALLABLES)


def _body(rng, opts, framings):
    size = _size(rng, opts)
    data = rng.bytes(size, alphabet=b"abcdefghijklmnopqrstuvwxyz0123456789")
    fr = rng.choice(framings)
    if fr == "none" and size:
        fr = "len"
    chunks = _partition(rng, data)
    complete = not rng.chance(0.08)
    if not complete and chunks:
        chunks = chunks[:rng.below(len(chunks))]
    return {"fr": fr, "n": size, "chunks": [hx(c) for c in chunks], "complete": complete}


def gen_run(rng):
    bad = rng.chance(0.03)
    lim = rng.choice(BAD_SIZES) if bad and rng.chance(0.5) else rng.choice(SIZE_STRS)
    thr = rng.choice(BAD_SIZES) if bad and lim not in BAD_SIZES else rng.choice(SIZE_STRS)
    if rng.chance(0.15):
        lim = None
    if rng.chance(0.15):
        thr = None
    opts = [lim, thr]
    req = _body(rng, opts, ["len", "len", "chunked", "chunked", "none"])
    resp = _body(rng, opts, ["len", "len", "chunked", "chunked", "close"])
    if resp["fr"] == "none":
        resp["fr"] = "len"
    case = {"k": "run", "limit": lim, "stream": thr, "store": rng.chance(0.5),
            "pq": _policy(rng), "ps": _policy(rng), "ok": not rng.chance(0.06),
            "e100": rng.chance(0.12), "req": req, "resp": resp}
    # schedule: 'q' = next client segment, 's' = next server segment
    nq = 1 + len(req["chunks"]) + (1 if req["fr"] == "chunked" and req["complete"] else 0)
    ns = 1 + len(resp["chunks"]) + (1 if resp["fr"] in ("chunked", "close") and resp["complete"] else 0)
    if rng.chance(0.3):
        # interleave: the response may start once the request head and k chunks are in
        k = rng.randint(1, nq)
        rest = ["q"] * (nq - k) + ["s"] * ns
        rng.shuffle(rest)
        # keep relative order inside each side (shuffle only decides the merge)
        sched = ["q"] * k + rest
    else:
        sched = ["q"] * nq + ["s"] * ns
    case["sched"] = "".join(sched)
    return case


def gen_h2buf(rng):
    """operations on a real BufferedH2Connection: small windows, several chunks buffered per stream, window
    updates smaller than the buffered chunks"""
    n = rng.choice([1, 1, 2, 2, 3])
    w0 = rng.choice([0, 1, 2, 3, 5, 8, 13, 30])
    c0 = rng.choice([65535, 65535, 0, 1, 4, 9, 20, 50])
    ops, ended = [], set()
    for _ in range(rng.randint(2, 14)):
        r = rng.random()
        i = rng.below(n)
        if r < 0.55:
            if i in ended:
                continue
            es = rng.chance(0.08)
            ops.append(["send", i, hx(rng.bytes(rng.choice([0, 1, 2, 3, 5, 9, 17, 40]), alphabet=b"abcdefghijklmnopqrstuvwxyz0123456789")), es])
            if es:
                ended.add(i)
        elif r < 0.62:
            if i not in ended:
                ops.append(["end", i]); ended.add(i)
        elif r < 0.85:
            ops.append(["wins", i, rng.choice([1, 1, 2, 3, 4, 7, 12, 50])])
        else:
            ops.append(["winc", rng.choice([1, 2, 3, 5, 8, 30, 200])])
    return {"k": "h2buf", "n": n, "w0": w0, "c0": c0, "step": rng.choice([1, 2, 3, 4, 7, 11]), "ops": ops}


def gen_h2e2e(rng):
    """a body relayed over an HTTP/2 leg by a real HttpLayer: h2 client (response direction) or h2 server (request)"""
    direction = rng.choice(["resp", "resp", "req"])
    size = rng.choice([1, 5, 12, 30, 60, 120])
    data = rng.bytes(size, alphabet=b"abcdefghijklmnopqrstuvwxyz0123456789")
    chunks = _partition(rng, data)
    pol = rng.choice([None, True, True] + CALLABLES) if direction == "resp" else rng.choice([True, True] + CALLABLES)
    return {"k": "h2e2e", "dir": direction, "w0": rng.choice([0, 1, 3, 7, 16]), "step": rng.choice([1, 2, 3, 5, 9]),
            "chunks": [hx(c) for c in chunks], "thr": rng.choice([None, None, "4", "20"]), "store": rng.chance(0.5),
            "pol": pol, "fr": "chunked" if isinstance(pol, str) else rng.choice(["len", "chunked"])}


def gen(rng, n, tier):
    out = []
    for _ in range(n):
        r0 = rng.random()
        if r0 < 0.10:
            out.append(gen_h2buf(rng))
            continue
        if r0 < 0.16:
            out.append(gen_h2e2e(rng))
            continue
        if rng.chance(0.15):
            k = rng.randint(0, 4)
            s = "".join(rng.choice(PS_TOKENS) for _ in range(k))
            if rng.chance(0.05):
                s = None
            elif rng.chance(0.3):
                s = str(rng.randint(0, 5000)) + rng.choice(["", "b", "k", "m", "g", "t", " ", "K"])
            out.append({"k": "size", "s": s})
        else:
            out.append(gen_run(rng))
    return out


# ------------------------------------------------------------------ implementation
def setup_impl():
    global http, HTTPMode, human, Driver
    from mitmproxy.proxy.layers import http
    from mitmproxy.proxy.layers.http import HTTPMode
    from mitmproxy.utils import human
    from lib.sansio import Driver


def make_callable(name):
    """fresh instance of the named stream callable (mirrors Corr/C07.v call)"""
    st = {"held": b"", "n": 0}
    if name == "KIdent":
        return lambda d: d
    if name == "KDropAll":
        return lambda d: b""
    if name == "KDouble":
        return lambda d: d + d
    if name == "KSplit":
        return lambda d: [d[:len(d) // 2], d[len(d) // 2:]]
    if name == "KDropOdd":
        def f(d):
            n = st["n"]
            st["n"] += 1
            return b"" if n % 2 == 0 else d
        return f
    if name == "KHold":
        def g(d):
            if d == b"":
                out, st["held"] = st["held"], b""
                return out
            data = st["held"] + d
            st["held"] = data[-1:]
            return data[:-1]
        return g
    if name == "KIter":
        return lambda d: iter([d])
    raise ValueError(name)


def _attr(p):
    if p is None or isinstance(p, bool):
        return p
    return make_callable(p)


def _fr_header(b):
    if b["fr"] == "len":
        return b"Content-Length: %d\r\n" % b["n"]
    if b["fr"] == "chunked":
        return b"Transfer-Encoding: chunked\r\n"
    return b""


def _segments(b, is_req, e100=False):
    """wire segments and the matching model steps for one message"""
    if is_req:
        head = b"POST http://example.com/p HTTP/1.1\r\nHost: example.com\r\n" + _fr_header(b) + \
               (b"Expect: 100-continue\r\n" if e100 else b"") + b"\r\n"
        segs = [(head, ("WReqHead", b["fr"], b["n"], e100))]
    else:
        head = b"HTTP/1.1 200 OK\r\n" + _fr_header(b) + b"\r\n"
        segs = [(head, ("WRespHead", b["fr"], b["n"]))]
    for c in b["chunks"]:
        c = unhx(c)
        raw = b"%x\r\n%s\r\n" % (len(c), c) if b["fr"] == "chunked" else c
        segs.append((raw, ("WReqChunk" if is_req else "WRespChunk", c)))
    if b["complete"]:
        if b["fr"] == "chunked":
            segs.append((b"0\r\n\r\n", ("WReqLast" if is_req else "WRespLast",)))
        elif b["fr"] == "close" and not is_req:
            segs.append((None, ("WRespClose",)))
    return segs


H2_HEADERS = [(b":method", b"GET"), (b":scheme", b"http"), (b":path", b"/"), (b":authority", b"example.com")]


def run_h2buf(case):
    """drive a real BufferedH2Connection (server side) against a plain hyper-h2 client"""
    import h2.config, h2.connection, h2.events, h2.settings
    from mitmproxy.proxy.layers.http._http_h2 import BufferedH2Connection
    srv = BufferedH2Connection(h2.config.H2Configuration(client_side=False, header_encoding=False))
    cli = h2.connection.H2Connection(h2.config.H2Configuration(client_side=True, header_encoding=False))
    frames, ended = [], set()

    def pump():
        while True:
            a = cli.data_to_send()
            if a:
                srv.receive_data(a)
            b = srv.data_to_send()
            if b:
                for ev in cli.receive_data(b):
                    if isinstance(ev, h2.events.DataReceived):
                        frames.append([ev.stream_id, hx(ev.data), ev.stream_ended is not None])
                        if ev.stream_ended is not None:
                            ended.add(ev.stream_id)
                    elif isinstance(ev, h2.events.StreamEnded):
                        ended.add(ev.stream_id)
            if not a and not b:
                return

    srv.initiate_connection(); cli.initiate_connection(); pump()
    c0, sid = case["c0"], 1
    if c0 < 65535:
        # use up the connection window on a stream of its own (the client never acknowledges the data)
        cli.send_headers(sid, H2_HEADERS, end_stream=True); pump()
        srv.send_headers(sid, [(b":status", b"200")])
        srv.send_data(sid, b"x" * (65535 - c0), end_stream=True); pump()
        sid += 2
    cli.update_settings({h2.settings.SettingCodes.INITIAL_WINDOW_SIZE: case["w0"]}); pump()
    sids = []
    for _ in range(case["n"]):
        cli.send_headers(sid, H2_HEADERS, end_stream=True); pump()
        srv.send_headers(sid, [(b":status", b"200")]); pump()
        sids.append(sid); sid += 2
    frames.clear()
    assert srv.outbound_flow_control_window == c0 and srv.max_outbound_frame_size == 16384
    fed, out, closed_local = [], [], set()

    def do(op):
        k = op[0]
        if k in ("send", "end"):
            s = sids[op[1]]
            if s in closed_local:
                return
            if k == "send":
                srv.send_data(s, unhx(op[2]), end_stream=op[3])
                if op[3]:
                    closed_local.add(s)
            else:
                srv.end_stream(s); closed_local.add(s)
            rec = [k, s] + list(op[2:])
        elif k == "wins":
            s = sids[op[1]]
            if s in ended:
                return
            cli.increment_flow_control_window(op[2], s); rec = [k, s, op[2]]
        else:
            cli.increment_flow_control_window(op[1]); rec = [k, op[1]]
        pump()
        fed.append(rec); out.append(list(frames)); frames.clear()

    for op in case["ops"]:
        do(op)
    n_random = len(fed)
    # finish: end every stream, then re-open the windows in small steps until everything has been written
    for i in range(len(sids)):
        do(["end", i])
    for _ in range(300):
        if all(s in ended for s in sids):
            break
        do(["winc", case["step"]])
        for i in range(len(sids)):
            do(["wins", i, case["step"]])
    bufs = [[s, [[hx(c.data), bool(c.end_stream)] for c in q]] for s, q in srv.stream_buffers.items()]
    return {"sids": sids, "fed": fed, "out": out, "bufs": bufs, "cwin": srv.outbound_flow_control_window,
            "drained": all(s in ended for s in sids), "n_random": n_random}


def run_h2e2e(case):
    """a body relayed by a real HttpLayer over an HTTP/2 leg whose peer has a small flow-control window"""
    import h2.config, h2.connection, h2.events, h2.settings, h2.exceptions
    resp = case["dir"] == "resp"
    pol = _attr(case["pol"])

    def policy(hook, drv):
        if hook.name == ("responseheaders" if resp else "requestheaders") and pol is not None:
            msg = hook.args()[0].response if resp else hook.args()[0].request
            msg.stream = pol

    def connect(conn, drv):
        if not resp:
            conn.alpn = b"h2"
        return None

    opts = {"store_streamed_bodies": case["store"], "http2_ping_keepalive": 0}
    if case["thr"] is not None:
        opts["stream_large_bodies"] = case["thr"]
    d = Driver(lambda ctx: http.HttpLayer(ctx, HTTPMode.regular), options_overrides=opts, policy=policy, connect=connect,
               client_kwargs={"alpn": b"h2"} if resp else None)
    peer = h2.connection.H2Connection(h2.config.H2Configuration(client_side=resp, header_encoding=False))
    pc = 0 if resp else 1
    st = {"pos": 0, "recv": bytearray(), "ended": False, "reset": False, "late": False, "err": None}

    def pump():
        while True:
            moved = False
            tr = d.trace
            while st["pos"] < len(tr):
                t = tr[st["pos"]]; st["pos"] += 1
                if t[0] == "send" and t[1] == pc:
                    moved = True
                    try:
                        evs = peer.receive_data(bytes.fromhex(t[2]))
                    except h2.exceptions.ProtocolError as e:
                        st["err"] = type(e).__name__; st["reset"] = True
                        return
                    for ev in evs:
                        if isinstance(ev, h2.events.DataReceived):
                            if st["ended"]:
                                st["late"] = True
                            st["recv"] += ev.data
                        elif isinstance(ev, h2.events.StreamEnded):
                            st["ended"] = True
                        elif isinstance(ev, h2.events.StreamReset):
                            st["reset"] = True
            o = peer.data_to_send()
            if o and len(d.conns) > pc and d.crashed is None:
                moved = True
                d.data(pc, o)
            if not moved:
                return

    chunks = [unhx(c) for c in case["chunks"]]
    body = b"".join(chunks)
    frh = (b"Content-Length: %d\r\n" % len(body)) if case["fr"] == "len" else b"Transfer-Encoding: chunked\r\n"
    wire = lambda c: c if case["fr"] == "len" else b"%x\r\n%s\r\n" % (len(c), c)
    d.start()
    if resp:
        peer.initiate_connection()
        peer.update_settings({h2.settings.SettingCodes.INITIAL_WINDOW_SIZE: case["w0"]})
        pump()
        peer.send_headers(1, H2_HEADERS, end_stream=True)
        pump()
        src = 1
        if len(d.conns) < 2:
            return {"fail": "no upstream connection", "crashed": d.crashed[0] if d.crashed else None}
        d.data(1, b"HTTP/1.1 200 OK\r\n" + frh + b"\r\n"); pump()
    else:
        src = 0
        d.data(0, b"POST http://example.com/p HTTP/1.1\r\nHost: example.com\r\n" + frh + b"\r\n")
        if len(d.conns) < 2:
            return {"fail": "no upstream connection", "crashed": d.crashed[0] if d.crashed else None}
        peer.initiate_connection()
        peer.update_settings({h2.settings.SettingCodes.INITIAL_WINDOW_SIZE: case["w0"]})
        pump()
    for c in chunks:
        d.data(src, wire(c)); pump()
    if case["fr"] != "len":
        d.data(src, b"0\r\n\r\n"); pump()
    for _ in range(40 + 4 * len(body)):
        if st["ended"] or st["reset"] or d.crashed:
            break
        try:
            peer.increment_flow_control_window(case["step"], 1)
        except Exception as e:  # the peer's h2 stack refuses: the stream is gone
            st["err"] = type(e).__name__
            break
        pump()
    return {"recv": hx(bytes(st["recv"])), "ended": st["ended"], "reset": st["reset"], "late": st["late"],
            "err": st["err"], "crashed": d.crashed[0] if d.crashed else None}


def run_impl(case):
    if case["k"] == "h2buf":
        return run_h2buf(case)
    if case["k"] == "h2e2e":
        return run_h2e2e(case)
    if case["k"] == "size":
        try:
            v = human.parse_size.__wrapped__(case["s"])
            return {"r": ["none"] if v is None else ["val", str(v)]}
        except ValueError:
            return {"r": ["err"]}
        except Exception as e:  # any other escape is its own observable
            return {"r": ["other", type(e).__name__]}

    box = {"stream": None}
    pq, ps = _attr(case["pq"]), _attr(case["ps"])

    def policy(hook, drv):
        if box["stream"] is None and drv.layer.streams:
            box["stream"] = next(iter(drv.layer.streams.values()))
        if hook.name == "requestheaders" and pq is not None:
            hook.args()[0].request.stream = pq
        if hook.name == "responseheaders" and ps is not None:
            hook.args()[0].response.stream = ps

    def connect(conn, drv):
        return None if case["ok"] else "connection refused"

    opts = {"store_streamed_bodies": case["store"]}
    if case["limit"] is not None:
        opts["body_size_limit"] = case["limit"]
    if case["stream"] is not None:
        opts["stream_large_bodies"] = case["stream"]
    d = Driver(lambda ctx: http.HttpLayer(ctx, HTTPMode.regular), options_overrides=opts, policy=policy, connect=connect)
    d.start()
    qs = _segments(case["req"], True, case["e100"])
    ss = _segments(case["resp"], False)
    fed, bufs, states = [], [], []
    CS = d.CS
    server_dead = False
    for who in case["sched"]:
        if d.crashed:
            break
        if who == "q":
            if not qs:
                continue
            raw, step = qs.pop(0)
            if d.conns[0].state is CS.CLOSED or not (d.conns[0].state & CS.CAN_READ):
                qs = []
                continue
            d.data(0, raw)
        else:
            if not ss or server_dead:
                continue
            raw, step = ss[0]
            if len(d.conns) < 2 or d.conns[1].state is CS.CLOSED or not (d.conns[1].state & CS.CAN_READ) \
                    or not (d.conns[1].state & CS.CAN_WRITE):
                # no (open) server connection at this point: the server cannot have said anything (yet)
                if len(d.conns) >= 2:
                    server_dead = True
                continue
            ss.pop(0)
            if raw is None:
                d.close(1)
            else:
                d.data(1, raw)
        fed.append(list(step[:1]) + [hx(x) if isinstance(x, bytes) else x for x in step[1:]])
        if d.crashed:
            break           # the layer raised: there is no state to observe after this step
        s = box["stream"]
        if s is None:
            bufs.append([0, 0]); states.append(["?", "?"])
        else:
            bufs.append([len(s.request_body_buf), len(s.response_body_buf)])
            states.append([s.client_state.__name__, s.server_state.__name__])
    trace = []
    for t in d.trace:
        if t[0] == "hook":
            trace.append(["hook", t[1]])
        elif t[0] == "open":
            trace.append(["open"])
        elif t[0] == "send":
            raw = bytes.fromhex(t[2])
            if t[1] == 0 and raw[:9] == b"HTTP/1.1 " and raw[9:10] in (b"4", b"5") and b"Server: mitmproxy" in raw:
                trace.append(["errpage", int(raw[9:12])])
            else:
                trace.append(["send", t[1], t[2]])
        elif t[0] == "close":
            trace.append(["halfclose" if t[2] else "close", t[1]])
        elif t[0] == "crash":
            pass
        else:
            trace.append(["other", repr(t)[:80]])
    f = d.flows[0] if d.flows else None
    rc = f.request.raw_content if f is not None and f.request else None
    sc = f.response.raw_content if f is not None and f.response else None
    return {"fed": fed, "trace": trace, "bufs": bufs, "states": states,
            "rc": None if rc is None else hx(rc), "sc": None if sc is None else hx(sc),
            "err": bool(f is not None and f.error), "errmsg": (f.error.msg[:60] if f is not None and f.error else None),
            "live": bool(f is not None and f.live),
            "crashed": d.crashed[0] if d.crashed else None}


# ------------------------------------------------------------------ Coq terms
def _cfr(fr, n):
    return {"len": f"(FLen {cZ(n)})", "chunked": "FChunked", "none": "FNone", "close": "FClose"}[fr]


def _cstep(s):
    k = s[0]
    if k == "WReqHead":
        return f"(WReqHead {_cfr(s[1], s[2])} {cbool(s[3])})"
    if k == "WRespHead":
        return f"(WRespHead {_cfr(s[1], s[2])})"
    if k in ("WReqChunk", "WRespChunk"):
        return f"({k} {cbytes(unhx(s[1]))})"
    return k


def _cattr(p):
    if p is None:
        return "None"
    if p is True:
        return "(Some STrue)"
    if p is False:
        return "(Some SFalse)"
    return "(Some SCall)"


def _cstr(s):
    return copt(s, lambda v: cbytes(v.encode("utf-8")), "bytes")


def _ctitem(t):
    k = t[0]
    if k == "hook":
        return "(THook %s)" % {"requestheaders": "HRequestHeaders", "request": "HRequest",
                               "responseheaders": "HResponseHeaders", "response": "HResponse", "error": "HError"}[t[1]]
    if k == "open":
        return "TOpen"
    if k == "send":
        return f"(TSend {'Client' if t[1] == 0 else 'Server'} {cbytes(unhx(t[2]))})"
    if k == "errpage":
        return f"(TErrPage {cZ(t[1])})"
    if k in ("close", "halfclose"):
        return f"({'TClose' if k == 'close' else 'THalfClose'} {'Client' if t[1] == 0 else 'Server'})"
    # anything the model never produces: make the comparison fail visibly
    return "(TErrPage (-1)%Z)"


def _cop(o):
    k = o[0]
    if k == "send":
        return f"(OSend {cN(o[1])} {cbytes(unhx(o[2]))} {cbool(o[3])})"
    if k == "end":
        return f"(OEnd {cN(o[1])})"
    if k == "wins":
        return f"(OWinS {cN(o[1])} {cZ(o[2])})"
    return f"(OWinC {cZ(o[1])})"


def coq_case(case, obs):
    if case["k"] == "h2e2e":
        return None          # evaluated by the oracle only (real HttpLayer + hyper-h2 peer)
    if case["k"] == "h2buf":
        fr = lambda f: f"(Frame {cN(f[0])} {cbytes(unhx(f[1]))} {cbool(f[2])})"
        ch = lambda c: f"({cbytes(unhx(c[0]))}, {cbool(c[1])})"
        return (f"CH2 {clist([cN(x) for x in obs['sids']], 'N')} {cZ(case['w0'])} {cZ(case['c0'])} "
                f"{clist([_cop(o) for o in obs['fed']], 'op')} "
                f"{clist([clist([fr(f) for f in fs], 'frame') for fs in obs['out']], '(list frame)')} "
                f"{clist(['(%s, %s)' % (cN(k), clist([ch(c) for c in q], 'chunk')) for k, q in obs['bufs']], '(N * list chunk)%type')} "
                f"{cZ(obs['cwin'])}")
    if case["k"] == "size":
        r = obs["r"]
        if r[0] == "other":
            return None
        impl = {"none": "PNone", "err": "PErr"}.get(r[0]) or f"(PVal {cZ(int(r[1]))})"
        return f"CSize {_cstr(case['s'])} {impl}"
    kq = case["pq"] if isinstance(case["pq"], str) else "KIdent"
    ks = case["ps"] if isinstance(case["ps"], str) else "KIdent"
    cfg = (f"(mkConfig {_cstr(case['limit'])} {_cstr(case['stream'])} {cbool(case['store'])} "
           f"{_cattr(case['pq'])} {_cattr(case['ps'])} {cbool(case['ok'])})")
    ob = lambda v: copt(v, lambda h: cbytes(unhx(h)), "bytes")
    return (f"CRun {cfg} {kq} {ks} {clist([_cstep(s) for s in obs['fed']], 'step')} "
            f"{clist([_ctitem(t) for t in obs['trace']], 'titem')} "
            f"{clist([f'({cZ(a)}, {cZ(b)})' for a, b in obs['bufs']], '(Z * Z)%type')} "
            f"{ob(obs['rc'])} {ob(obs['sc'])} {cbool(obs['err'])} {cbool(obs['live'])} {cbool(obs['crashed'] is not None)}")


# ------------------------------------------------------------------ oracle (the property on the implementation)
def _psize(s):
    """independent reading of a size option: int or None (unset); raises ValueError if invalid"""
    if s is None:
        return None
    units = {"b": 1, "k": 1024, "m": 1024 ** 2, "g": 1024 ** 3, "t": 1024 ** 4}
    t = s
    mult = 1
    if t and t[-1] in units:
        try:
            return int(t)
        except ValueError:
            pass
        mult, t = units[t[-1]], t[:-1]
    return int(t) * mult


def _dechunk(raw):
    """strict chunked decoder: returns (body, rest after the last-chunk) or None if malformed/incomplete"""
    body, i = b"", 0
    while True:
        j = raw.find(b"\r\n", i)
        if j < 0:
            return None
        try:
            n = int(raw[i:j], 16)
        except ValueError:
            return None
        i = j + 2
        if n == 0:
            if raw[i:i + 2] != b"\r\n":
                return None
            return body, raw[i + 2:]
        if raw[i + n:i + n + 2] != b"\r\n" or len(raw) < i + n + 2:
            return None
        body += raw[i:i + n]
        i += n + 2


def _apply(name, chunks):
    """reference: the bytes a stream callable turns the chunks into (fresh instance), including the final flush"""
    f = make_callable(name)
    out = b""
    for c in list(chunks) + [b""]:
        r = f(c)
        out += r if isinstance(r, bytes) else b"".join(r)
    return out


def _side(case, obs, req):
    """evaluate the property for one direction; returns violations"""
    v = []
    b = case["req"] if req else case["resp"]
    pol = case["pq"] if req else case["ps"]
    head_kind, chunk_kind = ("WReqHead", "WReqChunk") if req else ("WRespHead", "WRespChunk")
    end_kind = ("WReqLast",) if req else ("WRespLast", "WRespClose")
    fed = obs["fed"]
    if not any(s[0] == head_kind for s in fed):
        return v
    chunks = [unhx(s[1]) for s in fed if s[0] == chunk_kind]
    body = b"".join(chunks)
    fr, n = b["fr"], b["n"]
    L, T = _psize(case["limit"]), _psize(case["stream"])
    who = "request" if req else "response"
    peer = 1 if req else 0
    # ---- when must the body be rejected / streamed?  (abort first, then stream)
    declared = n if fr == "len" else None
    pol_streams = pol is not None and pol is not False
    abort_at = None          # index of the fed step at which the error must have been raised
    streamed = False
    idx_head = next(i for i, s in enumerate(fed) if s[0] == head_kind)
    if declared is not None and declared > 0 and L is not None and declared > L:
        abort_at = idx_head
    elif declared is not None and declared > 0 and T is not None and declared > T and pol is not False:
        streamed = True
    if abort_at is None and pol_streams and not (declared == 0 or fr == "none"):
        streamed = True
    if abort_at is None and not streamed:
        cum = 0
        for i, s in enumerate(fed):
            if s[0] != chunk_kind:
                continue
            cum += len(unhx(s[1]))
            if L is not None and cum > L:
                abort_at = i
                break
            if T is not None and cum > T:
                streamed = True
                break
    # a failed connection or an error on the other side may end the exchange before this side's decision
    states = obs["states"]
    msgs = [t for t in obs["trace"]]
    too_large = obs["errmsg"] is not None and obs["errmsg"].startswith("Request body exceeds" if req else "Response body exceeds")
    if abort_at is not None:
        reached = abort_at < len(states) and (states[abort_at][0 if req else 1] == "state_errored")
        other_err = obs["err"] and not too_large
        if not other_err:
            if not too_large or not reached:
                v.append({"key": "oversized-not-rejected", "what": f"{who} body known to exceed body_size_limit={case['limit']!r} "
                          f"(declared={declared}, fed={len(body)}) but the flow has no body_size_limit error"})
            else:
                if ["hook", "error"] not in msgs:
                    v.append({"key": "no-error-hook", "what": f"oversized {who}: no error hook"})
                if not any(t[0] == "errpage" for t in msgs):
                    if any(t[0] == "send" and t[1] == 0 and unhx(t[2]).startswith(b"HTTP/1.1 100") for t in msgs):
                        v.append({"key": "no-error-response-after-100-continue",
                                  "what": f"oversized {who} after 100 Continue: client connection closed without an error response"})
                    else:
                        v.append({"key": "no-client-error", "what": f"oversized {who}: client received no error response"})
                if ["close", 0] not in msgs:
                    v.append({"key": "client-not-closed", "what": f"oversized {who}: client connection left open"})
                sent = b"".join(unhx(t[2]) for t in msgs if t[0] == "send" and t[1] == peer)
                if req and sent:
                    v.append({"key": "oversized-forwarded", "what": f"oversized request: {len(sent)} bytes were sent to the server"})
                if not req and any(t[0] == "send" and t[1] == 0 and not unhx(t[2]).startswith(b"HTTP/1.1 100") for t in msgs):
                    v.append({"key": "oversized-forwarded", "what": "oversized response: response bytes were sent to the client"})
                if obs["live"]:
                    v.append({"key": "still-live", "what": f"oversized {who}: flow.live still True"})
    elif too_large:
        v.append({"key": "spurious-limit-error", "what": f"{who} body within body_size_limit={case['limit']!r} rejected "
                  f"(declared={declared}, fed={len(body)})"})
    # ---- memory bound: never more than limit + one received chunk (bytes kept on request by store_streamed_bodies excepted)
    if L is not None and L >= 0:
        mx = 0
        for i, s in enumerate(fed):
            if s[0] == chunk_kind:
                mx = max(mx, len(unhx(s[1])))
            held = obs["bufs"][i][0 if req else 1]
            st_name = states[i][0 if req else 1]
            if case["store"] and (st_name.startswith("state_stream") or streamed):
                continue
            if held > L + mx:
                v.append({"key": "buffer-exceeds-limit", "what": f"{who}_body_buf holds {held} bytes after step {i}, limit {L} + largest chunk {mx}"})
                break
    # ---- streamed without buffering
    if not case["store"]:
        for i, s in enumerate(fed):
            if states[i][0 if req else 1].startswith("state_stream") and obs["bufs"][i][0 if req else 1] != 0:
                v.append({"key": "streamed-body-buffered", "what": f"{who} is being streamed but {obs['bufs'][i]} bytes are buffered (store_streamed_bodies off)"})
                break
    # ---- exact relay
    complete = any(s[0] in end_kind for s in fed) or (fr == "len" and len(body) == n) or fr == "none"
    hook_done = ["hook", "request" if req else "response"] in msgs
    if complete and hook_done and abort_at is None and not obs["crashed"] and (not req or case["ok"]):
        if req and ["hook", "error"] in msgs and not any(t[0] == "send" and t[1] == 1 for t in msgs):
            return v
        use_callable = isinstance(pol, str) and not (declared == 0 or fr == "none")
        want = _apply(pol, chunks) if use_callable else body
        sent = b"".join(unhx(t[2]) for t in msgs if t[0] == "send" and t[1] == peer)
        if not req and sent.startswith(b"HTTP/1.1 100"):
            sent = sent[sent.index(b"\r\n\r\n") + 4:]
        if b"\r\n\r\n" not in sent:
            if not (not req and any(t[0] == "errpage" for t in msgs)):
                v.append({"key": "nothing-delivered", "what": f"{who} completed but no message head reached the peer"})
            return v
        payload = sent[sent.index(b"\r\n\r\n") + 4:]
        resp_aborted = (not req) and obs["err"]
        if req and obs["err"] and not too_large:
            pass
        if fr == "chunked":
            # the response last-chunk is only due once the request is complete, too
            need_end = req or any(s[0] == "WReqLast" for s in fed) or case["req"]["fr"] != "chunked" and \
                (case["req"]["fr"] == "none" or sum(len(unhx(s[1])) for s in fed if s[0] == "WReqChunk") == case["req"]["n"])
            dec = _dechunk(payload)
            if dec is None:
                if need_end and not resp_aborted:
                    v.append({"key": "bad-chunked-relay", "what": f"{who}: bytes sent to the peer are not a complete chunked body: {payload[:60]!r}"})
            else:
                got, rest = dec
                if rest:
                    v.append({"key": "empty-chunk-terminates-body",
                              "what": f"{who}: a zero-length chunk ends the chunked body early; {len(rest)} more bytes follow the last-chunk"})
                elif got != want:
                    v.append({"key": "relay-mismatch", "what": f"{who}: peer decodes {got[:40]!r}, expected {want[:40]!r}"})
        else:
            if payload != want:
                v.append({"key": "relay-mismatch", "what": f"{who}: peer received {payload[:40]!r}, expected {want[:40]!r}"})
        # ---- what the flow keeps
        kept = obs["rc"] if req else obs["sc"]
        from_start = streamed and (pol_streams or (declared is not None and T is not None and declared > T and pol is not False))
        if streamed:
            exp_kept = hx(want) if case["store"] else None
        else:
            exp_kept = hx(body)
        if kept != exp_kept:
            v.append({"key": "stored-body-mismatch", "what": f"{who}: flow keeps {kept!r}, expected {exp_kept!r} "
                      f"(streamed={streamed}, store_streamed_bodies={case['store']})"})
    return v


def oracle_h2buf(case, obs):
    """the send buffer is a queue: per stream, the DATA payloads written are at every moment a prefix of the data
    handed to send_data, END_STREAM comes on the last frame only, and once the windows have been re-opened everything
    has been written"""
    v = []
    queued = {s: b"" for s in obs["sids"]}
    written = {s: b"" for s in obs["sids"]}
    ended = set()
    for op, frames in zip(obs["fed"], obs["out"]):
        if op[0] == "send":
            queued[op[1]] += unhx(op[2])
        for sid, data, es in frames:
            if sid in ended:
                v.append({"key": "h2-data-after-end-stream", "what": f"stream {sid}: DATA frame written after END_STREAM"})
                return v
            written[sid] += unhx(data)
            if es:
                ended.add(sid)
            if not queued[sid].startswith(written[sid]):
                v.append({"key": "h2-send-buffer-reorders",
                          "what": f"stream {sid}: DATA written {written[sid][-24:]!r} is not a prefix of the data queued "
                                  f"{queued[sid][:40]!r} (after {op})"})
                return v
    if not obs["drained"]:
        v.append({"key": "h2-send-buffer-stuck", "what": "streams not ended although the windows were re-opened 300 times"})
        return v
    for s in obs["sids"]:
        if written[s] != queued[s]:
            v.append({"key": "h2-send-buffer-reorders",
                      "what": f"stream {s}: END_STREAM written after {len(written[s])} of {len(queued[s])} queued bytes"})
            break
    if obs["bufs"]:
        v.append({"key": "h2-send-buffer-leftover", "what": f"stream_buffers not empty after all streams ended: {obs['bufs']!r}"[:200]})
    return v


def oracle_h2e2e(case, obs):
    if obs.get("fail") or obs.get("crashed"):
        return [{"key": "h2-relay-failed", "what": f"HTTP/2 leg: {obs.get('fail') or obs.get('crashed')}"}]
    chunks = [unhx(c) for c in case["chunks"]]
    want = _apply(case["pol"], chunks) if isinstance(case["pol"], str) else b"".join(chunks)
    got = unhx(obs["recv"])
    who = "response to an HTTP/2 client" if case["dir"] == "resp" else "request to an HTTP/2 server"
    if obs["reset"] or obs["err"]:
        return [{"key": "h2-relay-mismatch", "what": f"{who}: stream reset / protocol error {obs['err']} after {len(got)} bytes"}]
    if got != want or not obs["ended"] or obs["late"]:
        return [{"key": "h2-relay-mismatch",
                 "what": f"{who} (window {case['w0']}, updates of {case['step']}): peer reassembled {len(got)} bytes "
                         f"{got[:40]!r}, expected {len(want)} bytes {want[:40]!r}; END_STREAM seen={obs['ended']}, data after it={obs['late']}"}]
    return []


def oracle(case, obs):
    if case["k"] == "h2buf":
        return oracle_h2buf(case, obs)
    if case["k"] == "h2e2e":
        return oracle_h2e2e(case, obs)
    if case["k"] == "size":
        r = obs["r"]
        if r[0] == "other":
            return [{"key": "parse-size-other-exception", "what": f"parse_size({case['s']!r}) raised {r[1]}"}]
        # parse_size agrees with an independent reading for plain non-negative sizes
        s = case["s"]
        if s is not None and s.isascii() and s[:-1].isdigit() and s[-1:] in "bkmgt0123456789" and s[-1:] != "":
            try:
                want = _psize(s)
            except ValueError:
                want = "err"
            got = int(r[1]) if r[0] == "val" else r[0]
            if s and want != got and want is not None:
                return [{"key": "parse-size-value", "what": f"parse_size({s!r}) = {got}, expected {want}"}]
        return []
    if obs["crashed"]:
        try:
            _psize(case["limit"]); _psize(case["stream"])
        except ValueError:
            return []       # invalid option strings are rejected by Proxyserver.configure; the layer raising is expected
        return [{"key": "layer-crash", "what": f"HttpLayer raised {obs['crashed']}"}]
    try:
        _psize(case["limit"]); _psize(case["stream"])
    except ValueError:
        return []
    return _side(case, obs, True) + _side(case, obs, False)


def nontrivial(case, obs):
    if case["k"] == "h2buf":
        # something had to wait in the send buffer: some operation other than a send wrote frames
        return any(fs and op[0] in ("wins", "winc") for op, fs in zip(obs["fed"], obs["out"]))
    if case["k"] == "h2e2e":
        return len(case["chunks"]) >= 1 and not obs.get("fail")
    if case["k"] == "size":
        s = case["s"]
        return s is not None and not s.isdigit()
    tr = obs["trace"]
    return (["hook", "error"] in tr or any("stream" in a or "stream" in b for a, b in obs["states"])
            or isinstance(case["pq"], str) or isinstance(case["ps"], str))


def classify(case, obs):
    if case["k"] == "h2buf":
        tags = ["h2buf", f"h2buf-streams={case['n']}", "h2buf-connwin-small" if case["c0"] < 65535 else "h2buf-connwin-default"]
        split = any(op[0] in ("wins", "winc") and fs and not fs[-1][2] and len(unhx(fs[-1][1])) > 0 for op, fs in zip(obs["fed"], obs["out"]))
        if split:
            tags.append("h2buf-partial-flush")
        if any(len(fs) > 1 for fs in obs["out"]):
            tags.append("h2buf-multi-frame-flush")
        return tags
    if case["k"] == "h2e2e":
        return ["h2e2e", "h2e2e-" + case["dir"], "h2e2e-" + ("callable" if isinstance(case["pol"], str) else str(case["pol"]))]
    if case["k"] == "size":
        return ["size", "size-" + obs["r"][0]]
    tags = ["run", "req-" + case["req"]["fr"], "resp-" + case["resp"]["fr"]]
    if obs["crashed"]:
        tags.append("crash")
    if obs["errmsg"]:
        m = obs["errmsg"]
        tags.append("abort-req" if m.startswith("Request body") else "abort-resp" if m.startswith("Response body") else "other-error")
    sts = obs["states"]
    if any(a == "state_stream_request_body" for a, _ in sts):
        tags.append("req-streamed")
    if any(b == "state_stream_response_body" for _, b in sts):
        tags.append("resp-streamed")
    if any(a == "state_consume_request_body" for a, _ in sts) and any(a == "state_stream_request_body" for a, _ in sts):
        tags.append("req-late-switch")
    if any(b == "state_consume_response_body" for _, b in sts) and any(b == "state_stream_response_body" for _, b in sts):
        tags.append("resp-late-switch")
    if isinstance(case["pq"], str):
        tags.append("q-" + case["pq"])
    if isinstance(case["ps"], str):
        tags.append("s-" + case["ps"])
    if case["store"]:
        tags.append("store")
    if case["e100"]:
        tags.append("expect100")
    if not case["ok"]:
        tags.append("connect-fails")
    if "s" in case["sched"].split("q")[0:-1] and False:
        tags.append("interleaved")
    sch = case["sched"]
    if "sq" in sch:
        tags.append("interleaved")
    if not case["req"]["complete"] or not case["resp"]["complete"]:
        tags.append("truncated")
    return tags
