"""C07 — Body size limits are enforced and streamed bodies are relayed exactly
(mitmproxy/proxy/layers/http/__init__.py HttpStream, proxy/layers/http/_http1.py, utils/human.py)."""
from lib.coqterm import cbool, cbytes, clist, copt, cZ, hx, unhx

ID = "C07"
QUICK_N = 3000
THOROUGH_N = 50000
SHARD = 250
RULE = ("85% exchanges through a real HttpLayer (regular mode, HTTP/1.1, one POST): body_size_limit / stream_large_bodies "
        "from a dictionary of size strings (unset, empty, small ints, signs, underscores, spaces, k suffix, invalid), "
        "store_streamed_bodies, request and response bodies whose total sizes sit on and around both thresholds "
        "(t-1, t, t+1, 2t+1, 0, 1, random <= 40) cut into random chunkings (whole, 1-byte, random), framing "
        "Content-Length / chunked / none / read-until-close, requestheaders/responseheaders policies that leave, clear, "
        "set True or install one of 7 stream callables (identity, drop-all, double, split, drop-odd, hold-back, iterator), "
        "Expect: 100-continue, failing server connection, truncated bodies, and response segments interleaved with a "
        "still-streaming request; 15% parse_size strings from a token dictionary. Non-trivial = a limit or streaming "
        "decision was taken (abort, early/late streaming, callable applied) or parse_size saw a non-plain-integer; "
        "distinct by canonical JSON.")
TRUSTED = ["Coq 8.16.1 kernel (coqc), vm_compute for case evaluation",
           "harness/props/C07.py (wire encoding of the generated chunks, trace canonicalisation) and Corr/C07.v",
           "heads reduced to framing: expected_http_body_size = Model.HttpBody.expected_size on the generated heads "
           "(Content-Length n / chunked / none / until-close); tied by correspondence",
           "h11 readers deliver one Data event per harness segment (segments are chunk-aligned); tied by correspondence "
           "through the per-step buffer lengths and the chunk boundaries of streamed output",
           "Python int() modelled for ASCII text only (Model.HttpBody.py_int)",
           "Model/Http1Msg.v emit_chunk, Model/Rfc9112.v reference chunked decoder (C01)"]
ASSUMPTIONS = ["hooks and GetHttpConnection complete before the next event reaches the stream (no events queued while paused)",
               "HTTP/1 on both sides; HTTP/2 flow-control buffering (BufferedH2Connection) is outside the bound",
               "addons only assign message.stream in requestheaders/responseheaders; no kill, no replaced response, no trailers"]
COQ_PRELUDE = "From MV Require Import Model.HttpBody.\nFrom Coq Require Import ZArith.\n"

CALLABLES = ["KIdent", "KDropAll", "KDouble", "KSplit", "KDropOdd", "KHold", "KIter"]
SIZE_STRS = [None, None, None, "", "0", "1", "2", "3", "4", "5", "6", "8", "10", "12", "16", "20", "33", "1k", "-1",
             " 7", "7 ", "1_0", "+4", "007", "0b", "9b"]
BAD_SIZES = ["x", "k", "1kb", "1.5", "1K", "4 k", "_1", "1__0", "0x10", "--1"]
PS_TOKENS = ["", "0", "1", "9", "12", "007", "_", "__", "+", "-", " ", "\t", "\n", "\x0b", "\x0c", "\r", "\x1c", "\x1f",
             "b", "k", "m", "g", "t", "K", "M", "kb", "kk", ".", "e", "x", "0x", "1_0", "1__0", "_1", "1_", "3k", "5m",
             "2g", "1t", "10b", "-2k", "+3m", " 4k", "4k ", "4 k", "1.5k", "\x00", "a"]


# ------------------------------------------------------------------ generator
def _partition(rng, data):
    n = len(data)
    if n == 0:
        return []
    mode = rng.below(4)
    if mode == 0:
        return [data]
    if mode == 1 and n <= 12:
        return [data[i:i + 1] for i in range(n)]
    out, i = [], 0
    while i < n:
        k = rng.randint(1, max(1, min(n - i, rng.choice([1, 2, 3, 5, 9, 40]))))
        out.append(data[i:i + k])
        i += k
    return out


def _size(rng, opts):
    cands = [0, 1, 2, rng.randint(0, 40)]
    for o in opts:
        try:
            t = int(o) if o is not None else None
        except ValueError:
            t = None
        if t is not None and 0 <= t <= 40:
            cands += [max(0, t - 1), t, t + 1, t + 1, 2 * t + 1]
    return rng.choice(cands)


def _policy(rng):
    r = rng.random()
    if r < 0.45:
        return None
    if r < 0.55:
        return False
    if r < 0.67:
        return True
    return rng.choice(CALLABLES)


def _body(rng, opts, framings):
    size = _size(rng, opts)
    data = rng.bytes(size, alphabet=b"abcdefghijklmnopqrstuvwxyz0123456789")
    fr = rng.choice(framings)
    if fr == "none" and size:
        fr = "len"
    chunks = _partition(rng, data)
    complete = not rng.chance(0.08)
    if not complete and chunks:
        chunks = chunks[:rng.below(len(chunks))]
    return {"fr": fr, "n": size, "chunks": [hx(c) for c in chunks], "complete": complete}


def gen_run(rng):
    bad = rng.chance(0.03)
    lim = rng.choice(BAD_SIZES) if bad and rng.chance(0.5) else rng.choice(SIZE_STRS)
    thr = rng.choice(BAD_SIZES) if bad and lim not in BAD_SIZES else rng.choice(SIZE_STRS)
    if rng.chance(0.15):
        lim = None
    if rng.chance(0.15):
        thr = None
    opts = [lim, thr]
    req = _body(rng, opts, ["len", "len", "chunked", "chunked", "none"])
    resp = _body(rng, opts, ["len", "len", "chunked", "chunked", "close"])
    if resp["fr"] == "none":
        resp["fr"] = "len"
    case = {"k": "run", "limit": lim, "stream": thr, "store": rng.chance(0.5),
            "pq": _policy(rng), "ps": _policy(rng), "ok": not rng.chance(0.06),
            "e100": rng.chance(0.12), "req": req, "resp": resp}
    # schedule: 'q' = next client segment, 's' = next server segment
    nq = 1 + len(req["chunks"]) + (1 if req["fr"] == "chunked" and req["complete"] else 0)
    ns = 1 + len(resp["chunks"]) + (1 if resp["fr"] in ("chunked", "close") and resp["complete"] else 0)
    if rng.chance(0.3):
        # interleave: the response may start once the request head and k chunks are in
        k = rng.randint(1, nq)
        rest = ["q"] * (nq - k) + ["s"] * ns
        rng.shuffle(rest)
        # keep relative order inside each side (shuffle only decides the merge)
        sched = ["q"] * k + rest
    else:
        sched = ["q"] * nq + ["s"] * ns
    case["sched"] = "".join(sched)
    return case


def gen(rng, n, tier):
    out = []
    for _ in range(n):
        if rng.chance(0.15):
            k = rng.randint(0, 4)
            s = "".join(rng.choice(PS_TOKENS) for _ in range(k))
            if rng.chance(0.05):
                s = None
            elif rng.chance(0.3):
                s = str(rng.randint(0, 5000)) + rng.choice(["", "b", "k", "m", "g", "t", " ", "K"])
            out.append({"k": "size", "s": s})
        else:
            out.append(gen_run(rng))
    return out


# ------------------------------------------------------------------ implementation
def setup_impl():
    global http, HTTPMode, human, Driver
    from mitmproxy.proxy.layers import http
    from mitmproxy.proxy.layers.http import HTTPMode
    from mitmproxy.utils import human
    from lib.sansio import Driver


def make_callable(name):
    """fresh instance of the named stream callable (mirrors Corr/C07.v call)"""
    st = {"held": b"", "n": 0}
    if name == "KIdent":
        return lambda d: d
    if name == "KDropAll":
        return lambda d: b""
    if name == "KDouble":
        return lambda d: d + d
    if name == "KSplit":
        return lambda d: [d[:len(d) // 2], d[len(d) // 2:]]
    if name == "KDropOdd":
        def f(d):
            n = st["n"]
            st["n"] += 1
            return b"" if n % 2 == 0 else d
        return f
    if name == "KHold":
        def g(d):
            if d == b"":
                out, st["held"] = st["held"], b""
                return out
            data = st["held"] + d
            st["held"] = data[-1:]
            return data[:-1]
        return g
    if name == "KIter":
        return lambda d: iter([d])
    raise ValueError(name)


def _attr(p):
    if p is None or isinstance(p, bool):
        return p
    return make_callable(p)


def _fr_header(b):
    if b["fr"] == "len":
        return b"Content-Length: %d\r\n" % b["n"]
    if b["fr"] == "chunked":
        return b"Transfer-Encoding: chunked\r\n"
    return b""


def _segments(b, is_req, e100=False):
    """wire segments and the matching model steps for one message"""
    if is_req:
        head = b"POST http://example.com/p HTTP/1.1\r\nHost: example.com\r\n" + _fr_header(b) + \
               (b"Expect: 100-continue\r\n" if e100 else b"") + b"\r\n"
        segs = [(head, ("WReqHead", b["fr"], b["n"], e100))]
    else:
        head = b"HTTP/1.1 200 OK\r\n" + _fr_header(b) + b"\r\n"
        segs = [(head, ("WRespHead", b["fr"], b["n"]))]
    for c in b["chunks"]:
        c = unhx(c)
        raw = b"%x\r\n%s\r\n" % (len(c), c) if b["fr"] == "chunked" else c
        segs.append((raw, ("WReqChunk" if is_req else "WRespChunk", c)))
    if b["complete"]:
        if b["fr"] == "chunked":
            segs.append((b"0\r\n\r\n", ("WReqLast" if is_req else "WRespLast",)))
        elif b["fr"] == "close" and not is_req:
            segs.append((None, ("WRespClose",)))
    return segs


def run_impl(case):
    if case["k"] == "size":
        try:
            v = human.parse_size.__wrapped__(case["s"])
            return {"r": ["none"] if v is None else ["val", str(v)]}
        except ValueError:
            return {"r": ["err"]}
        except Exception as e:  # any other escape is its own observable
            return {"r": ["other", type(e).__name__]}

    box = {"stream": None}
    pq, ps = _attr(case["pq"]), _attr(case["ps"])

    def policy(hook, drv):
        if box["stream"] is None and drv.layer.streams:
            box["stream"] = next(iter(drv.layer.streams.values()))
        if hook.name == "requestheaders" and pq is not None:
            hook.args()[0].request.stream = pq
        if hook.name == "responseheaders" and ps is not None:
            hook.args()[0].response.stream = ps

    def connect(conn, drv):
        return None if case["ok"] else "connection refused"

    opts = {"store_streamed_bodies": case["store"]}
    if case["limit"] is not None:
        opts["body_size_limit"] = case["limit"]
    if case["stream"] is not None:
        opts["stream_large_bodies"] = case["stream"]
    d = Driver(lambda ctx: http.HttpLayer(ctx, HTTPMode.regular), options_overrides=opts, policy=policy, connect=connect)
    d.start()
    qs = _segments(case["req"], True, case["e100"])
    ss = _segments(case["resp"], False)
    fed, bufs, states = [], [], []
    CS = d.CS
    server_dead = False
    for who in case["sched"]:
        if d.crashed:
            break
        if who == "q":
            if not qs:
                continue
            raw, step = qs.pop(0)
            if d.conns[0].state is CS.CLOSED or not (d.conns[0].state & CS.CAN_READ):
                qs = []
                continue
            d.data(0, raw)
        else:
            if not ss or server_dead:
                continue
            raw, step = ss[0]
            if len(d.conns) < 2 or d.conns[1].state is CS.CLOSED or not (d.conns[1].state & CS.CAN_READ) \
                    or not (d.conns[1].state & CS.CAN_WRITE):
                # no (open) server connection at this point: the server cannot have said anything (yet)
                if len(d.conns) >= 2:
                    server_dead = True
                continue
            ss.pop(0)
            if raw is None:
                d.close(1)
            else:
                d.data(1, raw)
        fed.append(list(step[:1]) + [hx(x) if isinstance(x, bytes) else x for x in step[1:]])
        if d.crashed:
            break           # the layer raised: there is no state to observe after this step
        s = box["stream"]
        if s is None:
            bufs.append([0, 0]); states.append(["?", "?"])
        else:
            bufs.append([len(s.request_body_buf), len(s.response_body_buf)])
            states.append([s.client_state.__name__, s.server_state.__name__])
    trace = []
    for t in d.trace:
        if t[0] == "hook":
            trace.append(["hook", t[1]])
        elif t[0] == "open":
            trace.append(["open"])
        elif t[0] == "send":
            raw = bytes.fromhex(t[2])
            if t[1] == 0 and raw[:9] == b"HTTP/1.1 " and raw[9:10] in (b"4", b"5") and b"Server: mitmproxy" in raw:
                trace.append(["errpage", int(raw[9:12])])
            else:
                trace.append(["send", t[1], t[2]])
        elif t[0] == "close":
            trace.append(["halfclose" if t[2] else "close", t[1]])
        elif t[0] == "crash":
            pass
        else:
            trace.append(["other", repr(t)[:80]])
    f = d.flows[0] if d.flows else None
    rc = f.request.raw_content if f is not None and f.request else None
    sc = f.response.raw_content if f is not None and f.response else None
    return {"fed": fed, "trace": trace, "bufs": bufs, "states": states,
            "rc": None if rc is None else hx(rc), "sc": None if sc is None else hx(sc),
            "err": bool(f is not None and f.error), "errmsg": (f.error.msg[:60] if f is not None and f.error else None),
            "live": bool(f is not None and f.live),
            "crashed": d.crashed[0] if d.crashed else None}


# ------------------------------------------------------------------ Coq terms
def _cfr(fr, n):
    return {"len": f"(FLen {cZ(n)})", "chunked": "FChunked", "none": "FNone", "close": "FClose"}[fr]


def _cstep(s):
    k = s[0]
    if k == "WReqHead":
        return f"(WReqHead {_cfr(s[1], s[2])} {cbool(s[3])})"
    if k == "WRespHead":
        return f"(WRespHead {_cfr(s[1], s[2])})"
    if k in ("WReqChunk", "WRespChunk"):
        return f"({k} {cbytes(unhx(s[1]))})"
    return k


def _cattr(p):
    if p is None:
        return "None"
    if p is True:
        return "(Some STrue)"
    if p is False:
        return "(Some SFalse)"
    return "(Some SCall)"


def _cstr(s):
    return copt(s, lambda v: cbytes(v.encode("utf-8")), "bytes")


def _ctitem(t):
    k = t[0]
    if k == "hook":
        return "(THook %s)" % {"requestheaders": "HRequestHeaders", "request": "HRequest",
                               "responseheaders": "HResponseHeaders", "response": "HResponse", "error": "HError"}[t[1]]
    if k == "open":
        return "TOpen"
    if k == "send":
        return f"(TSend {'Client' if t[1] == 0 else 'Server'} {cbytes(unhx(t[2]))})"
    if k == "errpage":
        return f"(TErrPage {cZ(t[1])})"
    if k in ("close", "halfclose"):
        return f"({'TClose' if k == 'close' else 'THalfClose'} {'Client' if t[1] == 0 else 'Server'})"
    # anything the model never produces: make the comparison fail visibly
    return "(TErrPage (-1)%Z)"


def coq_case(case, obs):
    if case["k"] == "size":
        r = obs["r"]
        if r[0] == "other":
            return None
        impl = {"none": "PNone", "err": "PErr"}.get(r[0]) or f"(PVal {cZ(int(r[1]))})"
        return f"CSize {_cstr(case['s'])} {impl}"
    kq = case["pq"] if isinstance(case["pq"], str) else "KIdent"
    ks = case["ps"] if isinstance(case["ps"], str) else "KIdent"
    cfg = (f"(mkConfig {_cstr(case['limit'])} {_cstr(case['stream'])} {cbool(case['store'])} "
           f"{_cattr(case['pq'])} {_cattr(case['ps'])} {cbool(case['ok'])})")
    ob = lambda v: copt(v, lambda h: cbytes(unhx(h)), "bytes")
    return (f"CRun {cfg} {kq} {ks} {clist([_cstep(s) for s in obs['fed']], 'step')} "
            f"{clist([_ctitem(t) for t in obs['trace']], 'titem')} "
            f"{clist([f'({cZ(a)}, {cZ(b)})' for a, b in obs['bufs']], '(Z * Z)%type')} "
            f"{ob(obs['rc'])} {ob(obs['sc'])} {cbool(obs['err'])} {cbool(obs['live'])} {cbool(obs['crashed'] is not None)}")


# ------------------------------------------------------------------ oracle (the property on the implementation)
def _psize(s):
    """independent reading of a size option: int or None (unset); raises ValueError if invalid"""
    if s is None:
        return None
    units = {"b": 1, "k": 1024, "m": 1024 ** 2, "g": 1024 ** 3, "t": 1024 ** 4}
    t = s
    mult = 1
    if t and t[-1] in units:
        try:
            return int(t)
        except ValueError:
            pass
        mult, t = units[t[-1]], t[:-1]
    return int(t) * mult


def _dechunk(raw):
    """strict chunked decoder: returns (body, rest after the last-chunk) or None if malformed/incomplete"""
    body, i = b"", 0
    while True:
        j = raw.find(b"\r\n", i)
        if j < 0:
            return None
        try:
            n = int(raw[i:j], 16)
        except ValueError:
            return None
        i = j + 2
        if n == 0:
            if raw[i:i + 2] != b"\r\n":
                return None
            return body, raw[i + 2:]
        if raw[i + n:i + n + 2] != b"\r\n" or len(raw) < i + n + 2:
            return None
        body += raw[i:i + n]
        i += n + 2


def _apply(name, chunks):
    """reference: the bytes a stream callable turns the chunks into (fresh instance), including the final flush"""
    f = make_callable(name)
    out = b""
    for c in list(chunks) + [b""]:
        r = f(c)
        out += r if isinstance(r, bytes) else b"".join(r)
    return out


def _side(case, obs, req):
    """evaluate the property for one direction; returns violations"""
    v = []
    b = case["req"] if req else case["resp"]
    pol = case["pq"] if req else case["ps"]
    head_kind, chunk_kind = ("WReqHead", "WReqChunk") if req else ("WRespHead", "WRespChunk")
    end_kind = ("WReqLast",) if req else ("WRespLast", "WRespClose")
    fed = obs["fed"]
    if not any(s[0] == head_kind for s in fed):
        return v
    chunks = [unhx(s[1]) for s in fed if s[0] == chunk_kind]
    body = b"".join(chunks)
    fr, n = b["fr"], b["n"]
    L, T = _psize(case["limit"]), _psize(case["stream"])
    who = "request" if req else "response"
    peer = 1 if req else 0
    # ---- when must the body be rejected / streamed?  (abort first, then stream)
    declared = n if fr == "len" else None
    pol_streams = pol is not None and pol is not False
    abort_at = None          # index of the fed step at which the error must have been raised
    streamed = False
    idx_head = next(i for i, s in enumerate(fed) if s[0] == head_kind)
    if declared is not None and declared > 0 and L is not None and declared > L:
        abort_at = idx_head
    elif declared is not None and declared > 0 and T is not None and declared > T and pol is not False:
        streamed = True
    if abort_at is None and pol_streams and not (declared == 0 or fr == "none"):
        streamed = True
    if abort_at is None and not streamed:
        cum = 0
        for i, s in enumerate(fed):
            if s[0] != chunk_kind:
                continue
            cum += len(unhx(s[1]))
            if L is not None and cum > L:
                abort_at = i
                break
            if T is not None and cum > T:
                streamed = True
                break
    # a failed connection or an error on the other side may end the exchange before this side's decision
    states = obs["states"]
    msgs = [t for t in obs["trace"]]
    too_large = obs["errmsg"] is not None and obs["errmsg"].startswith("Request body exceeds" if req else "Response body exceeds")
    if abort_at is not None:
        reached = abort_at < len(states) and (states[abort_at][0 if req else 1] == "state_errored")
        other_err = obs["err"] and not too_large
        if not other_err:
            if not too_large or not reached:
                v.append({"key": "oversized-not-rejected", "what": f"{who} body known to exceed body_size_limit={case['limit']!r} "
                          f"(declared={declared}, fed={len(body)}) but the flow has no body_size_limit error"})
            else:
                if ["hook", "error"] not in msgs:
                    v.append({"key": "no-error-hook", "what": f"oversized {who}: no error hook"})
                if not any(t[0] == "errpage" for t in msgs):
                    if any(t[0] == "send" and t[1] == 0 and unhx(t[2]).startswith(b"HTTP/1.1 100") for t in msgs):
                        v.append({"key": "no-error-response-after-100-continue",
                                  "what": f"oversized {who} after 100 Continue: client connection closed without an error response"})
                    else:
                        v.append({"key": "no-client-error", "what": f"oversized {who}: client received no error response"})
                if ["close", 0] not in msgs:
                    v.append({"key": "client-not-closed", "what": f"oversized {who}: client connection left open"})
                sent = b"".join(unhx(t[2]) for t in msgs if t[0] == "send" and t[1] == peer)
                if req and sent:
                    v.append({"key": "oversized-forwarded", "what": f"oversized request: {len(sent)} bytes were sent to the server"})
                if not req and any(t[0] == "send" and t[1] == 0 and not unhx(t[2]).startswith(b"HTTP/1.1 100") for t in msgs):
                    v.append({"key": "oversized-forwarded", "what": "oversized response: response bytes were sent to the client"})
                if obs["live"]:
                    v.append({"key": "still-live", "what": f"oversized {who}: flow.live still True"})
    elif too_large:
        v.append({"key": "spurious-limit-error", "what": f"{who} body within body_size_limit={case['limit']!r} rejected "
                  f"(declared={declared}, fed={len(body)})"})
    # ---- memory bound: never more than limit + one received chunk (bytes kept on request by store_streamed_bodies excepted)
    if L is not None and L >= 0:
        mx = 0
        for i, s in enumerate(fed):
            if s[0] == chunk_kind:
                mx = max(mx, len(unhx(s[1])))
            held = obs["bufs"][i][0 if req else 1]
            st_name = states[i][0 if req else 1]
            if case["store"] and (st_name.startswith("state_stream") or streamed):
                continue
            if held > L + mx:
                v.append({"key": "buffer-exceeds-limit", "what": f"{who}_body_buf holds {held} bytes after step {i}, limit {L} + largest chunk {mx}"})
                break
    # ---- streamed without buffering
    if not case["store"]:
        for i, s in enumerate(fed):
            if states[i][0 if req else 1].startswith("state_stream") and obs["bufs"][i][0 if req else 1] != 0:
                v.append({"key": "streamed-body-buffered", "what": f"{who} is being streamed but {obs['bufs'][i]} bytes are buffered (store_streamed_bodies off)"})
                break
    # ---- exact relay
    complete = any(s[0] in end_kind for s in fed) or (fr == "len" and len(body) == n) or fr == "none"
    hook_done = ["hook", "request" if req else "response"] in msgs
    if complete and hook_done and abort_at is None and not obs["crashed"] and (not req or case["ok"]):
        if req and ["hook", "error"] in msgs and not any(t[0] == "send" and t[1] == 1 for t in msgs):
            return v
        use_callable = isinstance(pol, str) and not (declared == 0 or fr == "none")
        want = _apply(pol, chunks) if use_callable else body
        sent = b"".join(unhx(t[2]) for t in msgs if t[0] == "send" and t[1] == peer)
        if not req and sent.startswith(b"HTTP/1.1 100"):
            sent = sent[sent.index(b"\r\n\r\n") + 4:]
        if b"\r\n\r\n" not in sent:
            if not (not req and any(t[0] == "errpage" for t in msgs)):
                v.append({"key": "nothing-delivered", "what": f"{who} completed but no message head reached the peer"})
            return v
        payload = sent[sent.index(b"\r\n\r\n") + 4:]
        resp_aborted = (not req) and obs["err"]
        if req and obs["err"] and not too_large:
            pass
        if fr == "chunked":
            # the response last-chunk is only due once the request is complete, too
            need_end = req or any(s[0] == "WReqLast" for s in fed) or case["req"]["fr"] != "chunked" and \
                (case["req"]["fr"] == "none" or sum(len(unhx(s[1])) for s in fed if s[0] == "WReqChunk") == case["req"]["n"])
            dec = _dechunk(payload)
            if dec is None:
                if need_end and not resp_aborted:
                    v.append({"key": "bad-chunked-relay", "what": f"{who}: bytes sent to the peer are not a complete chunked body: {payload[:60]!r}"})
            else:
                got, rest = dec
                if rest:
                    v.append({"key": "empty-chunk-terminates-body",
                              "what": f"{who}: a zero-length chunk ends the chunked body early; {len(rest)} more bytes follow the last-chunk"})
                elif got != want:
                    v.append({"key": "relay-mismatch", "what": f"{who}: peer decodes {got[:40]!r}, expected {want[:40]!r}"})
        else:
            if payload != want:
                v.append({"key": "relay-mismatch", "what": f"{who}: peer received {payload[:40]!r}, expected {want[:40]!r}"})
        # ---- what the flow keeps
        kept = obs["rc"] if req else obs["sc"]
        from_start = streamed and (pol_streams or (declared is not None and T is not None and declared > T and pol is not False))
        if streamed:
            exp_kept = hx(want) if case["store"] else None
        else:
            exp_kept = hx(body)
        if kept != exp_kept:
            v.append({"key": "stored-body-mismatch", "what": f"{who}: flow keeps {kept!r}, expected {exp_kept!r} "
                      f"(streamed={streamed}, store_streamed_bodies={case['store']})"})
    return v


def oracle(case, obs):
    if case["k"] == "size":
        r = obs["r"]
        if r[0] == "other":
            return [{"key": "parse-size-other-exception", "what": f"parse_size({case['s']!r}) raised {r[1]}"}]
        # parse_size agrees with an independent reading for plain non-negative sizes
        s = case["s"]
        if s is not None and s.isascii() and s[:-1].isdigit() and s[-1:] in "bkmgt0123456789" and s[-1:] != "":
            try:
                want = _psize(s)
            except ValueError:
                want = "err"
            got = int(r[1]) if r[0] == "val" else r[0]
            if s and want != got and want is not None:
                return [{"key": "parse-size-value", "what": f"parse_size({s!r}) = {got}, expected {want}"}]
        return []
    if obs["crashed"]:
        try:
            _psize(case["limit"]); _psize(case["stream"])
        except ValueError:
            return []       # invalid option strings are rejected by Proxyserver.configure; the layer raising is expected
        return [{"key": "layer-crash", "what": f"HttpLayer raised {obs['crashed']}"}]
    try:
        _psize(case["limit"]); _psize(case["stream"])
    except ValueError:
        return []
    return _side(case, obs, True) + _side(case, obs, False)


def nontrivial(case, obs):
    if case["k"] == "size":
        s = case["s"]
        return s is not None and not s.isdigit()
    tr = obs["trace"]
    return (["hook", "error"] in tr or any("stream" in a or "stream" in b for a, b in obs["states"])
            or isinstance(case["pq"], str) or isinstance(case["ps"], str))


def classify(case, obs):
    if case["k"] == "size":
        return ["size", "size-" + obs["r"][0]]
    tags = ["run", "req-" + case["req"]["fr"], "resp-" + case["resp"]["fr"]]
    if obs["crashed"]:
        tags.append("crash")
    if obs["errmsg"]:
        m = obs["errmsg"]
        tags.append("abort-req" if m.startswith("Request body") else "abort-resp" if m.startswith("Response body") else "other-error")
    sts = obs["states"]
    if any(a == "state_stream_request_body" for a, _ in sts):
        tags.append("req-streamed")
    if any(b == "state_stream_response_body" for _, b in sts):
        tags.append("resp-streamed")
    if any(a == "state_consume_request_body" for a, _ in sts) and any(a == "state_stream_request_body" for a, _ in sts):
        tags.append("req-late-switch")
    if any(b == "state_consume_response_body" for _, b in sts) and any(b == "state_stream_response_body" for _, b in sts):
        tags.append("resp-late-switch")
    if isinstance(case["pq"], str):
        tags.append("q-" + case["pq"])
    if isinstance(case["ps"], str):
        tags.append("s-" + case["ps"])
    if case["store"]:
        tags.append("store")
    if case["e100"]:
        tags.append("expect100")
    if not case["ok"]:
        tags.append("connect-fails")
    if "s" in case["sched"].split("q")[0:-1] and False:
        tags.append("interleaved")
    sch = case["sched"]
    if "sq" in sch:
        tags.append("interleaved")
    if not case["req"]["complete"] or not case["resp"]["complete"]:
        tags.append("truncated")
    return tags
