"""C46 -- mitmweb requires authentication and blocks cross-site state changes
(mitmproxy/tools/web/app.py, mitmproxy/tools/web/webaddons.py).

Every case is one raw HTTP/1.1 request written to a socket of a real tornado HTTPServer running the real
`Application(WebMaster)`; observed: status, whether the innermost handler function was entered (sys.monitoring
PY_START on the unwrapped code objects -- the code under test is not modified), whether the auth cookie was
set, what kind of body came back, whether view/options/events/websocket-connection state changed and whether
canary strings planted in flows, events and options (or the password) appear in the response."""
import hashlib
import os
import re
import sys
import time

from lib.coqterm import cbytes, cbool, copt, clist, cN, cnat, hx, unhx

ID = "C46"
QUICK_N = 2000
THOROUGH_N = 12000
SHARD = 800
RULE = ("Request = route (every rule of the introspected tornado router incl. static rules, or a path matching no rule; "
        "concrete path sampled from the rule's regex) x method (7 tornado methods + unsupported spellings) x auth cookie form "
        "(none/valid/bad signature/wrong secret/wrong value/wrong name/foreign-name signature/expired/v1/unsigned/garbage) x "
        "Authorization header (absent, Bearer right/wrong/empty/double space/trailing junk/non-ASCII, other schemes, lower-case) x "
        "token arguments (0-3 values in query and form body: right, wrong, padded with blanks/control characters, empty, "
        "non-ASCII, not UTF-8) x XSRF form (12 ways of pairing cookie and token) x Sec-Fetch-Site (absent, same-origin, none, "
        "cross-site, same-site, case variants, empty, junk; header name case) x password mode (plaintext / argon2 hash) x "
        "WebSocket upgrade headers. Plus histories (n/8 quick, n/4 thorough): 2-4 web_password changes (plaintext P/Q, argon2 hash A/B, empty = random token, invalid hash) each followed by 1-3 requests presenting the current / previous / older / wrong password via Bearer, ?token= or form body, with or without a session cookie. 70% draws from the main forms, 30% from the adversarial dictionaries; thorough adds the full "
        "product route x method x 19 credential forms (incl. near misses of the password) x XSRF/Sec-Fetch-Site grid (about 40000 cases). Non-trivial = carries some "
        "credential, XSRF or Sec-Fetch-Site material or an unsafe method; distinct by canonical JSON.")
TRUSTED = ["Coq 8.16.1 kernel (coqc), vm_compute for the table checks and case evaluation",
           "harness/translators/web_routes.py: introspection of the running Application (rules, SUPPORTED_METHODS, __wrapped__ chain, "
           "prepare/check_xsrf_cookie/auth_fail resolution) and the exact-shape AST match of RequestHandler.prepare",
           "harness/props/C46.py: request builder, route matcher replica (first rule whose regex matches), sys.monitoring observer, state digest",
           "tornado 6.5 _execute order (405, body parse, XSRF, prepare, method), signed cookies, XSRF token decoding, header parsing and "
           "get_argument decoding: hand model tied by correspondence only (Corr/C46.v cookie_value / xsrf_ok tables)",
           "argon2-cffi verify: abstract predicate in the model (theorems quantify over it)"]
ASSUMPTIONS = ["token/Authorization values contain no non-ASCII whitespace or C1 control characters (str.strip is modelled on ASCII)",
               "a non-ASCII Authorization value reaches the handler as latin-1 text; the model is given its UTF-8 encoding",
               "request bodies are well-formed (Content-Length, form encoding); path matching itself is not modelled (rule index is an input)",
               "handler bodies are abstract in the model; that GET/HEAD/OPTIONS handlers do not change state is checked by the oracle only"]
TRANSLATORS = ["web_routes"]
ALLOWED_AXIOMS = []
COQ_PRELUDE = "From MV Require Import Model.WebAuth.\n"

PLAIN = "hunter2"
ARGON_HASH = "$argon2id$v=19$m=8,t=1,p=1$c2FsdHNhbHQ$ieVgG5ysTJFx4k/KvmC9aQ"   # hash of "test" (cheap parameters)
ARGON_PLAIN = "test"
ARGON_HASH_B = "$argon2id$v=19$m=8,t=1,p=1$c2FsdHNhbHQy$EKjv004XL+FBrzoTMyoJtPZn1/4+aRey8kZiIQgTwQs"   # hash of "test2"
ARGON_PLAIN_B = "test2"
PLAIN_Q = "s3cond-pass"
# web_password settings used in histories: name -> (option value, plaintext that is then valid; None = read token from web_url / unchanged)
SETTINGS = {"P": (PLAIN, PLAIN), "Q": (PLAIN_Q, PLAIN_Q), "A": (ARGON_HASH, ARGON_PLAIN), "B": (ARGON_HASH_B, ARGON_PLAIN_B),
            "E": ("", None), "X": ("$argon2id$", None)}
CANARY = b"C46CANARY"
XTOK = "0123456789abcdef0123456789abcdef"

METHODS = ["GET", "HEAD", "POST", "DELETE", "PATCH", "PUT", "OPTIONS"]
OTHER_METHODS = ["FOO", "get", "post", "TRACE", "PROPFIND", "Post", "PURGE"]
COOKIE_FORMS = ["none", "valid", "badsig", "wrongsecret", "wrongvalue", "wrongname", "othernamesig", "expired", "v1", "unsigned", "garbage"]
COOKIE_COQ = {"none": "CkNone", "valid": "CkValid", "badsig": "CkBadSig", "wrongsecret": "CkWrongSecret", "wrongvalue": "CkWrongValue",
              "wrongname": "CkWrongName", "othernamesig": "CkOtherNameSig", "expired": "CkExpired", "v1": "CkV1",
              "unsigned": "CkUnsigned", "garbage": "CkGarbage"}
XSRF_FORMS = ["none", "cookie_only", "header", "csrf_header", "arg", "body_arg", "mismatch", "token_only", "v2", "malformed", "old_name", "empty"]
XSRF_COQ = {"none": "XNone", "cookie_only": "XCookieOnly", "header": "XHeader", "csrf_header": "XCsrfHeader", "arg": "XArg",
            "body_arg": "XBodyArg", "mismatch": "XMismatch", "token_only": "XTokenOnly", "v2": "XV2", "malformed": "XMalformed",
            "old_name": "XOldName", "empty": "XEmpty"}
XSRF_OK = {"header", "csrf_header", "arg", "body_arg", "v2"}
SFS_MAIN = [None, "same-origin", "none", "cross-site", "same-site"]
SFS_ADV = ["Same-Origin", "CROSS-SITE", "", "junk", "same-origin, cross-site", "none ", "same-origin;x", "null"]
SFS_NAMES = ["Sec-Fetch-Site", "sec-fetch-site", "SEC-FETCH-SITE"]
NOROUTE_PATHS = ["/nope", "/flows/42/resume/extra", "/updates/", "/static", "/flows/xyz", "/options/", "/index.html", "/commands/"]
BODY_METHODS = ("POST", "PUT", "PATCH")

_S = {}   # lazily built implementation state


# ------------------------------------------------------------------ implementation set-up

def _setup():
    if _S:
        return _S
    import asyncio
    import logging
    import tornado.httpserver
    import tornado.testing
    import tornado.web
    import tornado.websocket
    from translators import web_routes as wr
    repo = os.environ.get("VERIF_REPO", "/repo")
    app = wr.load_app(repo)
    logging.disable(logging.CRITICAL)
    loop = asyncio.new_event_loop()
    asyncio.set_event_loop(loop)
    master, application = wr.make_application(app, loop)
    rules = wr.flatten_rules(application)
    table = wr.introspect(app, application)

    async def serve():
        sock, port = tornado.testing.bind_unused_port()
        srv = tornado.httpserver.HTTPServer(application)
        srv.add_sockets([sock])
        return srv, port
    srv, port = loop.run_until_complete(serve())

    # observe entry into the innermost handler functions without touching them
    codes = {}
    for i, (_rx, cls, _kw) in enumerate(rules):
        for name in cls.SUPPORTED_METHODS:
            fn = getattr(cls, name.lower())
            if fn is tornado.web.RequestHandler._unimplemented_method:
                continue
            _n, inner = wr.unwrap(app, fn)
            inner = getattr(inner, "__func__", inner)
            codes.setdefault(inner.__code__, []).append((i, name))
    ran = []
    mon = sys.monitoring
    tool = 4
    if mon.get_tool(tool) is None:
        mon.use_tool_id(tool, "verif-c46")
    mon.register_callback(tool, mon.events.PY_START, lambda code, off: ran.append(code))
    for code in codes:
        mon.set_local_events(tool, code, mon.events.PY_START)

    static_dir = application.settings["static_path"]
    static_files = sorted(f for f in os.listdir(static_dir) if os.path.isfile(os.path.join(static_dir, f)))
    _S.update(app=app, loop=loop, master=master, application=application, rules=rules, table=table, port=port, srv=srv,
              ran=ran, static_files=static_files, mode=None, base=None, wr=wr)
    return _S


def setup_impl():
    _setup()


def _set_mode(S, mode):
    if S["mode"] != mode:
        S["master"].options.web_password = PLAIN if mode == "plain" else ARGON_HASH
        S["mode"] = mode
        S["base"] = None


def _digest(S):
    m = S["master"]
    v = m.view
    st = [[(fid, repr(f.get_state())) for fid, f in v._store.items()],
          [f.id for f in v._view],
          sorted((k, repr(o.current())) for k, o in m.options._options.items()),
          [(e.msg, e.level) for e in m.events.data],
          len(S["app"].ClientConnection.connections),
          repr(v.filter), repr(v.order_key), v.order_reversed, v.show_marked]
    return hashlib.sha1(repr(st).encode("utf-8", "backslashreplace")).hexdigest()


def _rebuild(S):
    from mitmproxy import log
    from mitmproxy.test import tflow
    m = S["master"]
    S["app"].ClientConnection.connections.clear()
    m.view.clear()
    m.events.clear()
    want = {"stickycookie": CANARY.decode() + "-option", "anticomp": False, "intercept": None}
    for k, val in want.items():
        if getattr(m.options, k) != val:
            setattr(m.options, k, val)
    f1 = tflow.tflow(resp=True)
    f1.id = "42"
    f1.request.content = CANARY + b"-request-body"
    f1.request.path = "/" + CANARY.decode() + "-path"
    f1.response.content = CANARY + b"-response-body"
    f1.comment = CANARY.decode() + "-comment"
    f2 = tflow.tflow(ws=True, resp=True)
    f2.id = "43"
    f2.request.headers["x-canary"] = CANARY.decode()
    f3 = tflow.tflow()
    f3.id = "44"
    f3.request.host = CANARY.decode().lower() + ".example"
    f3.live = True
    f3.intercept()
    f4 = tflow.tflow(err=True)
    f4.id = "45"
    f4.request.path = "/" + CANARY.decode()
    m.view.add([f1, f2, f3, f4])
    m.events._add_log(log.LogEntry(CANARY.decode() + " log line", "info"))


def _reset(S):
    if S["base"] is None or _digest(S) != S["base"]:
        _rebuild(S)
        S["base"] = _digest(S)
    return S["base"]


# ------------------------------------------------------------------ paths

def first_match(S, path):
    for i, (rx, _cls, _kw) in enumerate(S["rules"]):
        if rx.match(path):
            return i
    return -1


GROUP_CHOICES = {"flow_id": ["42", "43", "44", "45", "dead-beef", "0"], "message": ["request", "response", "messages"],
                 "content_view": ["auto", "raw", "hex"], "cmd": ["view.order.options", "nosuch.command", "view.clear"]}


def sample_path(S, idx, rng):
    """A concrete path matched first by rule idx (walks the sre parse tree of the rule's regex)."""
    import re._constants as C
    import re._parser as P
    rx = S["rules"][idx][0]
    tree = P.parse(rx.pattern)
    names = {v: k for k, v in tree.state.groupdict.items()}

    def go(seq):
        out = ""
        for op, av in seq:
            if op is C.LITERAL:
                out += chr(av)
            elif op is C.SUBPATTERN:
                g, _a, _d, p = av
                if g in names and names[g] in GROUP_CHOICES:
                    out += rng.choice(GROUP_CHOICES[names[g]])
                else:
                    out += go(p)
            elif op in (C.MAX_REPEAT, C.MIN_REPEAT):
                lo, hi, p = av
                if len(p) == 1 and p[0][0] is C.ANY:
                    out += rng.choice(S["static_files"] + ["missing-file.js", ""])
                else:
                    k = lo if hi == lo else (lo + (0 if rng.chance(0.5) else 1))
                    out += "".join(go(p) for _ in range(k))
            elif op is C.IN:
                it = [x for x in av if x[0] in (C.LITERAL, C.RANGE)]
                if not it or av[0][0] is C.NEGATE:
                    raise ValueError(f"cannot sample class in {rx.pattern}")
                o, a = rng.choice(it)
                out += chr(a) if o is C.LITERAL else chr(a[0])
            elif op is C.BRANCH:
                out += go(rng.choice(av[1]))
            elif op is C.ANY:
                out += "x"
            elif op is C.AT:
                pass
            else:
                raise ValueError(f"cannot sample {op} in {rx.pattern}")
        return out

    for _ in range(20):
        p = go(tree)
        if first_match(S, p) == idx:
            return p
    raise ValueError(f"no path found for rule {idx} {rx.pattern}")


# ------------------------------------------------------------------ generator

def _tok(b: bytes, where="q"):
    return [where, hx(b)]


def _cred_forms(mode):
    pw = (PLAIN if mode == "plain" else ARGON_PLAIN).encode()
    return [
        {"cookie": "none", "authz": None, "tokens": []},
        {"cookie": "valid", "authz": None, "tokens": []},
        {"cookie": "badsig", "authz": None, "tokens": []},
        {"cookie": "wrongvalue", "authz": None, "tokens": []},
        {"cookie": "expired", "authz": None, "tokens": []},
        {"cookie": "none", "authz": hx(b"Bearer " + pw), "tokens": []},
        {"cookie": "none", "authz": hx(b"Bearer wrong"), "tokens": []},
        {"cookie": "none", "authz": None, "tokens": [_tok(pw)]},
        {"cookie": "none", "authz": None, "tokens": [_tok(b"wrong")]},
        {"cookie": "none", "authz": None, "tokens": [_tok(pw, "b")]},
        {"cookie": "none", "authz": hx(b"Basic " + pw), "tokens": []},
        {"cookie": "none", "authz": hx(b"Bearer wrong"), "tokens": [_tok(pw)]},
        {"cookie": "none", "authz": None, "tokens": [_tok("päss".encode())]},
        {"cookie": "none", "authz": None, "tokens": [_tok(b"\xff\xfe")]},
        {"cookie": "unsigned", "authz": hx(b"bearer " + pw), "tokens": [_tok(b"")]},
        # near misses of the password
        {"cookie": "none", "authz": None, "tokens": [_tok(pw.upper())]},
        {"cookie": "none", "authz": hx(b"Bearer " + pw[:-1]), "tokens": []},
        {"cookie": "none", "authz": None, "tokens": [_tok(pw + b"x")]},
        {"cookie": "none", "authz": hx(b"Bearer " + pw.upper()), "tokens": []},
    ]


def _authz_adv(rng, pw: bytes):
    return rng.choice([b"Bearer", b"Bearer  " + pw, b"Bearer " + pw + b" x", b"Bearer\t" + pw, b"BearerX " + pw, b"bearer " + pw,
                       b"BEARER " + pw, b"Token " + pw, pw, b"Basic aHVudGVyMg==", b"Bearer " + pw[:-1], b"Bearer " + pw + pw,
                       b"Bearer p\xe4ss", b"Bearer " + pw.upper(), b" ", b"Digest x " + pw, b"Bearer " + pw + b"~"])


def _token_adv(rng, pw: bytes):
    return rng.choice([pw, b"wrong", b" " + pw + b" ", pw + b"\n", b"\t" + pw, pw + b"\x01", b"\x1f" + pw, pw + b"\x00x", b"", b" ",
                       pw[:-1], pw + b"x", pw.upper(), "päss".encode(), "€".encode(), b"\xff", b"\xc3", pw + b"\x0b", pw + b"\x7f",
                       b"a b", pw + b"\x0c\x1c"])


def _finish(S, c, rng):
    """Fill in path / body placement constraints."""
    if c["route"] >= 0:
        c["path"] = sample_path(S, c["route"], rng)
    else:
        c["path"] = rng.choice(NOROUTE_PATHS)
        assert first_match(S, c["path"]) == -1, c["path"]
    if c["method"] not in BODY_METHODS:
        c["tokens"] = [["q", t[1]] for t in c["tokens"]]
        if c["xsrf"] == "body_arg":
            c["xsrf"] = "arg"
    # body arguments follow query arguments in tornado's merged argument list
    c["tokens"] = [t for t in c["tokens"] if t[0] == "q"] + [t for t in c["tokens"] if t[0] == "b"]
    return c


def gen(rng, n, tier):
    S = _setup()
    nroutes = len(S["rules"])
    ws_routes = [i for i, r in enumerate(S["table"]) if r["prepare"] == "PrepWs"]
    out = []

    def base(route, method, mode="plain"):
        return {"route": route, "method": method, "mode": mode, "cookie": "none", "authz": None, "tokens": [], "xsrf": "none",
                "sfs": None, "sfs_name": "Sec-Fetch-Site", "ws": "none"}

    if tier == "thorough":
        for route in list(range(nroutes)) + [-1, -1]:
            for method in METHODS + ["FOO", "post"]:
                if method in ("POST", "DELETE", "PATCH", "PUT"):
                    grid = [(x, s) for x in ("none", "header", "mismatch") for s in SFS_MAIN]
                else:
                    grid = [("none", None), ("none", "cross-site")]
                for ci, cred in enumerate(_cred_forms("plain")):
                    for x, s in grid:
                        c = base(route, method)
                        c.update(cred, xsrf=x, sfs=s)
                        if route in ws_routes and method == "GET":
                            c["ws"] = ["same", "none", "cross", "noorigin"][(ci + len(out)) % 4]
                        out.append(_finish(S, c, rng))
    for _ in range(n):
        mode = "argon2" if rng.chance(0.12) else "plain"
        pw = (PLAIN if mode == "plain" else ARGON_PLAIN).encode()
        route = rng.below(nroutes) if rng.chance(0.93) else -1
        adversarial = rng.chance(0.30)
        if route >= 0 and rng.chance(0.6):
            impl = [m for m, k in S["table"][route]["methods"] if k is not None]
            method = rng.choice(impl) if impl else rng.choice(METHODS)
        else:
            method = rng.choice(METHODS) if rng.chance(0.85) else rng.choice(OTHER_METHODS)
        c = base(route, method, mode)
        c.update(rng.choice(_cred_forms(mode)))
        c["tokens"] = [list(t) for t in c["tokens"]]
        unsafe = method not in ("GET", "HEAD", "OPTIONS")
        if unsafe:
            c["xsrf"] = rng.weighted([(5, "header"), (2, "arg"), (1, "csrf_header"), (1, "body_arg"), (1, "v2"), (3, "none"), (1, "mismatch"), (1, "cookie_only")])
        if rng.chance(0.5):
            c["sfs"] = rng.choice(SFS_MAIN)
        if adversarial:
            k = rng.below(6)
            if k == 0:
                c.update(cookie=rng.choice(COOKIE_FORMS), authz=None, tokens=[])
            elif k == 1:
                c.update(cookie="none", authz=hx(_authz_adv(rng, pw)), tokens=[])
            elif k == 2:
                c.update(cookie="none", authz=None,
                         tokens=[_tok(_token_adv(rng, pw), rng.choice("qqb")) for _ in range(rng.randint(1, 3))])
            elif k == 3:
                c["xsrf"] = rng.choice(XSRF_FORMS)
            elif k == 4:
                c["sfs"] = rng.choice(SFS_ADV + SFS_MAIN[1:])
                c["sfs_name"] = rng.choice(SFS_NAMES)
            else:
                c["cookie"] = rng.choice(COOKIE_FORMS)
                c["authz"] = hx(_authz_adv(rng, pw)) if rng.chance(0.5) else None
                c["tokens"] = [_tok(_token_adv(rng, pw), rng.choice("qb")) for _ in range(rng.randint(0, 2))]
                c["xsrf"] = rng.choice(XSRF_FORMS)
                c["sfs"] = rng.choice(SFS_ADV + SFS_MAIN)
        if route in ws_routes and method == "GET":
            c["ws"] = rng.choice(["same", "same", "cross", "noorigin", "none"])
        out.append(_finish(S, c, rng))
    # histories: web_password changes interleaved with requests presenting current / earlier / wrong passwords
    mitm_impl = [(i, m) for i, r in enumerate(S["table"]) if r["kind"] == "Mitm" and r["prepare"] == "PrepSfs"
                 for m, k in r["methods"] if k is not None]
    for _ in range(n // 8 if tier == "quick" else n // 4):
        steps = []
        last = None
        for _j in range(rng.randint(2, 4)):
            name = rng.weighted([(5, "A"), (5, "B"), (3, "P"), (3, "Q"), (2, "E"), (1, "X")])
            if name == last and rng.chance(0.8):
                name = {"A": "B", "B": "A", "P": "Q", "Q": "P", "E": "A", "X": "B"}[name]
            last = name
            steps.append({"set": name})
            for _k in range(rng.randint(1, 3)):
                if rng.chance(0.75):
                    route, method = rng.choice(mitm_impl)
                    c = base(route, method)
                    if method not in ("GET", "HEAD", "OPTIONS"):
                        c["xsrf"] = rng.choice(["header", "arg", "v2"])
                else:
                    c = base(rng.below(nroutes) if rng.chance(0.9) else -1, rng.choice(METHODS))
                    c["xsrf"] = rng.choice(["none", "header", "mismatch"])
                    c["sfs"] = rng.choice(SFS_MAIN)
                c["cookie"] = rng.weighted([(8, "none"), (1, "valid"), (1, "wrongvalue")])
                c = _finish(S, c, rng)
                del c["authz"], c["tokens"], c["mode"]
                c["cred"] = {"which": rng.weighted([(4, "cur"), (4, "prev"), (1, "prev2"), (1, "wrong"), (1, rng.choice("PQAB"))]),
                             "via": rng.weighted([(4, "bearer"), (4, "token"), (1, "body"), (1, "none")])}
                steps.append({"req": c})
        out.append({"k": "hist", "steps": steps})
    return out


# ------------------------------------------------------------------ request construction

def _pct(b: bytes) -> str:
    return "".join("%%%02X" % x for x in b)


def _auth_cookie(S, form):
    from tornado.web import create_signed_value
    A = S["application"]
    secret = A.settings["cookie_secret"]
    name = A.settings["auth_cookie_name"]()
    val = S["app"].AuthRequestHandler.AUTH_COOKIE_VALUE
    if form == "none":
        return None
    if form == "valid":
        return name, create_signed_value(secret, name, val).decode()
    if form == "badsig":
        v = create_signed_value(secret, name, val).decode()
        return name, v[:-1] + ("0" if v[-1] != "0" else "1")
    if form == "wrongsecret":
        return name, create_signed_value(b"x" * 32, name, val).decode()
    if form == "wrongvalue":
        return name, create_signed_value(secret, name, b"n").decode()
    if form == "wrongname":
        other = name + "9"
        return other, create_signed_value(secret, other, val).decode()
    if form == "othernamesig":
        return name, create_signed_value(secret, name + "9", val).decode()
    if form == "expired":
        return name, create_signed_value(secret, name, val, clock=lambda: time.time() - 32 * 86400).decode()
    if form == "v1":
        return name, create_signed_value(secret, name, val, version=1).decode()
    if form == "unsigned":
        return name, val.decode()
    if form == "garbage":
        return name, "2|1:0|10:1700000000|4:name|4:eQ==|deadbeef"
    raise ValueError(form)


def _xsrf_parts(S, form):
    """-> (cookies [(name, value)], headers [(name, value)], query args, body args)"""
    import binascii
    from tornado.util import _websocket_mask
    cname = S["application"].settings.get("xsrf_cookie_name", "_xsrf")

    def v2(mask: bytes):
        return b"|".join([b"2", binascii.b2a_hex(mask), binascii.b2a_hex(_websocket_mask(mask, binascii.a2b_hex(XTOK))), b"1700000000"]).decode()
    if form == "none":
        return [], [], [], []
    if form == "cookie_only":
        return [(cname, XTOK)], [], [], []
    if form == "header":
        return [(cname, XTOK)], [("X-XSRFToken", XTOK)], [], []
    if form == "csrf_header":
        return [(cname, XTOK)], [("X-CSRFToken", XTOK)], [], []
    if form == "arg":
        return [(cname, XTOK)], [], [("_xsrf", XTOK)], []
    if form == "body_arg":
        return [(cname, XTOK)], [], [], [("_xsrf", XTOK)]
    if form == "mismatch":
        return [(cname, XTOK)], [("X-XSRFToken", XTOK[::-1])], [], []
    if form == "token_only":
        return [], [("X-XSRFToken", XTOK)], [], []
    if form == "v2":
        return [(cname, v2(b"\x01\x02\x03\x04"))], [("X-XSRFToken", v2(b"\xaa\xbb\xcc\xdd"))], [], []
    if form == "malformed":
        return [(cname, XTOK)], [("X-XSRFToken", "2|zz|" + XTOK)], [], []
    if form == "old_name":
        return [("_xsrf" if cname != "_xsrf" else "_mitmproxy_xsrf", XTOK)], [("X-XSRFToken", XTOK)], [], []
    if form == "empty":
        return [(cname, XTOK)], [("X-XSRFToken", "")], [], []
    raise ValueError(form)


def build_request(S, case) -> bytes:
    cookies, headers, qargs, bargs = _xsrf_parts(S, case["xsrf"])
    ck = _auth_cookie(S, case["cookie"])
    if ck:
        cookies = [ck] + cookies
    for where, h in case["tokens"]:
        (qargs if where == "q" else bargs).append(("token", None, unhx(h)))
    def enc(args):
        return "&".join(f"{a[0]}=" + (_pct(a[2]) if len(a) == 3 else a[1]) for a in args)
    target = case["path"] + ("?" + enc(qargs) if qargs else "")
    lines = [f"{case['method']} {target} HTTP/1.1".encode("latin-1"), f"Host: 127.0.0.1:{S['port']}".encode()]
    if cookies:
        lines.append(("Cookie: " + "; ".join(f"{k}={v}" for k, v in cookies)).encode("latin-1"))
    if case["authz"] is not None:
        lines.append(b"Authorization: " + unhx(case["authz"]))
    for k, v in headers:
        lines.append(f"{k}: {v}".encode())
    if case["sfs"] is not None:
        lines.append(f"{case['sfs_name']}: {case['sfs']}".encode())
    ws = case.get("ws", "none")
    if ws != "none":
        lines += [b"Upgrade: websocket", b"Connection: Upgrade", b"Sec-WebSocket-Key: dGhlIHNhbXBsZSBub25jZQ==", b"Sec-WebSocket-Version: 13"]
        if ws == "same":
            lines.append(f"Origin: http://127.0.0.1:{S['port']}".encode())
        elif ws == "cross":
            lines.append(b"Origin: http://evil.example")
    else:
        lines.append(b"Connection: close")
    body = b""
    if bargs:
        body = enc(bargs).encode()
        lines.append(b"Content-Type: application/x-www-form-urlencoded")
    elif case["method"] in BODY_METHODS:
        body = b'{"anticomp": true}' if case["path"].startswith("/options") else b'{"comment": "c46-changed"}'
        lines.append(b"Content-Type: application/json")
    if body or case["method"] in BODY_METHODS:
        lines.append(b"Content-Length: " + str(len(body)).encode())
    return b"\r\n".join(lines) + b"\r\n\r\n" + body


async def _roundtrip(S, raw: bytes, head_only: bool):
    import asyncio
    r, w = await asyncio.open_connection("127.0.0.1", S["port"])
    try:
        w.write(raw)
        await w.drain()
        head = await asyncio.wait_for(r.readuntil(b"\r\n\r\n"), 10)
        status = int(head.split(b" ", 2)[1])
        body = b""
        hl = head.lower()
        if status not in (101, 204, 304) and not head_only:
            m = re.search(rb"\r\ncontent-length:\s*(\d+)", hl)
            if m:
                body = await asyncio.wait_for(r.readexactly(int(m.group(1))), 10)
            elif b"transfer-encoding: chunked" in hl:
                while True:
                    ln = await asyncio.wait_for(r.readline(), 10)
                    k = int(ln.strip() or b"0", 16)
                    if k == 0:
                        break
                    body += await asyncio.wait_for(r.readexactly(k), 10)
                    await r.readline()
            else:
                body = await asyncio.wait_for(r.read(), 10)
    finally:
        w.close()
    # let the server finish (on_finish, websocket on_close)
    conns = S["app"].ClientConnection.connections
    for _ in range(200):
        await asyncio.sleep(0 if not conns else 0.001)
        if not conns and _ > 2:
            break
    return status, head, body


def _body_kind(body: bytes) -> str:
    if b"403 Invalid Password" in body:
        return "login_invalid"
    if b"403 Authentication Required" in body:
        return "login_required"
    if not body:
        return "empty"
    if re.match(rb"<html><title>\d+: ", body):
        return "error_page"
    return "other"


def run_impl(case):
    S = _setup()
    if case.get("k") == "hist":
        return _run_history(S, case)
    _set_mode(S, case.get("mode", "plain"))
    return _run_one(S, case, (PLAIN if case.get("mode", "plain") == "plain" else ARGON_PLAIN).encode())


def _run_one(S, case, pw):
    before = _reset(S)
    case["route"] = first_match(S, case["path"])   # corpus / finding cases carry a path; the rule index is derived
    del S["ran"][:]
    raw = build_request(S, case)
    status, head, body = S["loop"].run_until_complete(_roundtrip(S, raw, case["method"] == "HEAD"))
    after = _digest(S)
    name = S["application"].settings["auth_cookie_name"]().encode()
    setc = [l for l in head.split(b"\r\n") if l.lower().startswith(b"set-cookie:")]
    cookie_set = any(l.split(b":", 1)[1].strip().startswith(name + b"=") for l in setc)
    hay = head + body
    leaked = (CANARY in hay or CANARY.lower() in hay or ARGON_HASH.encode() in hay or ARGON_HASH_B.encode() in hay
              or (pw not in (ARGON_PLAIN.encode(), ARGON_PLAIN_B.encode()) and pw in hay))
    return {"status": status, "ran": bool(S["ran"]), "cookie_set": cookie_set, "body_kind": _body_kind(body),
            "state_changed": before != after, "leaked": leaked, "route_seen": first_match(S, case["path"])}


def _current_token(S):
    """The password mitmweb announces when web_password is empty (public: WebAuth.web_url)."""
    url = S["master"].addons.get("webauth").web_url
    return url.split("?token=", 1)[1] if "?token=" in url else None


def _run_history(S, case):
    from mitmproxy import exceptions
    opts = S["master"].options
    S["mode"] = None          # single-request cases re-establish their own mode afterwards
    S["base"] = None
    if opts.web_password != PLAIN:
        opts.web_password = PLAIN
    cur = PLAIN.encode()
    past = []                 # passwords that were valid earlier in this history
    out = []
    for st in case["steps"]:
        if "set" in st:
            val, plain = SETTINGS[st["set"]]
            try:
                opts.web_password = val
            except exceptions.OptionsError:
                pass
            fresh = b""
            if opts.web_password == "":
                # empty option (also after the rollback of a rejected hash): mitmweb draws a new random token
                fresh = _current_token(S).encode()
                new = fresh
            elif st["set"] == "X":
                new = cur
            else:
                new = plain.encode()
            if new != cur:
                past.append(cur)
                cur = new
            out.append({"fresh": hx(fresh), "cur": hx(cur)})
            S["base"] = None
        else:
            r = dict(st["req"])
            cred = r.pop("cred")
            which = cred["which"]
            if which == "cur":
                pw = cur
            elif which == "prev":
                pw = past[-1] if past else b"wrong"
            elif which == "prev2":
                pw = past[-2] if len(past) > 1 else b"wrong"
            elif which == "wrong":
                pw = b"wrong"
            else:
                pw = (SETTINGS[which][1] or "wrong").encode()
            r["authz"], r["tokens"] = None, []
            if cred["via"] == "bearer":
                r["authz"] = hx(b"Bearer " + pw)
            elif cred["via"] == "token":
                r["tokens"] = [["q", hx(pw)]]
            elif cred["via"] == "body":
                r["tokens"] = [["b" if r["method"] in BODY_METHODS else "q", hx(pw)]]
            o = _run_one(S, r, cur)
            out.append({"req": r, "pw": hx(cur), "past": [hx(x) for x in past], "obs": o})
    return {"steps": out}


# ------------------------------------------------------------------ Coq term

def _model_bytes_of_header(b: bytes) -> bytes:
    # tornado decodes header bytes as latin-1; the password is compared through its UTF-8 encoding
    return b.decode("latin-1").encode("utf-8")


def _decodable(b: bytes):
    try:
        b.decode("utf-8")
        return True
    except UnicodeDecodeError:
        return False


def _obs_fields(obs):
    bk = {"login_invalid": "KLoginInvalid", "login_required": "KLoginRequired", "empty": "KEmpty", "error_page": "KErrorPage", "other": "KOther"}[obs["body_kind"]]
    return (f"{cN(obs['status'])} {cbool(obs['ran'])} {cbool(obs['cookie_set'])} {bk} {cbool(obs['state_changed'])} {cbool(obs['leaked'])}")


def _req_fields(case):
    m = case["method"] if case["method"] in METHODS else "OTHER"
    route = "(@None nat)" if case["route"] < 0 else f"(Some {cnat(case['route'])})"
    authz = copt(case["authz"], lambda h: cbytes(_model_bytes_of_header(unhx(h).strip(b" \t"))), "bytes")
    toks = clist((copt(unhx(h) if _decodable(unhx(h)) else None, cbytes, "bytes") for _w, h in case["tokens"]), "(option bytes)")
    sfs = copt(case["sfs"], lambda s: cbytes(s.strip(" \t").encode()), "bytes")
    return f"{route} {m} {COOKIE_COQ[case['cookie']]} {authz} {toks} {XSRF_COQ[case['xsrf']]} {sfs}"


def coq_case(case, obs):
    if case.get("k") == "hist":
        items = []
        for st, o in zip(case["steps"], obs["steps"]):
            if "set" in st:
                items.append(f"HSet {cbytes(SETTINGS[st['set']][0].encode())} {cbytes(unhx(o['fresh']))}")
            else:
                items.append(f"HReq {_req_fields(o['req'])} (Obs {_obs_fields(o['obs'])})")
        return f"Hist {cbytes(PLAIN.encode())} {clist(items, 'hstep')}"
    m = case["method"] if case["method"] in METHODS else "OTHER"
    route = "(@None nat)" if case["route"] < 0 else f"(Some {cnat(case['route'])})"
    authz = copt(case["authz"], lambda h: cbytes(_model_bytes_of_header(unhx(h).strip(b" \t"))), "bytes")
    toks = clist((copt(unhx(h) if _decodable(unhx(h)) else None, cbytes, "bytes") for _w, h in case["tokens"]), "(option bytes)")
    sfs = copt(case["sfs"], lambda s: cbytes(s.strip(" \t").encode()), "bytes")
    stored = cbytes((PLAIN if case.get("mode", "plain") == "plain" else ARGON_HASH).encode())
    bk = {"login_invalid": "KLoginInvalid", "login_required": "KLoginRequired", "empty": "KEmpty", "error_page": "KErrorPage", "other": "KOther"}[obs["body_kind"]]
    return (f"Req {route} {m} {COOKIE_COQ[case['cookie']]} {authz} {toks} {XSRF_COQ[case['xsrf']]} {sfs} {stored} "
            f"{cN(obs['status'])} {cbool(obs['ran'])} {cbool(obs['cookie_set'])} {bk} {cbool(obs['state_changed'])} {cbool(obs['leaked'])}")


# ------------------------------------------------------------------ oracle: the property on the implementation

def _norm(b: bytes) -> bytes:
    return bytes(0x20 if (c <= 8 or 14 <= c <= 31) else c for c in b).strip(b" \t\n\r\x0b\x0c")


def carries_valid_credentials(case, pw=None) -> bool:
    """Liberal reading of `carries a valid password/token or a valid session cookie`."""
    if pw is None:
        pw = (PLAIN if case.get("mode", "plain") == "plain" else ARGON_PLAIN).encode()
    if case["cookie"] == "valid":
        return True
    if any(_norm(unhx(h)) == pw for _w, h in case["tokens"]):
        return True
    if case["authz"] is not None:
        parts = unhx(case["authz"]).split()
        if parts and parts[0].lower() == b"bearer" and pw in parts[1:]:
            return True
    return False


def _what(case, obs, msg):
    cred = f"cookie={case['cookie']} authz={unhx(case['authz']) if case['authz'] else None!r} tokens={[unhx(h) for _w, h in case['tokens']]!r}"
    return (f"{case['method']} {case['path']} ({cred}, xsrf={case['xsrf']}, Sec-Fetch-Site={case['sfs']!r}, mode={case.get('mode')}) -> "
            f"{obs['status']}: {msg}")


def oracle(case, obs):
    if case.get("k") == "hist":
        # every request of a history is judged against the password valid AT THAT MOMENT
        out = []
        for i, o in enumerate(obs["steps"]):
            if "req" not in o:
                continue
            for v in _oracle_one(o["req"], o["obs"], unhx(o["pw"])):
                if v["key"].startswith("unauthenticated-") and any(carries_valid_credentials(o["req"], unhx(p)) for p in o["past"]):
                    v = {"key": "revoked-password-accepted",
                         "what": f"step {i} of history {[s.get('set') or 'req' for s in case['steps']]}: a password that was valid "
                                 f"earlier but is not the current one ({unhx(o['pw'])!r}) is still accepted: " + v["what"]}
                out.append(v)
        return out
    return _oracle_one(case, obs, None)


def _oracle_one(case, obs, pw):
    S = _setup()
    v = []
    route = case["route"]
    row = S["table"][route] if route >= 0 else None
    static = row is not None and row["kind"] == "Static"
    implemented = row is not None and any(m == case["method"] and k is not None for m, k in row["methods"])
    unsafe = case["method"] not in ("GET", "HEAD", "OPTIONS")
    sfs = case["sfs"].strip().lower() if case["sfs"] is not None else None
    cross = sfs in ("cross-site", "same-site")
    # 1. no valid credentials => refused with 403, nothing changes, nothing disclosed
    if not carries_valid_credentials(case, pw):
        if obs["state_changed"]:
            v.append({"key": "unauthenticated-state-changed", "what": _what(case, obs, "state changed without credentials")})
        if obs["leaked"]:
            v.append({"key": "unauthenticated-disclosure", "what": _what(case, obs, "response discloses flow/event/option data or the password")})
        if obs["cookie_set"]:
            v.append({"key": "unauthenticated-session-granted", "what": _what(case, obs, "auth cookie issued without credentials")})
        if static:
            if obs["ran"]:
                v.append({"key": "static-unauthenticated", "what": _what(case, obs, "static file handler serves without authentication")})
        else:
            if obs["ran"]:
                v.append({"key": "unauthenticated-handler-ran", "what": _what(case, obs, "handler body executed without credentials")})
            ok = (403,) if implemented else (403, 404, 405)
            if obs["status"] not in ok:
                undec = any(not _decodable(unhx(h)) for _w, h in case["tokens"])
                nonascii = any(max(unhx(h), default=0) > 127 for _w, h in case["tokens"]) or (case["authz"] and max(unhx(case["authz"])) > 127)
                if obs["status"] == 400 and undec:
                    key = "undecodable-token-400"
                elif obs["status"] == 500 and unsafe and case["sfs"] is not None and case["sfs"] not in ("same-origin", "none"):
                    key = "cross-site-500"
                elif obs["status"] == 500 and nonascii:
                    key = "nonascii-password-500"
                else:
                    key = "unauthenticated-not-403"
                v.append({"key": key, "what": _what(case, obs, f"expected {ok}")})
    # 2. state-changing requests need a valid XSRF token and must not be cross-site
    if unsafe and case["xsrf"] not in XSRF_OK and (obs["ran"] or obs["state_changed"]):
        v.append({"key": "xsrf-missing-accepted", "what": _what(case, obs, "unsafe method executed without a valid XSRF token")})
    if unsafe and cross and (obs["ran"] or obs["state_changed"]):
        v.append({"key": "cross-site-accepted", "what": _what(case, obs, "unsafe method executed although marked cross-site")})
    # 3. safe methods are not state-changing (so rule 2 covers every state change)
    if not unsafe and obs["state_changed"]:
        v.append({"key": "safe-method-changes-state", "what": _what(case, obs, "GET/HEAD/OPTIONS changed state")})
    return v


def nontrivial(case, obs):
    if case.get("k") == "hist":
        return any("set" in st for st in case["steps"]) and any("req" in st for st in case["steps"])
    return (case["cookie"] != "none" or case["authz"] is not None or bool(case["tokens"]) or case["xsrf"] != "none"
            or case["sfs"] is not None or case["method"] not in ("GET", "HEAD", "OPTIONS"))


def classify(case, obs):
    if case.get("k") == "hist":
        tags = ["hist", "hist-len:" + str(len(case["steps"]))]
        tags += ["hist-set:" + st["set"] for st in case["steps"] if "set" in st]
        for st, o in zip(case["steps"], obs["steps"]):
            if "req" in st:
                tags.append(f"hist-req:{st['req']['cred']['which']}/{st['req']['cred']['via']}:" + ("ran" if o["obs"]["ran"] else "refused"))
        return tags
    S = _setup()
    row = S["table"][case["route"]] if case["route"] >= 0 else None
    tags = ["route:" + (row["cls"] if row else "none"), "method:" + (case["method"] if case["method"] in METHODS else "OTHER"),
            "cookie:" + case["cookie"], "xsrf:" + case["xsrf"], "status:" + str(obs["status"]),
            "sfs:" + ("absent" if case["sfs"] is None else case["sfs"] if case["sfs"] in SFS_MAIN else "adversarial"),
            "authz:" + ("absent" if case["authz"] is None else "bearer" if unhx(case["authz"]).startswith(b"Bearer ") else "other"),
            "tokens:" + str(len(case["tokens"])), "mode:" + case.get("mode", "plain"),
            "ran" if obs["ran"] else "refused", "creds:" + ("valid" if carries_valid_credentials(case) else "invalid")]
    if obs["cookie_set"]:
        tags.append("session-granted")
    if obs["state_changed"]:
        tags.append("state-changed")
    if case.get("ws", "none") != "none":
        tags.append("ws:" + case["ws"])
    return tags
