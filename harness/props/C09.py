"""C09 — Connection lifecycle events pair up and per-destination concurrency is bounded
(mitmproxy/proxy/server.py: ConnectionHandler)."""
import collections.abc

from lib.coqterm import cbytes

ID = "C09"
QUICK_N = 1500
THOROUGH_N = 12000
SHARD = 250
COQ_PRELUDE = ""
RULE = ("a case is a layer script (the commands the top layer answers to its n-th event: OpenConnection to one of 3 addresses "
        "or to no address, CloseConnection, half-close, SendData, StartHook, Log) plus <=30 action intents (complete a pending "
        "hook with/without kill, deliver data/EOF/OSError to a pending read, complete a pending connect ok/refused, idle "
        "timeout, break a writer, put a writer above its high-water mark so that drain() blocks, complete a blocked drain ok/OSError); the real ConnectionHandler runs on a real asyncio loop with fake streams, every await "
        "point is a harness future, and the order in which the loop stepped the tasks is recorded and replayed by the model. "
        "An epilogue completes pending hooks and times the client out so handle_client finishes. 25% of cases are built "
        "around a burst of 6-8 opens to one address, 17% cancel/close-heavy, 25% write backpressure (congested writers, handlers "
        "blocked in drain_writers or queued on its lock when cancellations arrive). Non-trivial = at least one upstream attempt "
        "reached server_connect and handle_client finished; distinct by canonical JSON.")
TRUSTED = ["Coq 8.16.1 kernel; vm_compute for case evaluation",
           "hand model of ConnectionHandler (handle_client, open_connection, handle_connection, close_connection, hook_task, "
           "server_event, on_timeout) and of CPython 3.12 Task.cancel / asyncio.Semaphore / asyncio.wait wake-up semantics, tied by correspondence",
           "harness: coroutine wrapper installed through loop.set_task_factory records which task the loop steps (send/throw); "
           "fake StreamReader/StreamWriter/asyncio.open_connection; scripted top layer",
           "byte encoding of cases (harness coq_case) and its decoder (Corr/C09.v decode; any decoding failure counts as a disagreement)"]
ASSUMPTIONS = ["the model lets ANY ready task run next; the real loop is FIFO, so theorems cover a superset of CPython schedules",
               "writer.drain() is an await point: a congested fake writer blocks in drain() until the schedule completes it (ok / OSError) "
               "or the task is cancelled; self._drain_lock (asyncio.Lock 3.12) is modelled with its FIFO waiters",
               "handle_client itself is never cancelled from outside; RequestWakeup timers, UDP transports, eager task factories, "
               "garbage collection of unreferenced tasks and real socket errors are outside the model",
               "a cancellation that arrives while a task is inside asyncio.open_connection is treated as atomic (asyncio cleans its own socket)"]

ADDRS = 3
HOOKS = ["client_connected", "client_disconnected", "server_connect", "server_connected", "server_connect_error",
         "server_disconnected", "next_layer"]


# ------------------------------------------------------------------ generator
def _cmds(rng, ncon, style):
    out = []
    for _ in range(rng.weighted([(3, 0), (4, 1), (2, 2), (1, 3)])):
        r = rng.random()
        c = rng.below(max(1, ncon[0] + 1))
        if style == "burst" and r < 0.5:
            r = 0.0
        if style == "closey" and 0.4 <= r < 0.8:
            r = 0.5
        if r < 0.38:
            a = rng.below(ADDRS) if style != "burst" else 0
            out.append(["open", None if rng.chance(0.05) else a])
            ncon[0] += 1
        elif r < 0.58:
            out.append(["close", c])
        elif r < 0.70:
            out.append(["half", c])
        elif r < 0.78:
            out.append(["send", c])
        elif r < 0.94:
            out.append(["hook"])
        else:
            out.append(["log"])
    return out


def gen(rng, n, tier):
    out = []
    for _ in range(n):
        style = rng.weighted([(4, "mixed"), (3, "burst"), (2, "closey"), (3, "backpressure")])
        ncon = [0]
        script = []
        if style == "burst":
            k = rng.randint(6, 8)
            script.append([["open", 0] for _ in range(k)] + ([["close", rng.randint(1, k)]] if rng.chance(0.3) else []))
            ncon[0] = k
        for _ in range(rng.randint(1, 14)):
            script.append(_cmds(rng, ncon, style))
        acts = []
        if style == "backpressure":
            script.insert(0, [["open", rng.below(ADDRS)]] + ([["open", rng.below(ADDRS)]] if rng.chance(0.4) else []))
            acts = [["hook", 0, False], ["hook", 0, False], ["hook", 0, False], ["conn", 0, True], ["conn", 0, True],
                    ["hook", 0, False], ["hook", 0, False], ["congest", rng.below(3)]]
            if rng.chance(0.5):
                acts.append(["congest", rng.below(3)])
        for _ in range(rng.randint(2, 30)):
            r = rng.random()
            s = rng.below(16)
            if style == "mixed" and rng.chance(0.3):
                r = r * 0.88          # calmer runs: completions only
            if r < 0.36:
                acts.append(["hook", s, rng.chance(0.05)])
            elif r < 0.62:
                acts.append(["read", s, rng.weighted([(5, "data"), (3, "eof"), (2, "err")])])
            elif r < 0.88:
                acts.append(["conn", s, rng.chance(0.75)])
            elif r < 0.93:
                acts.append(["timeout"])
            elif r < 0.96 or style != "backpressure":
                acts.append(["break", s] if rng.chance(0.6) else ["congest", s])
            else:
                acts.append(["congest", s])
            if style == "backpressure" and rng.chance(0.35):
                acts.append(rng.weighted([(3, ["read", s, "data"]), (2, ["drain", rng.chance(0.7)]), (2, ["congest", s]),
                                          (1, ["timeout"])]))
            elif rng.chance(0.04):
                acts.append(["drain", rng.chance(0.7)])
        out.append({"script": script, "acts": acts})
    return out


# ------------------------------------------------------------------ implementation on a real loop
def setup_impl():
    global asyncio, server, commands, events, layer, connection, options, mode_specs, server_hooks, logging
    import asyncio
    import logging
    from mitmproxy import connection, options
    from mitmproxy.proxy import commands, events, layer, mode_specs, server, server_hooks
    logging.getLogger("mitmproxy.proxy.server").disabled = True


class _Coro(collections.abc.Coroutine):
    """Coroutine proxy: records every step the event loop gives to a task."""
    def __init__(self, coro, H):
        self.c, self.H, self.tid = coro, H, H.identify(coro)

    def _step(self, f, *a):
        if self.tid is not None:
            self.H.log.append(["run", self.tid, f == "throw"])
        try:
            return getattr(self.c, f)(*a)
        except StopIteration:
            self._fin(0)
            raise
        except asyncio.CancelledError:
            self._fin(1)
            raise
        except BaseException:
            self._fin(2)
            raise

    def _fin(self, k):
        if self.tid is not None:
            self.H.log.append(["done", self.tid, k])
            self.H.alive.discard(tuple(self.tid))

    def send(self, v):
        return self._step("send", v)

    def throw(self, *a):
        return self._step("throw", *a)

    def close(self):
        return self.c.close()

    def __await__(self):
        return self


class _Harness:
    def __init__(self, case):
        self.case = case
        self.log = []
        self.cid = {}          # Connection -> ordinal
        self.conns = []
        self.hookid = {}       # id(StartHook) -> ordinal
        self.hooks_made = []
        self.alive = set()
        self.pend_hook = {}    # tid tuple -> future
        self.pend_read = {}    # cid -> future
        self.pend_conn = {}    # cid -> future
        self.pend_drain = {}   # cid of the task blocked in drain -> future
        self.writers = {}
        self.script = [list(x) for x in case["script"]]
        self.nev = 0

    def identify(self, coro):
        name = getattr(coro, "__qualname__", "")
        loc = coro.cr_frame.f_locals if getattr(coro, "cr_frame", None) is not None else {}
        tid = None
        if name.endswith("handle_client"):
            tid = ["main"]
        elif name.endswith(".open_connection"):
            tid = ["c", self.cid[loc["command"].connection]]
        elif name.endswith(".handle_connection"):
            tid = ["c", self.cid[loc["connection"]]]
        elif name.endswith(".hook_task"):
            tid = ["h", self.hookid[id(loc["hook"])]]
        if tid is not None:
            self.alive.add(tuple(tid))
        return tid

    def cur(self):
        t = asyncio.current_task()
        return getattr(t.get_coro(), "tid", None)


class _Reader:
    def __init__(self, H, c):
        self.H, self.c = H, c

    async def read(self, n):
        self.H.log.append(["read", self.c])
        fut = asyncio.get_running_loop().create_future()
        self.H.pend_read[self.c] = fut
        try:
            r = await fut
        finally:
            if self.H.pend_read.get(self.c) is fut:
                del self.H.pend_read[self.c]
        if r == "err":
            raise OSError("reset")
        return b"x" if r == "data" else b""


class _Writer:
    def __init__(self, H, c):
        self.H, self.c, self.closed, self.broken, self.congested = H, c, False, False, False

    def get_extra_info(self, name, default=None):
        return {"peername": ("10.0.0.%d" % self.c, 80), "sockname": ("10.9.9.9", 1000 + self.c)}.get(name, default)

    def is_closing(self):
        return self.closed

    def write(self, data):
        self.H.log.append(["write", self.c])

    def write_eof(self):
        if self.broken:
            raise OSError("broken")
        self.H.log.append(["eof", self.c])

    def close(self):
        self.H.log.append(["close", self.c])
        self.closed = True

    async def drain(self):
        if self.closed:
            return
        if self.broken:
            raise OSError("broken")
        if self.congested:      # above the high-water mark: block until the schedule completes the drain
            H = self.H
            t = H.cur()[1]
            H.log.append(["drainwait", self.c])
            fut = asyncio.get_running_loop().create_future()
            H.pend_drain[t] = fut
            try:
                ok = await fut
            except asyncio.CancelledError:
                H.log.append(["xdrain_cancel", t, self.c])
                raise
            finally:
                if H.pend_drain.get(t) is fut:
                    del H.pend_drain[t]
            self.congested = False
            if not ok:
                raise OSError("write failed")


class _Layer:
    def __init__(self, H):
        self.H = H

    def handle_event(self, ev):
        H = self.H
        if isinstance(ev, events.Start):
            e = ["ev", "start", 0, False]
        elif isinstance(ev, events.DataReceived):
            e = ["ev", "data", H.cid[ev.connection], False]
        elif isinstance(ev, events.ConnectionClosed):
            e = ["ev", "closed", H.cid[ev.connection], False]
        elif isinstance(ev, events.OpenConnectionCompleted):
            e = ["ev", "occ", H.cid[ev.command.connection], ev.reply is not None]
        elif isinstance(ev, events.HookCompleted):
            e = ["ev", "hookdone", H.hookid[id(ev.command)], False]
        else:
            e = ["ev", "other", 0, False]
        H.log.append(e)
        cmds = H.script.pop(0) if H.script else []
        return self._gen(cmds)

    def _gen(self, cmds):
        # lazily, like a real layer generator: after a crash in server_event the rest is never produced
        H = self.H
        for c in cmds:
            k = c[0]
            if k == "open":
                s = connection.Server(address=None if c[1] is None else ("host%d" % c[1], 80))
                H.cid[s] = len(H.conns)
                H.conns.append(s)
                H.addr_of[len(H.conns) - 1] = c[1]
                yield commands.OpenConnection(s)
            elif k in ("close", "half", "send"):
                if c[1] >= len(H.conns):
                    continue
                conn = H.conns[c[1]]
                yield (commands.CloseConnection(conn) if k == "close" else
                           commands.CloseTcpConnection(conn, half_close=True) if k == "half" else
                           commands.SendData(conn, b"y"))
            elif k == "hook":
                hk = layer.NextLayerHook(None)
                H.hookid[id(hk)] = len(H.hooks_made)
                H.hooks_made.append(hk)
                yield hk
            else:
                yield commands.Log("x", logging.DEBUG)


def run_impl(case):
    H = _Harness(case)
    H.addr_of = {}

    async def fake_open(host, port, local_addr=None):
        tid = H.cur()
        c = tid[1]
        H.log.append(["connect", c])
        fut = asyncio.get_running_loop().create_future()
        H.pend_conn[c] = fut
        try:
            ok = await fut
        except asyncio.CancelledError:
            H.log.append(["xconn_cancel", c])
            raise
        finally:
            if H.pend_conn.get(c) is fut:
                del H.pend_conn[c]
        if not ok:
            H.log.append(["xconn_fail", c])
            raise OSError("refused")
        w = _Writer(H, c)
        H.writers[c] = w
        return _Reader(H, c), w

    class _Shim:
        def __getattr__(self, name):
            return fake_open if name == "open_connection" else getattr(asyncio, name)

    class Handler(server.LiveConnectionHandler):
        async def handle_hook(self, hook):
            (data,) = hook.args()
            if hook.name.startswith("client_"):
                c = 0
            elif hook.name.startswith("server_"):
                c = H.cid[data.server]
            else:
                c = H.hookid[id(hook)]
            tid = tuple(H.cur())
            H.log.append(["hook", HOOKS.index(hook.name), c])
            fut = asyncio.get_running_loop().create_future()
            H.pend_hook[tid] = fut
            try:
                kill = await fut
            except asyncio.CancelledError:
                H.log.append(["xhook_cancel", HOOKS.index(hook.name), c])
                raise
            finally:
                if H.pend_hook.get(tid) is fut:
                    del H.pend_hook[tid]
            if kill:
                if hook.name == "client_connected":
                    data.error = "killed"
                elif hook.name == "server_connect":
                    data.server.error = "killed"

        def log(self, message, level=logging.INFO, exc_info=None):
            if message.startswith("mitmproxy has crashed"):
                H.log.append(["crash"])
            elif message.startswith("connection handler has crashed"):
                H.log.append(["hcrash"])

    saved = server.asyncio
    server.asyncio = _Shim()
    loop = asyncio.new_event_loop()
    loop.set_exception_handler(lambda lp, ctx: None)
    loop.set_task_factory(lambda lp, coro, **kw: asyncio.Task(_Coro(coro, H), loop=lp, **kw))
    try:
        async def main():
            cw = _Writer(H, 0)
            H.writers[0] = cw
            h = Handler(_Reader(H, 0), cw, options.Options(), mode_specs.ProxyMode.parse("regular"))
            H.cid[h.client] = 0
            H.conns.append(h.client)
            h.layer = _Layer(H)
            real_sleep = asyncio.sleep

            def snap():
                tr = sorted([H.cid[c], io.writer is not None, bool(io.writer and io.writer.closed)]
                            for c, io in h.transports.items())
                sems = sorted([int(a[0][4:]), s._value, len(s._waiters or ())] for a, s in h.max_conns.items())
                lk = h._drain_lock
                H.log.append(["snap", tr, sems, [int(lk.locked()), len(lk._waiters or ())]])

            async def settle():
                idle = 0
                while idle < 4:
                    n = len(H.log)
                    await real_sleep(0)
                    idle = idle + 1 if len(H.log) == n else 0
                snap()

            mt = asyncio.get_running_loop().create_task(h.handle_client())
            await settle()

            async def act(a):
                k = a[0]
                if k == "hook":
                    keys = sorted(H.pend_hook)
                    if not keys:
                        return
                    t = keys[a[1] % len(keys)]
                    H.log.append(["act", "hook", list(t), bool(a[2])])
                    H.pend_hook[t].set_result(bool(a[2]))
                elif k == "read":
                    keys = sorted(H.pend_read)
                    if not keys:
                        return
                    c = keys[a[1] % len(keys)]
                    H.log.append(["act", "read", c, a[2]])
                    H.pend_read[c].set_result(a[2])
                elif k == "conn":
                    keys = sorted(H.pend_conn)
                    if not keys:
                        return
                    c = keys[a[1] % len(keys)]
                    H.log.append(["act", "conn", c, bool(a[2])])
                    H.pend_conn[c].set_result(bool(a[2]))
                elif k == "timeout":
                    H.log.append(["act", "timeout"])
                    try:
                        await h.on_timeout()
                    except AssertionError:
                        pass
                elif k == "congest":
                    keys = sorted(c for c, w in H.writers.items() if not w.congested)
                    if not keys:
                        return
                    c = keys[a[1] % len(keys)]
                    H.log.append(["act", "congest", c])
                    H.writers[c].congested = True
                elif k == "drain":
                    keys = sorted(H.pend_drain)
                    if not keys:
                        return
                    c = keys[0]
                    H.log.append(["act", "drain", c, bool(a[1])])
                    H.pend_drain[c].set_result(bool(a[1]))
                elif k == "break":
                    keys = sorted(c for c, w in H.writers.items() if not w.broken)
                    if not keys:
                        return
                    c = keys[a[1] % len(keys)]
                    H.log.append(["act", "break", c])
                    H.writers[c].broken = True
                await settle()

            for a in case["acts"]:
                await act(a)
            # epilogue: let handle_client finish
            for _ in range(400):
                if H.pend_hook:
                    await act(["hook", 0, False])
                elif not mt.done() and ("c", 0) in H.alive:
                    await act(["timeout"])
                else:
                    break
            H.main_done = mt.done()
            H.writers_final = sorted([c, w.closed] for c, w in H.writers.items())
            H.leftover = sorted(list(t) for t in H.alive)
            for _ in range(12):      # harness cleanup (not part of the observation)
                rest = [t for t in asyncio.all_tasks() if t is not asyncio.current_task() and not t.done()]
                if not rest:
                    break
                for t in rest:
                    t.cancel()
                for _ in range(3):
                    await real_sleep(0)
        loop.run_until_complete(main())
    finally:
        server.asyncio = saved
        try:
            loop.run_until_complete(loop.shutdown_asyncgens())
        finally:
            loop.close()
    # cut the log at the end of the epilogue (the final cancel sweep is harness cleanup)
    last = max(i for i, e in enumerate(H.log) if e[0] == "snap")
    return {"log": H.log[:last + 1], "main_done": H.main_done, "leftover": H.leftover,
            "writers": H.writers_final,
            "addr": [[c, a] for c, a in sorted(H.addr_of.items())]}


# ------------------------------------------------------------------ Coq terms
# A case is shipped as one byte list decoded by Corr/C09.v (decode)
# (see Corr/C09.v for the format); 63 = END.
END = 63
_RR = {"data": 0, "eof": 1, "err": 2}


def _tid(t):
    return [0] if t[0] == "main" else [1, t[1]] if t[0] == "c" else [2, t[1]]


def _cmd(c):
    k = c[0]
    if k == "open":
        return [2] if c[1] is None else [1, c[1]]
    if k in ("close", "half", "send"):
        return [{"close": 3, "half": 4, "send": 5}[k], c[1]]
    return [6] if k == "hook" else [7]


def _ev(e):
    k = e[0]
    if k == "hook":
        return [0, e[1], e[2]]
    if k == "ev":
        return {"start": [1], "data": [2, e[2]], "closed": [3, e[2]], "occ": [4, e[2], int(e[3])],
                "hookdone": [5, e[2]]}.get(e[1], [60])
    if k in ("connect", "read", "write", "eof", "close"):
        return [{"connect": 6, "read": 7, "write": 8, "eof": 9, "close": 10}[k], e[1]]
    if k == "crash":
        return [11]
    if k == "done":
        return [12] + _tid(e[1]) + [e[2]]
    if k == "drainwait":
        return [13, e[1]]
    if k == "hcrash":
        return [60]          # not decodable: forces a disagreement
    return None


def _enc(nums):
    out = bytearray()
    for n in nums:
        assert 0 <= n < 65536
        if n < 255:
            out.append(n)
        else:
            out += bytes([255, n // 256, n % 256])
    return bytes(out)


def coq_case(case, obs):
    toks, last_snap = [], None
    for cs in case["script"]:
        for c in cs:
            toks += _cmd(c)
        toks.append(0)
    toks.append(END)
    trace = []
    for e in obs["log"]:
        k = e[0]
        if k == "run":
            toks += [5] + _tid(e[1]) + [int(e[2])]
        elif k == "act":
            a = e[1]
            if a == "hook":
                toks += [0] + _tid(e[2]) + [int(e[3])]
            elif a == "read":
                toks += [1, e[2], _RR[e[3]]]
            elif a == "conn":
                toks += [2, e[2], int(e[3])]
            elif a == "timeout":
                toks += [3]
            elif a == "congest":
                toks += [8, e[2]]
            elif a == "drain":
                toks += [9, e[2], int(e[3])]
            else:
                toks += [4, e[2]]
        elif k == "snap":
            cur = [6, len(e[1])]
            for x in e[1]:
                cur += [x[0], int(x[1]), int(x[2])]
            cur.append(len(e[2]))
            for x in e[2]:
                cur += [x[0], x[1], x[2]]
            cur += e[3]
            toks += [7] if cur == last_snap else cur
            last_snap = cur
        elif k.startswith("x"):
            continue
        else:
            t = _ev(e)
            if t is not None:
                trace += t
    toks.append(END)
    toks += trace + [END, int(obs["main_done"])]
    return cbytes(_enc(toks))


# ------------------------------------------------------------------ oracle: the property on the real trace
def _analyse(obs):
    """per upstream connection: hook word, where a cancellation hit, socket open/closed"""
    log = obs["log"]
    info = {}
    client = []
    addr = dict((c, a) for c, a in obs["addr"])

    def g(c):
        return info.setdefault(c, {"w": [], "xhook": None, "attempt": False, "sock": 0, "done": None, "ran": False,
                                   "created_after_cd": False})
    cd_seen = False
    sock_open = {}   # addr -> set of conns with an attempt in flight or a socket open
    peak = {}
    n_created = 1
    teardown = False
    for e in log:
        k = e[0]
        if k == "hook":
            name = HOOKS[e[1]]
            if name.startswith("client_"):
                client.append(name)
            elif name.startswith("server_"):
                g(e[2])["w"].append(name)
        elif k == "xhook_cancel" and HOOKS[e[1]].startswith("server_"):
            g(e[2])["xhook"] = HOOKS[e[1]]
        elif k == "connect":
            g(e[1])["attempt"] = True
            a = addr.get(e[1])
            sock_open.setdefault(a, set()).add(e[1])
            peak[a] = max(peak.get(a, 0), len(sock_open[a]))
        elif k in ("xconn_cancel", "xconn_fail"):
            sock_open.get(addr.get(e[1]), set()).discard(e[1])
        elif k == "close" and e[1] != 0:
            sock_open.get(addr.get(e[1]), set()).discard(e[1])
            g(e[1])["sock"] = 2
        elif k == "done" and e[1][0] == "c" and e[1][1] != 0:
            g(e[1][1])["done"] = e[2]
        elif k == "run" and e[1][0] == "c" and e[1][1] != 0:
            g(e[1][1])["ran"] = True
    return client, info, peak, sock_open


def oracle(case, obs):
    v = []
    client, info, peak, sock_open = _analyse(obs)
    log = obs["log"]
    # (1) client hooks
    want = ["client_connected", "client_disconnected"] if obs["main_done"] else None
    if client[:1] != ["client_connected"] or len(client) > 2 or (len(client) == 2 and client[1] != "client_disconnected") \
            or (want and client != want):
        v.append({"key": "client-hooks-unpaired", "what": f"client hook sequence {client}"})
    leftover = {tuple(t) for t in obs["leftover"]}
    # which upstream tasks were created after client_disconnected had been called
    cd_at = next((i for i, e in enumerate(log) if e[0] == "hook" and HOOKS[e[1]] == "client_disconnected"), None)
    late = set()
    if cd_at is not None:
        # teardown snapshot is taken when handle_client resumes after that hook
        resumed = next((i for i in range(cd_at + 1, len(log)) if log[i][0] == "run" and log[i][1] == ["main"]), None)
        if resumed is not None:
            seen = {0}
            for i, e in enumerate(log):
                if e[0] == "run" and e[1][0] == "c" and e[1][1] not in seen:
                    seen.add(e[1][1])
            first_mention = {}
            for i, e in enumerate(log):
                if e[0] in ("run", "done") and e[1][0] == "c":
                    first_mention.setdefault(e[1][1], i)
                elif e[0] == "snap":
                    for x in e[1]:
                        first_mention.setdefault(x[0], i)
            late = {c for c, i in first_mention.items() if i > resumed and c != 0}
    # (2) per upstream attempt
    for c, d in sorted(info.items()):
        w = d["w"]
        if not w:
            continue
        pending = ("c", c) in leftover
        ok_words = (["server_connect", "server_connect_error"],
                    ["server_connect", "server_connected", "server_disconnected"])
        if w in ok_words:
            continue
        prefix_ok = w in (["server_connect"], ["server_connect", "server_connected"])
        if not prefix_ok:
            v.append({"key": "server-hooks-malformed", "what": f"connection {c}: hook sequence {w}"})
        elif pending and c in late:
            v.append({"key": "open-after-teardown", "what": f"connection {c} was opened after handle_client took its final "
                      f"snapshot of transports; it is neither cancelled nor awaited (hooks so far {w})"})
        elif pending:
            v.append({"key": "server-task-stuck", "what": f"connection {c}: task still pending at the end with hooks {w}"})
        elif w == ["server_connect"] and d["xhook"] == "server_connect":
            v.append({"key": "cancel-in-server-connect-hook", "what": f"connection {c}: cancelled while the server_connect "
                      "hook was awaited: neither server_connected nor server_connect_error fired"})
        elif w == ["server_connect"] and not d["attempt"]:
            v.append({"key": "cancel-at-semaphore", "what": f"connection {c}: cancelled while waiting for the per-address "
                      "semaphore after server_connect: neither server_connected nor server_connect_error fired"})
        elif w == ["server_connect", "server_connected"] and d["xhook"] == "server_connected":
            v.append({"key": "cancel-in-server-connected-hook", "what": f"connection {c}: cancelled while the server_connected "
                      "hook was awaited: no server_disconnected, writer never closed, transports entry left"})
        else:
            v.append({"key": "server-hooks-unpaired", "what": f"connection {c}: hook sequence {w} with no known cause"})
    # (3) at most five per address (attempts in flight + sockets not yet closed)
    lost_connected = {c for c, d in info.items() if d["xhook"] == "server_connected" and d["w"][-1:] == ["server_connected"]}
    for a, p in sorted(peak.items(), key=lambda x: str(x[0])):
        if p > 5:
            # recount without the sockets leaked by the server_connected-hook cancellation
            cur, pk = set(), 0
            addr = dict((c, x) for c, x in obs["addr"])
            for e in log:
                if e[0] == "connect" and addr.get(e[1]) == a:
                    cur.add(e[1])
                    pk = max(pk, len(cur - lost_connected))
                elif e[0] in ("xconn_cancel", "xconn_fail", "close") and e[1] in cur:
                    cur.discard(e[1])
            if pk > 5:
                v.append({"key": "more-than-five-per-address", "what": f"{p} concurrent upstream connections to address {a}"})
            else:
                v.append({"key": "cancel-in-server-connected-hook", "what": f"address {a}: {p} sockets open at once because "
                          "sockets leaked by a cancelled server_connected hook no longer hold the semaphore"})
    # (4) nothing left once handle_client has returned
    if obs["main_done"]:
        last = [e for e in log if e[0] == "snap"][-1]
        for c, has_w, closed in last[1]:
            if has_w and not closed:
                if c in lost_connected:
                    key = "cancel-in-server-connected-hook"
                elif c in late:
                    key = "open-after-teardown"
                elif c == 0 and not any(e[0] == "read" and e[1] == 0 for e in log):
                    key = "client-cancelled-before-start"
                else:
                    key = "socket-left-open"
                v.append({"key": key, "what": f"handle_client returned but connection {c} still has an open writer in transports"})
            elif has_w and closed:
                v.append({"key": "transport-entry-left", "what": f"handle_client returned but transports still holds connection {c} "
                          "(writer closed, entry never popped)"})
        for t in sorted(leftover):
            if t[0] == "c" and t[1] != 0 and t[1] in late and not any(x["key"] == "open-after-teardown" for x in v):
                v.append({"key": "open-after-teardown", "what": f"connection {t[1]} task outlives handle_client"})
            elif t[0] == "c" and t[1] not in late and t[1] != 0:
                # tasks whose entry was popped before the snapshot are only waiting for server_disconnected to return
                w = info.get(t[1], {}).get("w", [])
                if w[-1:] != ["server_disconnected"] and not any(x["what"].startswith(f"connection {t[1]}") for x in v):
                    v.append({"key": "server-task-stuck", "what": f"connection {t[1]} task outlives handle_client (hooks {w})"})
    # (5) every writer was closed once handle_client has returned
    if obs["main_done"]:
        for c, closed in obs["writers"]:
            if not closed and not any(x["what"].find(f"connection {c} ") >= 0 or x["what"].startswith(f"connection {c}:") for x in v):
                if c in lost_connected:
                    key = "cancel-in-server-connected-hook"
                elif c in late:
                    key = "open-after-teardown"
                elif c == 0 and not any(e[0] == "read" and e[1] == 0 for e in log):
                    key = "client-cancelled-before-start"
                else:
                    key = "writer-never-closed"
                v.append({"key": key, "what": f"handle_client returned but the writer of connection {c} was never closed"})
    # (6) ConnectionClosed is delivered for every connection whose handler ran and ended
    ended = {e[1][1] for e in log if e[0] == "done" and e[1][0] == "c"}
    for c in sorted(ended):
        if any(e[0] == "read" and e[1] == c for e in log) and not any(e[0] == "ev" and e[1] == "closed" and e[2] == c for e in log):
            v.append({"key": "connection-closed-not-delivered",
                      "what": f"the handler of connection {c} ended but the layer never received ConnectionClosed for it"})
    # de-duplicate by key+what
    out, seen = [], set()
    for x in v:
        if (x["key"], x["what"]) not in seen:
            seen.add((x["key"], x["what"]))
            out.append(x)
    return out


def nontrivial(case, obs):
    return obs["main_done"] and any(e[0] == "hook" and HOOKS[e[1]] == "server_connect" for e in obs["log"])


def classify(case, obs):
    log = obs["log"]
    t = set()
    hooks = [HOOKS[e[1]] for e in log if e[0] == "hook"]
    for h in ("server_connected", "server_connect_error", "server_disconnected"):
        if h in hooks:
            t.add(h)
    if any(e[0] == "snap" and any(s[2] > 0 for s in e[2]) for e in log):
        t.add("semaphore-waiters")
    if any(e[0] == "run" and e[2] for e in log):
        t.add("cancel-delivered")
    if any(e[0] == "crash" for e in log):
        t.add("server_event-crash")
    if any(e[0] == "eof" for e in log):
        t.add("half-close")
    if any(e[0] == "drainwait" for e in log):
        t.add("drain-blocked")
    if any(e[0] == "xdrain_cancel" for e in log):
        t.add("cancelled-in-drain")
    if any(e[0] == "snap" and e[3][1] > 0 for e in log):
        t.add("drain-lock-waiters")
    if any(e[0] == "act" and e[1] == "hook" and e[3] for e in log):
        t.add("kill")
    if not obs["main_done"]:
        t.add("main-not-done")
    if obs["leftover"]:
        t.add("tasks-left")
    for x in oracle(case, obs):
        t.add("finding:" + x["key"])
    return sorted(t) or ["plain"]
