"""C08 — Upstream connection reuse never sends a request to the wrong destination
(mitmproxy/proxy/layers/http/__init__.py: HttpLayer.get_connection / register_connection / connections /
waiting_for_establishment, GetHttpConnection.connection_spec_matches, HttpStream.make_server_connection;
mitmproxy/connection.py: Server.__setattr__)."""
import re

from lib.coqterm import cN, cbool, cbytes, clist, copt

ID = "C08"
QUICK_N = 1000
THOROUGH_N = 8000
SHARD = 84
COQ_PRELUDE = "From MV Require Import Model.HttpRoutingBase Gen.ConnSpec Model.HttpRouting.\n"
TRANSLATORS = ["conn_spec"]
ALLOWED_AXIOMS = []
RULE = ("a case is a client connection (mode regular / upstream / transparent with a preset context.server, client HTTP/1 "
        "or HTTP/2) and a history of <= 12 operations over 3 hosts (one of them the upstream proxy's own name) x 3 ports x 2 "
        "schemes x {no via, 3 vias}: requests (addon rewrites of request.host/port/scheme, of flow.server_conn.via, "
        "replacement of flow.server_conn by a fresh Server, optionally udp, in the requestheaders or request hook), TCP connect "
        "success / failure / deferred completion, upstream CONNECT accepted / refused, TLS handshake ok / failed / ALPN h2, "
        "server answers with and without close, peer closes (also: read side closed before the layer sees the event), attempts to assign Server.address / .via (same / different "
        "value, open / closed object). 70% of the requests repeat an earlier destination (reuse, queueing on a pending "
        "connection, cached errors), 30% are fresh or collide with a carrier address. Non-trivial = at least two "
        "GetHttpConnection commands or a rejected assignment; distinct by canonical JSON.")
TRUSTED = ["Coq 8.16.1 kernel (coqc), vm_compute for case evaluation",
           "harness/props/C08.py: generator, recording subclass of HttpLayer (overrides get_connection / register_connection / "
           "event_to_child only to log arguments and results, then calls the real method), comparison glue Corr/C08.v",
           "harness/translators/conn_spec.py (ast -> Gallina for connection_spec_matches and the GetHttpConnection arguments of make_server_connection)",
           "TLS is not performed: tls.ServerTLSLayer is replaced by a subclass that keeps the real __init__ (conn.tls = True), the real "
           "tunnel state machine and the real on_handshake_error (conn.error = err) but takes the handshake result and ALPN from the case",
           "harness/lib/sansio.py plays proxy/server.py (connection state updates; the connect callback sets connection.error like open_connection does)",
           "contract of HttpClient / tunnel layers used as a hypothesis of the routing theorem: RegisterHttpConnection(conn, None) is only "
           "issued for an open connection without error; checked on every run by comparing the connection attributes at each reply"]
ASSUMPTIONS = ["nobody assigns address / tls / via / transport_protocol of a Server between its creation by get_connection and its "
               "RegisterHttpConnection (hypothesis respects_pending of C08_routing; an addon doing so in server_connect redirects deliberately)",
               "CONNECT requests (HttpStream.handle_connect) and the 'peer is doing something on an unused context.server' branch of "
               "HttpLayer._handle_event are not modelled",
               "host names are ASCII; Python str equality is byte-wise equality of the UTF-8 encodings"]

HOSTS = ["a.test", "b.test", "proxy"]
PORTS = [80, 443, 8080]
VIAS = [["http", "proxy", 8080], ["https", "proxy", 8080], ["http", "b.test", 80]]
OTHER_ADDR = ("z.test", 1)
OTHER_VIA = ("http", ("z.test", 2))

# ------------------------------------------------------------------------------------------------ implementation side
_S = {}


def setup_impl():
    import h2.config
    import h2.connection
    import h2.events
    from mitmproxy import connection
    from mitmproxy.net import server_spec
    from mitmproxy.proxy import commands, events, tunnel
    from mitmproxy.proxy import mode_specs
    from mitmproxy.proxy.layers import http, tls
    from lib import sansio

    real_tls = tls.ServerTLSLayer

    class StubTLS(real_tls):
        """ServerTLSLayer without OpenSSL: handshake outcome and ALPN come from the running case."""

        def start_handshake(self):
            env = _S["env"]
            carrier = self.conn is not self.context.server
            ok = (env.get("ptls", "ok") if carrier else env.get("tls", "ok")) == "ok"
            self._stub = (ok, None if carrier or env.get("alpn") != "h2" else b"h2")
            _S["run"].tls_done.append((self.conn, ok))
            yield from tunnel.TunnelLayer.start_handshake(self)

        def receive_handshake_data(self, data):
            ok, alpn = self._stub
            yield from ()
            if ok:
                self.conn.alpn = alpn
                self.conn.timestamp_tls_setup = 1624544787
                return True, None
            return False, "stub tls failure"

        def receive_data(self, data):
            yield from tunnel.TunnelLayer.receive_data(self, data)

        def send_data(self, data):
            yield from tunnel.TunnelLayer.send_data(self, data)

        def receive_close(self):
            yield from tunnel.TunnelLayer.receive_close(self)

        def send_close(self, command):
            yield from tunnel.TunnelLayer.send_close(self, command)

    tls.ServerTLSLayer = StubTLS

    class RecLayer(http.HttpLayer):
        """The real HttpLayer; the three overridden methods log and delegate."""

        def get_connection(self, event, *, reuse=True):
            r = _S["run"]
            top = r.depth == 0
            if top:
                r.begin(["get", r.rid(event), r.gspec(event)])
            r.depth += 1
            try:
                yield from super().get_connection(event, reuse=reuse)
            finally:
                r.depth -= 1
                if top:
                    r.end()

        def register_connection(self, command):
            r = _S["run"]
            top = r.depth == 0
            if top:
                r.begin(["reg", r.oid(command.connection), bool(command.err)])
            r.depth += 1
            try:
                yield from super().register_connection(command)
            finally:
                r.depth -= 1
                if top:
                    r.end()

        def event_to_child(self, child, event):
            if isinstance(event, http.GetHttpConnectionCompleted):
                _S["run"].reply(event)
            return super().event_to_child(child, event)

    class Drv(sansio.Driver):
        def _execute(self, c):
            if isinstance(c, commands.SendData) and isinstance(c.connection, connection.Server):
                _S["run"].on_send(c.connection, bytes(c.data))
            super()._execute(c)

    _S.update(h2=h2, connection=connection, server_spec=server_spec, commands=commands, events=events, tunnel=tunnel,
              mode_specs=mode_specs, http=http, tls=tls, sansio=sansio, RecLayer=RecLayer, Drv=Drv)


class Run:
    """One case: drives the real layer and records (a) the model-level history, (b) the wire-level facts for the oracle."""

    def __init__(self, case):
        S = _S
        self.case = case
        self.depth = 0
        self.cmds = []          # GetHttpConnection commands by identity -> rid
        self.objs = []          # connection objects by identity -> object number
        self.known = {}         # object number -> last snapshot fed to the model
        self.steps, self.obs = [], []
        self.cur = None
        self.heads = []         # oracle: one record per request head written upstream
        self.pokes = []         # oracle: attribute assignment attempts
        self.dest = {}          # marker -> destination recorded at the end of the request hook
        self.flows = {}         # marker -> flow
        self.connects = {}      # id(phys) -> [authority of every CONNECT written on it]
        self.tls_done = []      # (conn, ok) for every stub handshake
        self.h2peers = {}       # id(phys) -> server side H2Connection
        self.pending_resp = []  # (phys, marker, h2 stream id or None)
        self.tags = set()
        self.stable = []        # oracle: (object number, field) that changed while the object stayed open
        S["run"] = self
        S["env"] = {}
        from mitmproxy.proxy.layers.http import HTTPMode
        mode = {"regular": HTTPMode.regular, "upstream": HTTPMode.upstream, "transparent": HTTPMode.transparent}[case["mode"]]
        ctx = S["sansio"].make_context()
        if case["client"] == "h2":
            ctx.client.alpn = b"h2"
        if case["mode"] == "upstream":
            u = case["up"]
            ctx.client.proxy_mode = S["mode_specs"].ProxyMode.parse(f"upstream:{u[0]}://{u[1]}:{u[2]}")
        if case.get("ctx"):
            c = case["ctx"]
            ctx.server.address = (c["h"], c["p"])
            ctx.server.tls = c["tls"]
            if c.get("alpn") == "h2":
                ctx.server.alpn = b"h2"
            if c["open"]:
                ctx.server.state = S["connection"].ConnectionState.OPEN
                ctx.server.timestamp_start = 1624544785
        self.objs = [ctx.client, ctx.server]
        self.rws = {}
        self.late = []
        self.d = S["Drv"](lambda cx: S["RecLayer"](cx, mode), ctx=ctx, policy=self.policy, connect=self.connect)
        self.d.start()
        # the model's initial state is the state after Start (upstream mode has set context.server.via)
        self.init_ctx = self.snap(ctx.server)
        self.known = {0: self.snap(ctx.client), 1: self.init_ctx}
        if case["client"] == "h2":
            self.h2c = S["h2"].connection.H2Connection(S["h2"].config.H2Configuration(client_side=True, header_encoding="utf-8"))
            self.h2c.initiate_connection()
            self.d.data(0, self.h2c.data_to_send())

    # ---- numbering and snapshots
    def oid(self, obj):
        for i, o in enumerate(self.objs):
            if o is obj:
                return i
        self.objs.append(obj)
        return len(self.objs) - 1

    def rid(self, cmd):
        for i, c in enumerate(self.cmds):
            if c is cmd:
                return i
        self.cmds.append(cmd)
        return len(self.cmds) - 1

    @staticmethod
    def jvia(v):
        return None if v is None else [v[0], v[1][0], v[1][1]]

    def gspec(self, e):
        return {"a": [e.address[0], e.address[1]], "tls": bool(e.tls), "via": self.jvia(e.via), "tp": e.transport_protocol}

    def snap(self, o):
        srv = isinstance(o, _S["connection"].Server)
        a = o.address if srv else None
        return {"srv": srv, "a": None if a is None else [a[0], a[1]], "tls": bool(o.tls),
                "via": self.jvia(o.via) if srv else None, "tp": o.transport_protocol, "st": int(o.state.value),
                "err": bool(o.error), "h2": o.alpn == b"h2"}

    def sync(self):
        """feed attribute changes of known objects (made by the proxy server, tunnel layers, addons) to the model as SSet steps"""
        for i in sorted(self.known):
            old, new = self.known[i], self.snap(self.objs[i])
            if old == new:
                continue
            order = ["a", "via", "tls", "tp", "err", "h2"]
            order = (["st"] + order) if old["st"] == 3 else (order + ["st"])
            for f in order:
                if old[f] != new[f]:
                    if f in ("a", "via") and old["st"] == 3 and new["st"] == 3:
                        self.stable.append([i, f])
                    self.steps.append(["set", i, f, new[f], True])
                    self.obs.append(None)
            self.known[i] = new

    def layer_state(self):
        L = self.d.layer
        keys = list(L.connections)
        first = {}
        for k in keys:
            first.setdefault(id(L.connections[k]), k)
        conns = [[self.oid(k), self.oid(first[id(L.connections[k])])] for k in keys]
        waiting = [[self.oid(k), [self.rid(c) for c in v]] for k, v in L.waiting_for_establishment.items()]
        return conns, waiting

    def begin(self, step):
        self.layer_state()   # number objects that appeared in the meantime (there are none outside get_connection)
        self.sync()
        self.cur = {"step": step, "outs": [], "n0": len(self.objs)}

    def end(self):
        cur, self.cur = self.cur, None
        conns, waiting = self.layer_state()
        new = []
        for i in range(cur["n0"], len(self.objs)):
            self.known[i] = self.snap(self.objs[i])
            new.append([i, self.known[i]])
        self.steps.append(cur["step"])
        self.obs.append({"outs": cur["outs"], "conns": conns, "waiting": waiting, "new": new})

    def reply(self, ev):
        conn, err = ev.reply
        cmd = ev.command
        o = {"rid": self.rid(cmd), "g": self.gspec(cmd), "r": None}
        if conn is not None:
            L = self.d.layer
            first = {}
            for k in L.connections:
                first.setdefault(id(L.connections[k]), k)
            h = L.connections.get(conn)
            o["r"] = [self.oid(conn), self.snap(conn), self.oid(first[id(h)]) if h is not None else -1]
        if self.cur is not None:
            self.cur["outs"].append(o)
        else:
            self.tags.add("reply-outside-call")

    # ---- environment callbacks
    def connect(self, conn, drv):
        r = _S["env"].get("conn", "ok")
        if r == "defer":
            return _S["sansio"].DEFER
        if r == "fail":
            conn.error = "connect failed"      # proxy/server.py open_connection
            return conn.error
        return None

    def marker_of(self, flow):
        m = re.fullmatch(r"/f(\d+)", flow.request.path or "")
        return int(m.group(1)) if m else None

    def assign(self, obj, field, value, tag):
        """obj.<field> = value, observing the Server.__setattr__ guard"""
        i = next((j for j, o in enumerate(self.objs) if o is obj), None)
        if i is not None and i in self.known:
            self.sync()
        before = getattr(obj, field)
        was_open = obj.connected
        try:
            setattr(obj, field, value)
            raised = False
        except RuntimeError:
            raised = True
        after = getattr(obj, field)
        self.pokes.append({"open": was_open, "changed": before != value, "raised": raised, "kept": after == before, "tag": tag})
        if i is not None and i in self.known:
            f = {"address": "a", "via": "via"}[field]
            jv = (None if value is None else [value[0], value[1]]) if f == "a" else self.jvia(value)
            self.steps.append(["set", i, f, jv, not raised])
            self.obs.append(None)
            self.known[i] = self.snap(obj)

    def policy(self, hook, drv):
        if hook.name not in ("requestheaders", "request"):
            return
        flow = hook.args()[0]
        n = self.marker_of(flow)
        if n is None:
            return
        self.flows[n] = flow
        rw = self.rws.get(n)
        S = _S
        if rw and rw["at"] == hook.name:
            if "h" in rw:
                flow.request.host = rw["h"]
            if "p" in rw:
                flow.request.port = rw["p"]
            if "s" in rw:
                flow.request.scheme = rw["s"]
            if rw.get("fresh"):
                flow.server_conn = S["connection"].Server(address=flow.server_conn.address, transport_protocol=rw.get("tp") or "tcp")
            if rw.get("via", "keep") != "keep":
                v = rw["via"]
                spec = None if v is None else S["server_spec"].ServerSpec((v[0], (v[1], v[2])))
                self.assign(flow.server_conn, "via", spec, "hook")
            if rw.get("poke"):
                self.assign(flow.server_conn, "address", OTHER_ADDR if rw["poke"] == "other" else flow.server_conn.address, "hook")
        if hook.name == "request":
            sc = flow.server_conn
            self.dest[n] = {"a": [flow.request.host, flow.request.port], "tls": flow.request.scheme == "https",
                            "via": self.jvia(sc.via), "tp": sc.transport_protocol}

    # ---- wire
    def on_send(self, phys, data):
        S = _S
        key = id(phys)
        env = S["env"]
        if data.startswith(b"CONNECT "):
            auth = data.split(b" ")[1].decode("ascii", "replace")
            self.connects.setdefault(key, []).append(auth)
            reply = b"HTTP/1.1 200 Connection established\r\n\r\n" if env.get("tun", "ok") == "ok" else b"HTTP/1.1 403 Forbidden\r\nContent-Length: 0\r\n\r\n"
            self.d.event(S["events"].DataReceived(phys, reply))
            return
        markers = []
        if key not in self.h2peers and data.startswith(b"PRI * HTTP/2.0\r\n\r\nSM\r\n\r\n"):
            peer = S["h2"].connection.H2Connection(S["h2"].config.H2Configuration(client_side=False, header_encoding="utf-8"))
            peer.initiate_connection()
            self.h2peers[key] = peer
        if key in self.h2peers:
            peer = self.h2peers[key]
            for ev in peer.receive_data(data):
                if isinstance(ev, S["h2"].events.RequestReceived):
                    path = dict(ev.headers).get(":path", "")
                    m = re.fullmatch(r"/f(\d+)", path)
                    if m:
                        markers.append((int(m.group(1)), ev.stream_id))
            out = peer.data_to_send()
            if out:
                self.d.event(S["events"].DataReceived(phys, out))
        else:
            for m in re.finditer(rb"^[A-Z]+ (?:https?://[^/ ]*)?/f(\d+) HTTP/1\.1\r\n", data):
                markers.append((int(m.group(1)), None))
        for n, sid in markers:
            flow = self.flows.get(n)
            L = flow.server_conn if flow is not None else None
            rec = {"n": n, "dest": self.dest.get(n), "phys": self.oid_ro(phys), "same": L is phys,
                   "P": self.snap(phys), "L": self.snap(L) if L is not None else None,
                   "connects": list(self.connects.get(key, [])),
                   "Ltls_done": any(c is L and ok for c, ok in self.tls_done),
                   "Ptls_done": any(c is phys and ok for c, ok in self.tls_done),
                   "absolute": bool(re.match(rb"^[A-Z]+ https?://", data)) if sid is None else None}
            self.heads.append(rec)
            self.pending_resp.append((phys, n, sid))

    def oid_ro(self, obj):
        for i, o in enumerate(self.objs):
            if o is obj:
                return i
        return -1

    def respond(self, how):
        S = _S
        todo, self.pending_resp = self.pending_resp, []
        if how == "none":
            return
        for phys, n, sid in todo:
            if phys.state is not S["connection"].ConnectionState.OPEN:
                continue
            i = next(j for j, c in enumerate(self.d.conns) if c is phys)
            if sid is None:
                extra = b"Connection: close\r\n" if how == "hdrclose" else b""
                self.d.data(i, b"HTTP/1.1 200 OK\r\n" + extra + b"Content-Length: 0\r\n\r\n")
            else:
                peer = self.h2peers[id(phys)]
                peer.send_headers(sid, [(":status", "200")], end_stream=True)
                self.d.data(i, peer.data_to_send())
            if how == "close" and phys.state is S["connection"].ConnectionState.OPEN:
                self.d.close(i)

    # ---- operations
    def go(self):
        S = _S
        case = self.case
        self.rws = {}
        nreq = 0
        for op in case["ops"]:
            if self.d.crashed:
                break
            S["env"] = op
            if op["o"] == "req":
                n = nreq
                nreq += 1
                if op.get("rw"):
                    self.rws[n] = op["rw"]
                hp = f"{op['h']}:{op['p']}"
                if case["client"] == "h2":
                    sid = self.h2c.get_next_available_stream_id()
                    self.h2c.send_headers(sid, [(":method", "GET"), (":scheme", op["s"]), (":authority", hp), (":path", f"/f{n}")], end_stream=True)
                    self.d.data(0, self.h2c.data_to_send())
                elif case["mode"] == "transparent":
                    self.d.data(0, f"GET /f{n} HTTP/1.1\r\nHost: {hp}\r\n\r\n".encode())
                else:
                    self.d.data(0, f"GET {op['s']}://{hp}/f{n} HTTP/1.1\r\nHost: {hp}\r\n\r\n".encode())
                self.respond(op.get("resp", "ok"))
            elif op["o"] == "open":
                pend = [c for c in self.d.deferred if isinstance(c, S["commands"].OpenConnection)]
                if pend:
                    cmd = pend[op["i"] % len(pend)]
                    if op["ok"]:
                        self.d.complete(cmd, None)
                    else:
                        cmd.connection.error = "connect failed"
                        self.d.complete(cmd, "connect failed")
                    self.respond(op.get("resp", "ok"))
            elif op["o"] == "close":
                live = [i for i, c in enumerate(self.d.conns) if i and c.state is not S["connection"].ConnectionState.CLOSED
                        and (c.state & S["connection"].ConnectionState.CAN_READ)]
                if live:
                    self.d.close(live[op["c"] % len(live)])
            elif op["o"] == "half":
                # proxy/server.py clears CAN_READ when it reads EOF; the ConnectionClosed event reaches the layer later
                live = [c for i, c in enumerate(self.d.conns) if i and c.state is S["connection"].ConnectionState.OPEN]
                if live:
                    c = live[op["c"] % len(live)]
                    c.state &= ~S["connection"].ConnectionState.CAN_READ
                    self.late.append(c)
            elif op["o"] == "poke":
                L = self.d.layer
                busy = {id(L.connections[k]) for k in L.waiting_for_establishment if k in L.connections}
                pending = {id(k) for k in L.waiting_for_establishment} | {id(k) for k, h in L.connections.items() if id(h) in busy}
                cand = [o for i, o in enumerate(self.objs) if i and id(o) not in pending]
                if cand:
                    o = cand[op["c"] % len(cand)]
                    if op["f"] == "address":
                        self.assign(o, "address", o.address if op["same"] else OTHER_ADDR, "poke")
                    else:
                        self.assign(o, "via", o.via if op["same"] else S["server_spec"].ServerSpec(OTHER_VIA), "poke")
        for c in self.late:
            if not self.d.crashed:
                self.d.event(S["events"].ConnectionClosed(c))
        # flush the last attribute changes (they are inputs of no later call, but keep the history complete)
        self.layer_state()
        self.sync()

    def stacks(self):
        S = _S
        L = self.d.layer
        out = []
        seen = set()
        for k, h in L.connections.items():
            if id(h) in seen or not isinstance(k, S["connection"].Server):
                seen.add(id(h))
                continue
            seen.add(id(h))
            if not isinstance(h, (S["tunnel"].TunnelLayer, S["http"].HttpClient)):
                continue
            carrier, connect, tls_inner = None, False, False
            layer_ = h
            while layer_ is not None:
                if isinstance(layer_, S["http"]._upstream_proxy.HttpUpstreamProxy):
                    carrier, connect = self.oid_ro(layer_.tunnel_connection), bool(layer_.send_connect)
                elif isinstance(layer_, S["tunnel"].TunnelLayer) and layer_.conn is k:
                    tls_inner = True
                layer_ = getattr(layer_, "child_layer", None) if not isinstance(layer_, S["http"].HttpClient) else None
            out.append([self.oid_ro(k), carrier, connect, tls_inner])
        return out


def run_impl(case):
    r = Run(case)
    r.go()
    return {"ctx": r.init_ctx, "steps": r.steps, "obs": r.obs, "stacks": r.stacks(), "heads": r.heads, "pokes": r.pokes,
            "stable": r.stable, "crashed": list(r.d.crashed) if r.d.crashed else None, "tags": sorted(r.tags),
            "nobj": len(r.objs)}


# ------------------------------------------------------------------------------------------------ generator
def _env(rng, case, op):
    h2c = case["client"] == "h2"
    op["conn"] = rng.weighted([(50 if h2c else 72, "ok"), (12, "fail"), (38 if h2c else 16, "defer")])
    op["tun"] = rng.weighted([(85, "ok"), (15, "refuse")])
    op["tls"] = rng.weighted([(85, "ok"), (15, "fail")])
    if rng.chance(0.4):
        op["alpn"] = "h2"
    if rng.chance(0.08):
        op["ptls"] = "fail"
    op["resp"] = "none" if h2c else rng.weighted([(70, "ok"), (15, "close"), (15, "hdrclose")])
    return op


def _rw(rng):
    rw = {"at": rng.choice(["requestheaders", "request"])}
    if rng.chance(0.35):
        rw["h"] = rng.choice(HOSTS)
    if rng.chance(0.3):
        rw["p"] = rng.choice(PORTS)
    if rng.chance(0.3):
        rw["s"] = rng.choice(["http", "https"])
    if rng.chance(0.2):
        rw["fresh"] = True
        if rng.chance(0.35):
            rw["tp"] = "udp"
            rw["s"] = "http"
    r = rng.random()
    if r < 0.25:
        rw["via"] = None
    elif r < 0.6:
        rw["via"] = rng.choice(VIAS)
    if rng.chance(0.12):
        rw["poke"] = rng.choice(["other", "same"])
    return rw


def gen_case(rng):
    case = {"mode": rng.weighted([(45, "regular"), (30, "upstream"), (25, "transparent")]),
            "client": "h2" if rng.chance(0.45) else "h1"}
    if case["mode"] == "upstream":
        case["up"] = rng.choice(VIAS)
    if case["mode"] == "transparent":
        tls = rng.chance(0.5)
        case["ctx"] = {"h": rng.choice(HOSTS), "p": rng.choice(PORTS), "tls": tls, "open": rng.chance(0.6)}
        if tls and rng.chance(0.3):
            case["ctx"]["alpn"] = "h2"
    ops, pool = [], []
    for _ in range(rng.randint(2, 11)):
        r = rng.random()
        if r < 0.68 or not ops:
            if pool and rng.chance(0.62):
                base = rng.choice(pool)
                op = {"o": "req", "h": base["h"], "p": base["p"], "s": base["s"]}
                if base.get("rw"):
                    op["rw"] = dict(base["rw"])
            elif rng.chance(0.25):
                # an origin request to the address of an upstream proxy in use, without via
                v = rng.choice(VIAS)
                op = {"o": "req", "h": v[1], "p": v[2], "s": v[0], "rw": {"at": "request", "via": None}}
            else:
                op = {"o": "req", "h": rng.choice(HOSTS), "p": rng.choice(PORTS), "s": rng.choice(["http", "https"])}
                if rng.chance(0.5):
                    op["rw"] = _rw(rng)
            pool.append(op)
            ops.append(_env(rng, case, dict(op)))
        elif r < 0.84:
            ops.append(_env(rng, case, {"o": "open", "i": rng.below(4), "ok": rng.chance(0.75)}))
        elif r < 0.89:
            ops.append({"o": "close", "c": rng.below(6)})
        elif r < 0.93:
            ops.append({"o": "half", "c": rng.below(6)})
        else:
            ops.append({"o": "poke", "c": rng.below(8), "f": rng.choice(["address", "via"]), "same": rng.chance(0.3)})
    # drain deferred connects at the end so that queued requests get their replies
    for _ in range(rng.randint(0, 3)):
        ops.append(_env(rng, case, {"o": "open", "i": 0, "ok": rng.chance(0.8)}))
    case["ops"] = ops
    return case


def gen(rng, n, tier):
    return [gen_case(rng) for _ in range(n)]


# ------------------------------------------------------------------------------------------------ Coq terms
def _caddr(a):
    return f"({cbytes(a[0].encode())}, {cN(a[1])})"


def _cvia(v):
    return "None" if v is None else f"(Some ({cbytes(v[0].encode())}, {_caddr(v[1:])}))"


def _ctp(t):
    return {"tcp": "TCP", "udp": "UDP"}[t]


_CST = {0: "Closed", 1: "CanRead", 2: "CanWrite", 3: "Open"}


def _cconn(k):
    a = "None" if k["a"] is None else f"(Some {_caddr(k['a'])})"
    return (f"(mkConn {cbool(k['srv'])} {a} {cbool(k['tls'])} {_cvia(k['via'])} {_ctp(k['tp'])} {_CST[k['st']]} "
            f"{cbool(k['err'])} {cbool(k['h2'])})")


def _cget(g):
    return f"(mkGet {_caddr(g['a'])} {cbool(g['tls'])} {_cvia(g['via'])} {_ctp(g['tp'])})"


def _cfield(f, v):
    if f == "a":
        return "(FAddress " + ("None" if v is None else f"(Some {_caddr(v)})") + ")"
    if f == "via":
        return f"(FVia {_cvia(v)})"
    if f == "tls":
        return f"(FTls {cbool(v)})"
    if f == "tp":
        return f"(FTp {_ctp(v)})"
    if f == "st":
        return f"(FState {_CST[v]})"
    if f == "err":
        return f"(FError {cbool(v)})"
    return f"(FH2 {cbool(v)})"


def _cout(o):
    if o["r"] is None:
        return f"(OReply {cN(o['rid'])} {_cget(o['g'])} None)"
    c, k, h = o["r"]
    return f"(OReply {cN(o['rid'])} {_cget(o['g'])} (Some ({cN(c)}, {_cconn(k)}, {cN(h if h >= 0 else 9999)})))"


def coq_case(case, obs):
    if "steps" not in obs:
        return None
    steps, observed = [], []
    for s, o in zip(obs["steps"], obs["obs"]):
        if s[0] == "get":
            steps.append(f"(SGet {cN(s[1])} {_cget(s[2])})")
        elif s[0] == "reg":
            steps.append(f"(SRegister {cN(s[1])} {cbool(s[2])})")
        else:
            steps.append(f"(SSet {cN(s[1])} {_cfield(s[2], s[3])})")
            observed.append(f"(ObsSet {cbool(s[4])})")
            continue
        conns = clist((f"({cN(a)}, {cN(b)})" for a, b in o["conns"]), "(N * N)%type")
        waiting = clist((f"({cN(c)}, {clist((cN(r) for r in rs), 'N')})" for c, rs in o["waiting"]), "(N * list N)%type")
        new = clist((f"({cN(i)}, {_cconn(k)})" for i, k in o["new"]), "(N * conn)%type")
        observed.append(f"(ObsCall {clist((_cout(x) for x in o['outs']), 'out')} {conns} {waiting} {new})")
    stacks = clist((f"({cN(l)}, mkStack {copt(c, cN, 'N')} {cbool(sc)} {cbool(t)})" for l, c, sc, t in obs["stacks"]), "(N * stackinfo)%type")
    cf = f"(mkCfg {cN(1)} {cbool(case['client'] == 'h2')} {cbool(case['mode'] == 'upstream')})"
    return f"Case {cf} {_cconn(obs['ctx'])} {clist(steps, 'step')} {clist(observed, 'obs')} {stacks}"


# ------------------------------------------------------------------------------------------------ oracle
def oracle(case, obs):
    """The property on the implementation: where was each forwarded request head really written?"""
    v = []
    if obs.get("crashed"):
        v.append({"key": "layer-crash", "what": f"HttpLayer raised {obs['crashed']}"})
    for h in obs["heads"]:
        d, L, P, n = h["dest"], h["L"], h["P"], h["n"]
        if d is None or L is None:
            v.append({"key": "unattributed-head", "what": f"request /f{n} was written upstream before its request hook finished"})
            continue
        where = f"request /f{n} for {d} written to connection #{h['phys']} {P['a']} (flow.server_conn {L['a']} tls={L['tls']} via={L['via']} {L['tp']})"
        if not (L["srv"] and L["a"] == d["a"] and L["tls"] == d["tls"] and L["via"] == d["via"] and L["tp"] == d["tp"]):
            v.append({"key": "spec-mismatch", "what": where})
        if L["err"] or P["err"]:
            v.append({"key": "write-to-failed", "what": where + " which has .error set"})
        if L["st"] != 3 or not (P["st"] & 2):
            v.append({"key": "write-to-closed", "what": where + f" in state {L['st']}/{P['st']}"})
        if d["via"] is None:
            if h["connects"]:
                v.append({"key": "carrier-reused-as-origin",
                          "what": where + f": that connection is a CONNECT tunnel to {h['connects'][-1]} through an upstream proxy, not the origin {d['a']}"})
            elif not h["same"] or P["a"] != d["a"]:
                v.append({"key": "wire-misroute", "what": where})
        else:
            want_connect = d["tls"] or case["mode"] != "upstream"
            ok = (not h["same"]) and P["a"] == d["via"][1:] and P["tls"] == (d["via"][0] == "https") and P["via"] is None
            if want_connect:
                ok = ok and h["connects"] == [f"{d['a'][0]}:{d['a'][1]}"]
            else:
                ok = ok and h["connects"] == []
            if d["tls"]:
                ok = ok and h["Ltls_done"]
            if not ok:
                v.append({"key": "wire-misroute", "what": where + f" connects={h['connects']}"})
    for p in obs["pokes"]:
        if p["open"] and p["changed"] and not (p["raised"] and p["kept"]):
            v.append({"key": "mutable-while-open", "what": f"assignment of a different address/via to an open Server was accepted ({p})"})
    for i, f in obs["stable"]:
        v.append({"key": "mutable-while-open", "what": f"{f} of object #{i} changed while it stayed open"})
    return v


def _calls(obs):
    return [(s, o) for s, o in zip(obs.get("steps", []), obs.get("obs", [])) if s[0] != "set"]


def nontrivial(case, obs):
    gets = sum(1 for s, _ in _calls(obs) if s[0] == "get")
    return gets >= 2 or any(s[0] == "set" and not s[4] for s in obs.get("steps", []))


def classify(case, obs):
    tags = [case["mode"], "client-" + case["client"]]
    for s, o in _calls(obs):
        if s[0] == "get":
            if not o["outs"]:
                tags.append("new-via" if len(o["new"]) == 2 else "new" if o["new"] else "queued")
            for x in o["outs"]:
                tags.append("err-reply" if x["r"] is None else "ctx-used" if x["r"][0] == 1 else "reuse")
                if x["r"] is not None and x["r"][0] != x["r"][2]:
                    tags.append("reply-foreign-handler")
        else:
            tags.append("reg-err" if s[2] else "reg-ok")
            if o["new"]:
                tags.append("reget-h2-to-h1")
            if len(o["outs"]) > 1:
                tags.append("reg-multi-reply")
    if any(s[0] == "set" and not s[4] for s in obs.get("steps", [])):
        tags.append("set-rejected")
    if any(h["P"]["h2"] or (h["L"] or {}).get("h2") for h in obs.get("heads", [])):
        tags.append("h2-server")
    if any(h["L"] and h["L"]["tp"] == "udp" for h in obs.get("heads", [])):
        tags.append("udp")
    tags.append("heads=%d" % min(len(obs.get("heads", [])), 5))
    return sorted(set(tags))
