"""C26 — Forwarded DNS messages keep their meaning (mitmproxy/proxy/layers/dns.py handle_request /
handle_response = pack_message o DNSMessage.unpack), judged by an independent RFC 1035 reference decoder."""
import struct

from lib.coqterm import cbytes, cbool, copt, hx, unhx
from props import C25

ID = "C26"
QUICK_N = 1600
THOROUGH_N = 12800
SHARD = 120
COQ_PRELUDE = "From MV Require Import Model.DnsNames Model.DnsMessage Model.DnsRef.\n"
RULE = ("80% well-formed wire messages from the compressing DNS writer of props/C25.py (queries and responses; compressed owner "
        "names and compressed names inside CNAME/NS/PTR/MX/SOA/SRV data; TXT/HINFO/A/unknown data, a share of it seeded with "
        "bytes >= 0xC0 that resolve to real names; MX preference / SOA serial / SRV port equal to 0xC00C), 8% with odd labels "
        "(dots inside labels, non-ASCII, xn--), 12% mutated (truncation, loops, forward pointers, pointers to the root label), "
        "each pushed as one UDP datagram through the real DNSLayer from the client or the server side; every 6th input also goes, with 0-3 more "
        "messages, length-prefixed and pipelined over TCP through the real layer with the stream cut at 0-3 arbitrary points; every 5th input is also "
        "a reference-decoder comparison case. Non-trivial = the layer sent bytes on or rejected the message; distinct by JSON.")
TRUSTED = ["Coq 8.16.1 kernel (coqc), vm_compute for case evaluation and the refutation witness",
           "harness/props/C26.py: sans-io driver of DNSLayer (replies to hooks and OpenConnection), Python reference decoder ref_canon "
           "(written from RFC 1035 section 4, independent of mitmproxy), comparison glue Corr/C26.v",
           "Model/DnsRef.v is a second copy of the reference decoder; the two copies are compared on every generated input",
           "the model of the layer is forward_udp = unpack then packed (no addon modifies the flow); TCP framing is C27"]
ASSUMPTIONS = ["meaning of a message = its uncompressed re-encoding with lower-cased labels, names expanded only in RDATA positions that "
               "are names for the type (NS MD MF CNAME MB MG MR PTR / MINFO RP / MX AFSDB RT / PX / SOA / SRV); all other RDATA raw",
               "labels with the ACE prefix or non-ASCII bytes are outside the Coq model (EAce); judged by the oracle only"]

# Independent of the repo's tuple: SHAPES (below) lists every type whose RDATA is defined to contain (compressible) domain names
# (RFC 1035 3.3, RFC 1183, RFC 2163, RFC 2782; RFC 3597 4 forbids compression for all later types). Everything else is opaque.
RAW_COMPRESSIBLE = {13, 16, 24, 30, 35}          # in record_data_can_have_compression but no name grammar in the reference decoder
SHAPES = {}
for _t in (2, 3, 4, 5, 7, 8, 9, 12): SHAPES[_t] = (0, 1, 0)
for _t in (14, 17): SHAPES[_t] = (0, 2, 0)
for _t in (15, 18, 21): SHAPES[_t] = (2, 1, 0)
SHAPES[26] = (2, 2, 0); SHAPES[6] = (0, 2, 20); SHAPES[33] = (6, 1, 0)


# ------------------------------------------------------------------ independent reference decoder (RFC 1035 section 4)
class Malformed(Exception):
    pass


def ref_name(buf, off):
    """-> (canonical uncompressed lower-cased wire name, bytes occupied at off)"""
    out, used, hops, pos, jumped = bytearray(), 0, 0, off, False
    while True:
        if pos >= len(buf) or hops > len(buf):
            raise Malformed("name")
        n = buf[pos]
        if n == 0:
            out.append(0)
            if not jumped:
                used = pos + 1 - off
            return bytes(out), used
        if n >= 0xC0:
            if pos + 1 >= len(buf):
                raise Malformed("ptr")
            if not jumped:
                used, jumped = pos + 2 - off, True
            pos = ((n - 0xC0) << 8) | buf[pos + 1]
        elif n >= 64:
            raise Malformed("label type")
        else:
            if pos + 1 + n > len(buf):
                raise Malformed("label")
            out.append(n)
            out += buf[pos + 1:pos + 1 + n].lower()
            pos += 1 + n
        hops += 1


def ref_records(buf, raw=False):
    """-> (header bytes, [question canon], [(owner, fixed8, type, rdata canon, off, len)]); raises Malformed.
    raw=True: framing only, RDATA left as it is on the wire."""
    if len(buf) < 12:
        raise Malformed("header")
    _id, _fl, nq, na, nn, nx = struct.unpack_from("!HHHHHH", buf, 0)
    off, qs, rrs = 12, [], []
    for _ in range(nq):
        w, c = ref_name(buf, off)
        if off + c + 4 > len(buf):
            raise Malformed("question")
        qs.append(w + buf[off + c:off + c + 4])
        off += c + 4
    for _ in range(na + nn + nx):
        w, c = ref_name(buf, off)
        off += c
        if off + 10 > len(buf):
            raise Malformed("rr header")
        t, _cl, _ttl, ln = struct.unpack_from("!HHIH", buf, off)
        fixed = buf[off:off + 8]
        off += 10
        if off + ln > len(buf):
            raise Malformed("rdata")
        if t in SHAPES and not raw:
            pre, names, post = SHAPES[t]
            if ln < pre:
                raise Malformed("rdata shape")
            rd, p = bytearray(buf[off:off + pre]), off + pre
            for _ in range(names):
                w2, c2 = ref_name(buf, p)
                rd += w2
                p += c2
            if p + post != off + ln:
                raise Malformed("rdata length")
            rd += buf[p:p + post]
        else:
            rd = buf[off:off + ln]
        rrs.append((w, fixed, t, bytes(rd), off, ln))
        off += ln
    if off != len(buf):
        raise Malformed("trailing")
    return buf[:12], qs, rrs


def ref_canon(buf):
    try:
        h, qs, rrs = ref_records(bytes(buf))
    except Malformed:
        return None
    return h + b"".join(qs) + b"".join(w + f + struct.pack("!H", len(rd) % 65536) + rd for w, f, _t, rd, _o, _l in rrs)


# ------------------------------------------------------------------ generator
def wt3(rng):
    return rng.choice([0, 0, 1, 1, 2, 3])


def gen(rng, n, tier):
    out = [{"k": "compr", "t": t} for t in list(range(0, 70)) + [99, 249, 250, 255, 256, 257, 32768, 65280, 65535]]
    for i in range(n):
        r = rng.random()
        tags = []
        if r < 0.80:
            b, _ = C25.build_wire(rng, False)
        elif r < 0.88:
            b, _ = C25.build_wire(rng, True); tags.append("odd-labels")
        else:
            b, _ = C25.build_wire(rng, rng.chance(0.2))
            b, mt = C25.mutate(rng, b); tags += ["mut:" + t for t in mt]
        out.append({"k": "fwd", "buf": hx(b), "from_client": rng.chance(0.4), "tags": tags})
        if i % 6 == 1:
            # the same kind of messages over TCP: length-prefixed, 1-4 pipelined, the stream cut at arbitrary points
            msgs = [b] + [C25.build_wire(rng, False)[0] for _ in range(wt3(rng))]
            total = sum(len(m) + 2 for m in msgs)
            cuts = sorted({rng.below(total) for _ in range(rng.randint(0, 3))} - {0})
            out.append({"k": "tcp", "msgs": [hx(m) for m in msgs], "cuts": cuts, "from_client": rng.chance(0.4)})
        if i % 5 == 0:
            if rng.chance(0.5):
                b, _ = C25.mutate(rng, b)
            out.append({"k": "ref", "buf": hx(b)})
    return out


# ------------------------------------------------------------------ implementation side: the real layer, sans-io
def setup_impl():
    global opts, context, connection, commands, events, ldns
    from mitmproxy import options, connection  # noqa
    from mitmproxy.addons.proxyserver import Proxyserver
    from mitmproxy.proxy import context, commands, events  # noqa
    from mitmproxy.proxy.layers import dns as ldns  # noqa
    opts = options.Options()
    Proxyserver().load(opts)
    C25.setup_impl()


def forward(buf, from_client: bool, tcp_segments=None, prime_ids=()):
    """UDP: buf is one datagram. TCP (tcp_segments given): the segments are fed one after the other; returns every byte sent on."""
    proto = "tcp" if tcp_segments is not None else "udp"
    OPEN = connection.ConnectionState.OPEN
    ctx = context.Context(connection.Client(peername=("client", 1234), sockname=("127.0.0.1", 53), timestamp_start=0.0,
                                            state=OPEN, transport_protocol=proto), opts)
    ctx.server.address = ("upstream", 53)
    ctx.server.transport_protocol = proto
    layer = ldns.DNSLayer(ctx)
    sent, closed = [], []

    def drive(ev):
        queue = [ev]
        while queue:
            e = queue.pop(0)
            for cmd in layer.handle_event(e):
                if isinstance(cmd, commands.SendData):
                    sent.append((cmd.connection is ctx.client, bytes(cmd.data)))
                elif isinstance(cmd, commands.OpenConnection):
                    cmd.connection.state = OPEN
                    queue.append(events.OpenConnectionCompleted(cmd, None))
                elif isinstance(cmd, commands.StartHook):
                    queue.append(events.HookCompleted(cmd))
                elif isinstance(cmd, commands.CloseConnection):
                    closed.append(cmd.connection is ctx.client)
    drive(events.Start())
    if tcp_segments is not None:
        prime = b"\x01\x00\x00\x01\x00\x00\x00\x00\x00\x00" + b"\x00\x00\x01\x00\x01"
        if not from_client:
            for pid in prime_ids:
                drive(events.DataReceived(ctx.client, struct.pack("!H", 2 + len(prime)) + pid + prime))
            if len(sent) != len(prime_ids) or any(x[0] for x in sent) or closed:
                return {"err": "EOther:priming"}
            sent.clear()
        for seg in tcp_segments:
            drive(events.DataReceived(ctx.client if from_client else ctx.server, seg))
        if any(x[0] != (not from_client) for x in sent):
            return {"err": "EOther:shape"}
        return {"ok": hx(b"".join(x[1] for x in sent)), "closed": bool(closed)}
    if not from_client:
        # the layer relays an upstream message only if it answers a client query: prime it with a minimal query
        # (root name, type A) carrying the id of the response, and discard what that query produced
        drive(events.DataReceived(ctx.client, bytes(buf[:2]).ljust(2, b"\0") + b"\x01\x00\x00\x01\x00\x00\x00\x00\x00\x00" + b"\x00\x00\x01\x00\x01"))
        if len(sent) != 1 or sent[0][0] or closed:
            return {"err": "EOther:priming"}
        sent.clear()
    drive(events.DataReceived(ctx.client if from_client else ctx.server, buf))
    if len(sent) == 1 and sent[0][0] == (not from_client) and not closed:
        return {"ok": hx(sent[0][1])}
    if not sent and closed == [from_client]:
        return {"err": "EStruct"}           # logged as invalid message, sender's connection closed
    return {"err": "EOther:shape"}


def run_impl(case):
    if case["k"] == "compr":
        return {"r": bool(C25.domain_names.record_data_can_have_compression(case["t"]))}
    if case["k"] == "tcp":
        msgs = [unhx(m) for m in case["msgs"]]
        udp = []
        for m in msgs:
            try:
                udp.append(forward(m, case["from_client"]))
            except Exception as e:
                udp.append({"err": C25.exc_class(e)})
        stream = b"".join(struct.pack("!H", len(m)) + m for m in msgs)
        cuts = [0] + list(case["cuts"]) + [len(stream)]
        segs = [stream[a:b] for a, b in zip(cuts, cuts[1:]) if b > a]
        ids = []
        for m in msgs:
            if bytes(m[:2]).ljust(2, b"\0") not in ids:
                ids.append(bytes(m[:2]).ljust(2, b"\0"))
        try:
            t = forward(None, case["from_client"], tcp_segments=segs, prime_ids=ids)
        except Exception as e:
            t = {"err": C25.exc_class(e)}
        return {"udp": udp, "tcp": t}
    buf = unhx(case["buf"])
    if case["k"] == "ref":
        c = ref_canon(buf)
        return {"canon": None if c is None else hx(c)}
    try:
        o = {"sent": forward(buf, case["from_client"])}
    except Exception as e:
        o = {"sent": {"err": C25.exc_class(e)}}
    cin = ref_canon(buf)
    o["cin"] = None if cin is None else hx(cin)
    if "ok" in o["sent"]:
        cout = ref_canon(unhx(o["sent"]["ok"]))
        o["cout"] = None if cout is None else hx(cout)
    return o


def coq_case(case, obs):
    if case["k"] == "compr":
        return f"Comp {case['t']}%N {cbool(obs['r'])}"
    if case["k"] == "tcp":
        t = obs["tcp"]
        if "ok" not in t:
            return "Tcp " + C25.clist([cbytes(unhx(m)) for m in case["msgs"]], "bytes") + " (@nil byte) true"
        return "Tcp " + C25.clist([cbytes(unhx(m)) for m in case["msgs"]], "bytes") + f" {cbytes(unhx(t['ok']))} {cbool(t['closed'])}"
    b = cbytes(unhx(case["buf"]))
    if case["k"] == "ref":
        return f"Ref {b} {copt(obs['canon'], lambda h: cbytes(unhx(h)), 'bytes')}"
    s = obs["sent"]
    if s.get("err") == "ERecursion":
        return None
    preserved = "ok" in s and obs["cin"] is not None and obs.get("cout") == obs["cin"]
    return f"Fwd {b} {cbool(case['from_client'])} {C25.cres(s, lambda h: cbytes(unhx(h)), 'bytes')} {cbool(preserved)}"


# ------------------------------------------------------------------ oracle: meaning preserved, judged by the reference decoder
def has_dot_label(buf):
    try:
        _h, qs, rrs = ref_records(buf)
    except Malformed:
        return False
    def labels(w):
        i = 0
        while i < len(w) and w[i]:
            yield w[i + 1:i + 1 + w[i]]; i += 1 + w[i]
    names = list(qs) + [r[0] for r in rrs] + [r[3][SHAPES[r[2]][0]:] for r in rrs if r[2] in SHAPES]
    return any(b"." in l for w in names for l in labels(w))


def nonascii_or_ace(buf):
    low = bytes(buf[12:]).lower()
    return b"xn--" in low


def oracle(case, obs):
    if case["k"] == "compr":
        t = case["t"]
        if obs["r"] and t not in SHAPES:
            if t in RAW_COMPRESSIBLE:
                return [{"key": "raw-rdata-rewritten", "what": f"type {t} has no domain name in its RDATA but is scanned for compression pointers"}]
            return [{"key": "opaque-type-scanned-for-pointers",
                     "what": f"record_data_can_have_compression({t}) is True, but RDATA of type {t} is opaque (no compressible name per the RFCs): it would not be forwarded byte-for-byte"}]
        return []
    if case["k"] == "tcp":
        if any("ok" not in u for u in obs["udp"]):
            return []               # some message is not forwarded over UDP either: judged by the fwd cases
        t, side = obs["tcp"], ("client" if case["from_client"] else "server")
        if "ok" not in t or t.get("closed"):
            why = t.get("err", "connection closed")
            return [{"key": "tcp-stream-not-forwarded", "what": f"{len(case['msgs'])} messages from the {side}, each forwarded over UDP, over TCP (cuts {case['cuts']}): {why}; messages {case['msgs']}"}]
        out, frames = unhx(t["ok"]), []
        while len(out) >= 2:
            n = struct.unpack_from("!H", out)[0]
            frames.append(out[2:2 + n]); out = out[2 + n:]
        if out or len(frames) != len(case["msgs"]):
            return [{"key": "tcp-framing-broken", "what": f"{len(case['msgs'])} messages in, {len(frames)} frames + {len(out)} stray bytes out: {case['msgs']}"}]
        for i, (f, u) in enumerate(zip(frames, obs["udp"])):
            cu, ct = ref_canon(unhx(u["ok"])), ref_canon(f)
            if cu != ct or (cu is None and f != unhx(u["ok"])):
                return [{"key": "tcp-forward-differs-from-udp",
                         "what": f"message #{i} {case['msgs'][i]} is forwarded over UDP as {u['ok']} but over TCP (pipelined, cuts {case['cuts']}) as {f.hex()}: the reference decoder reads them differently"}]
        return []
    if case["k"] != "fwd" or obs["cin"] is None:
        return []                       # not a well-formed message: nothing to preserve (rejection/garbage is C25's business)
    buf, s = unhx(case["buf"]), obs["sent"]
    side = "client" if case["from_client"] else "server"
    if "err" in s:
        e = s["err"]
        if e == "EStruct":
            try:
                _h, qs, rrs = ref_records(buf)
                allnames = b"".join(qs) + b"".join(r[0] for r in rrs)
            except Malformed:
                allnames = b""
            if any(c >= 0x80 for c in buf[12:]) and any(c >= 0x80 for c in allnames):
                return [{"key": "wellformed-nonascii-label-rejected", "what": f"well-formed message from the {side} with a non-ASCII label is dropped as invalid: {case['buf']}"}]
            if nonascii_or_ace(buf):
                return [{"key": "wellformed-ace-label-rejected", "what": f"message with an undecodable xn-- label dropped: {case['buf']}"}]
            return [{"key": "wellformed-message-rejected", "what": f"well-formed message from the {side} is dropped as invalid: {case['buf']}"}]
        key = {"EValue": "forward-raises-valueerror", "EUnicode": "forward-raises-unicodeerror"}.get(e, "forward-raises-other")
        return [{"key": key, "what": f"DNSLayer raised {e} while forwarding a well-formed message from the {side}: {case['buf']}"}]
    if obs["cout"] == obs["cin"]:
        return []
    out = unhx(s["ok"])
    # framing-only comparison first: which records had their RDATA bytes changed, everything else equal?
    try:
        _h, qi, ri = ref_records(buf, raw=True)
        _h2, qo, ro = ref_records(out, raw=True)
    except Malformed:
        return [{"key": "forwarded-message-malformed", "what": f"forwarded bytes cannot be framed as a DNS message: {case['buf']} -> {s['ok']}"}]
    if out[:12] != buf[:12] or len(ri) != len(ro) or len(qi) != len(qo):
        return [{"key": "header-or-counts-changed", "what": f"{case['buf']} -> {s['ok']}"}]
    if has_dot_label(buf):
        return [{"key": "label-containing-dot-split", "what": f"a label containing 0x2e is forwarded as several labels: {case['buf']} -> {s['ok']}"}]
    if qi != qo or [r[:3] for r in ri] != [r[:3] for r in ro]:
        if nonascii_or_ace(buf):
            return [{"key": "ace-label-recoded", "what": f"xn-- label changed by IDNA decode/encode: {case['buf']} -> {s['ok']}"}]
        return [{"key": "names-or-fixed-fields-changed", "what": f"{case['buf']} -> {s['ok']}"}]
    _h, _q, ci = ref_records(buf)          # canonical RDATA of the input (cin is not None, so this succeeds)
    for a, c, o in zip(ri, ci, ro):
        t = a[2]
        if t in SHAPES:
            try:
                pre, names, post = SHAPES[t]
                rd, p = bytearray(out[o[4]:o[4] + pre]), o[4] + pre
                if o[5] < pre:
                    raise Malformed("shape")
                for _ in range(names):
                    w2, c2 = ref_name(out, p); rd += w2; p += c2
                if p + post != o[4] + o[5]:
                    raise Malformed("len")
                oc = bytes(rd + out[p:p + post])
            except Malformed:
                oc = None
        else:
            oc = o[3]
        if oc != c[3]:
            shown = "unparsable " + o[3].hex() if oc is None else oc.hex()
            if t in SHAPES:
                pre, names, post = SHAPES[t]
                p = a[4] + pre
                pos = list(range(a[4], a[4] + pre))
                for _ in range(names):
                    q = p
                    while 0 < buf[q] < 64:          # label content bytes inside the rdata are opaque bytes too
                        pos += range(q + 1, q + 1 + buf[q]); q += 1 + buf[q]
                    p += ref_name(buf, p)[1]
                pos += range(p, p + post)
                # a numeric byte can only be mistaken for a pointer if, with the byte after it, it targets an offset inside the message
                if not any(buf[i] >= 0xC0 and i + 1 < len(buf) and (((buf[i] & 0x3F) << 8) | buf[i + 1]) < len(buf) for i in pos):
                    # no pointer-lookalike among the non-name bytes: the names themselves were not carried over
                    raw = a[3]
                    ptrs = [i for i in range(len(raw) - 1) if raw[i] >= 0xC0]
                    short = [i for i in ptrs if (((raw[i] & 0x3F) << 8) | raw[i + 1]) < len(buf)
                             and buf[((raw[i] & 0x3F) << 8) | raw[i + 1]] == 0]
                    if len(ptrs) >= 2 and (short or nonascii_or_ace(buf)):
                        return [{"key": "rdata-later-pointer-misplaced",
                                 "what": f"type {t} rdata {a[3].hex()} has two compression pointers and the first resolves to the root name or an IDN "
                                         f"name: decompress_size += len(rr_name) counts characters of the decoded str, not bytes, so the second "
                                         f"expansion lands at the wrong place ({shown}): {case['buf']}"}]
                    return [{"key": "rdata-name-compression-broken",
                             "what": f"type {t} rdata {a[3].hex()} (no numeric byte pair that could resolve as a pointer) forwarded as {shown}: the reference decoder "
                                     f"no longer reads the same names (dangling or unexpanded pointer): {case['buf']} -> {s['ok']}"}]
                return [{"key": "name-rdata-numeric-bytes-rewritten",
                         "what": f"type {t} rdata {a[3].hex()} forwarded as {shown} (a non-name byte >= 0xC0 taken for a pointer): {case['buf']}"}]
            if t in RAW_COMPRESSIBLE:
                return [{"key": "raw-rdata-rewritten", "what": f"type {t} rdata {a[3].hex()} forwarded as {shown}: {case['buf']}"}]
            return [{"key": "other-rdata-changed", "what": f"type {t} rdata {a[3].hex()} forwarded as {shown}: {case['buf']}"}]
    return [{"key": "meaning-changed-unclassified", "what": f"{case['buf']} -> {s['ok']}"}]


def nontrivial(case, obs):
    return True if case["k"] in ("ref", "compr", "tcp") else ("ok" in obs["sent"] or obs["sent"]["err"] == "EStruct")


def classify(case, obs):
    if case["k"] == "compr":
        return ["compr", f"compr={obs['r']}"]
    if case["k"] == "tcp":
        ok = all("ok" in u for u in obs["udp"])
        comp = any(any(x >= 0xC0 for x in unhx(m)[12:]) for m in case["msgs"])
        return ["tcp", f"tcp-msgs={len(case['msgs'])}", f"tcp-cuts={len(case['cuts'])}", "tcp-all-forwardable" if ok else "tcp-some-rejected",
                "tcp-compressed" if comp else "tcp-plain", "tcp-from-client" if case["from_client"] else "tcp-from-server"]
    if case["k"] == "ref":
        return ["ref", "ref-ok" if obs["canon"] else "ref-malformed"]
    s = obs["sent"]
    try:
        opaque = [r[2] for r in ref_records(unhx(case["buf"]), raw=True)[2] if r[2] not in SHAPES and r[2] not in RAW_COMPRESSIBLE
                  and any(b >= 0xC0 for b in r[3])]
    except Malformed:
        opaque = []
    tags = (["opaque-rr-with-ptr-byte"] if opaque else []) + ["fwd", "from-client" if case["from_client"] else "from-server", "sent" if "ok" in s else "fwd-" + s["err"],
            "wellformed" if obs["cin"] else "malformed-input"] + case.get("tags", [])[:2]
    if "ok" in s:
        tags.append("identical-bytes" if s["ok"] == case["buf"] else "bytes-differ")
        if obs["cin"]:
            tags.append("meaning-kept" if obs["cout"] == obs["cin"] else "meaning-changed")
    if any(b >= 0xC0 for b in unhx(case["buf"])[12:]):
        tags.append("has-ptr-byte")
    return tags
