"""C53 -- Client replay runs queued flows sequentially and cleans up (mitmproxy/addons/clientplayback.py).

The real ClientPlayback addon (real playback task, real ReplayHandler with the real HttpLayer / MockServer and the real
ConnectionHandler.open_connection) runs on a real asyncio loop that only the harness advances; the network is a fake
asyncio.open_connection whose result (refused / connected, response bytes / garbage / EOF) the schedule decides."""
from lib.coqterm import cbool, clist, cnat, cN, copt

ID = "C53"
QUICK_N = 700
THOROUGH_N = 3500
SHARD = 150
COQ_PRELUDE = "From MV Require Import Model.FlowBackup Model.ClientPlayback.\n"
RULE = ("(a) 128 check() decision-table cases (all values of live, is-inflight, intercepted, HTTP, request, content, websocket on real "
        "flow objects), every run. (b) schedules of <=22 operations over a pool of 2..5 real flows of 7 kinds (with / without "
        "response, with error, websocket, TCP, request removed, content missing): start_replay(ids, duplicates and unreplayable flows "
        "included), stop_replay, run the event loop until quiescent, hand a network result to the replay in flight WITHOUT running the "
        "loop (connect ok / refused, response with status / garbage / EOF), user edits (content, drop content, drop request, "
        "intercept, resume, live, backup, revert). 30% of schedules are built around a pattern (edit-then-replay-then-stop, the same "
        "flow queued twice, stop between a network result and the loop run, re-submit of the flow in flight, request dropped while "
        "queued). Non-trivial = at least one replay started and at least 2 distinct operation kinds; distinct by canonical JSON.")
TRUSTED = ["Coq 8.16.1 kernel; vm_compute for case evaluation",
           "hand model of ClientPlayback (queue, inflight, playback loop, check, start_replay, stop_replay, count) tied by correspondence",
           "flow backup / revert is the C40 model (Model/FlowBackup.v) instantiated with the content record of this property",
           "the proxy core between Start and the response / error hook (HttpLayer, MockServer, open_connection) is abstracted to "
           "connect-then-response outcomes; it is exercised for real by the harness (fake asyncio.open_connection only) but not re-verified",
           "asyncio.Queue / Event / Task semantics of CPython; the loop is advanced by the harness until no callback is ready"]
ASSUMPTIONS = ["client_replay_concurrency = 1 (the -1 mode is outside the property)",
               "flows are not intercepted or killed while queued or in flight (hold / resume / kill is C11); the harness skips such edits",
               "plain http:// replays in regular mode; HTTPS and upstream modes differ only inside the proxy core",
               "f.request = None on a flow in flight and backup() of a request-less flow are skipped (they raise inside flow.py, outside this property)"]

KINDS = ["resp", "noresp", "err", "ws", "tcp", "noreq", "nocontent"]
EDITS = ["content", "dropcontent", "dropreq", "int", "res", "live", "backup", "revert"]
REASONS = {None: 0, "Can't replay live flow.": 1, "Can't replay intercepted flow.": 2,
           "Can't replay flow with missing request.": 3, "Can't replay flow with missing content.": 4,
           "Can't replay WebSocket flows.": 5, "Can only replay HTTP flows.": 6}


# ------------------------------------------------------------------ generator
def _net(rng):
    return rng.weighted([(4, "ok"), (2, "fail"), (4, ["resp", rng.randint(0, 6)]), (1, "broken"), (1, "eof")])


def _edit(rng, nf):
    i = rng.randint(0, nf - 1)
    k = rng.weighted([(3, "content"), (1, "dropcontent"), (1, "dropreq"), (1, "int"), (2, "res"), (2, "live"), (3, "backup"), (2, "revert")])
    if k == "content":
        return ["edit", i, k, rng.randint(1, 9)]
    if k == "live":
        return ["edit", i, k, rng.chance(0.4)]
    return ["edit", i, k]


def _ids(rng, nf):
    n = rng.weighted([(3, 1), (3, 2), (2, 3), (1, 4), (1, 0)])
    return [rng.randint(0, nf - 1) for _ in range(n)]


def _drain(rng, k):
    out = []
    for _ in range(k):
        out += [["loop"], ["net", "ok" if rng.chance(0.7) else "fail"], ["loop"], ["net", ["resp", rng.randint(0, 6)] if rng.chance(0.8) else "broken"], ["loop"]]
    return out


def _flows(rng, good):
    nf = rng.randint(2, 5)
    fl = []
    for _ in range(nf):
        if rng.chance(good):
            k = rng.weighted([(5, "resp"), (3, "noresp"), (2, "err")])
        else:
            k = rng.choice(KINDS)
        fl.append({"kind": k, "live": rng.chance(0.08)})
    return fl


def _sched(rng):
    style = rng.random()
    if style < 0.70:
        fl = _flows(rng, 0.7)
        nf = len(fl)
        ops = []
        for _ in range(rng.randint(3, 18)):
            r = rng.random()
            if r < 0.22:
                ops.append(["submit", _ids(rng, nf)])
            elif r < 0.30:
                ops.append(["stop"])
            elif r < 0.55:
                ops.append(["loop"])
            elif r < 0.80:
                ops.append(["net", _net(rng)])
            else:
                ops.append(_edit(rng, nf))
        if rng.chance(0.5):
            ops += _drain(rng, rng.randint(1, 2))
        return {"k": "sched", "flows": fl, "ops": ops, "eager": rng.chance(0.5)}
    fl = _flows(rng, 0.9)
    nf = len(fl)
    a, b = rng.randint(0, nf - 1), rng.randint(0, nf - 1)
    pat = rng.randint(0, 5)
    if pat == 0:      # user edits, replays, stops while still queued
        ops = [["edit", a, "backup"], ["edit", a, "content", rng.randint(1, 9)], ["submit", [b, a]], ["loop"], ["stop"], ["loop"]]
    elif pat == 1:    # the same flow queued twice
        ops = [["submit", [a, a]], ["loop"], ["net", "ok"], ["loop"], ["net", ["resp", rng.randint(1, 6)]], ["loop"], ["loop"]]
    elif pat == 2:    # stop / submit between a network result and the loop run
        ops = [["submit", [a, b]], ["loop"], ["net", _net(rng)], rng.choice([["stop"], ["submit", [a, b]]]), ["loop"], ["net", _net(rng)], ["loop"]]
    elif pat == 3:    # re-submit of the flow in flight, with and without live
        ops = [["submit", [a]], ["loop"], ["submit", [a]], ["edit", a, "live", False], ["submit", [a, b]], ["net", "ok"], ["loop"]]
    elif pat == 4:    # request dropped while queued
        ops = [["submit", [b, a, b]], ["edit", a, "dropreq"], ["loop"], ["net", "fail"], ["loop"]]
    else:             # revert while queued / in flight
        ops = [["submit", [a, b]], ["loop"], ["edit", rng.choice([a, b]), "revert"], ["net", _net(rng)], ["loop"], ["stop"]]
    ops = [o for o in ops if o is not None]
    for _ in range(rng.randint(0, 4)):
        ops.insert(rng.randint(0, len(ops)), rng.choice([["loop"], ["net", _net(rng)], _edit(rng, nf), ["submit", _ids(rng, nf)]]))
    if rng.chance(0.6):
        ops += _drain(rng, rng.randint(1, 2))
    return {"k": "sched", "flows": fl, "ops": ops, "eager": rng.chance(0.5)}


def _probe(rng):
    return {"k": "sched", "probe": True, "eager": rng.chance(0.5), "flows": [{"kind": rng.choice(["resp", "noresp"]), "live": False} for _ in range(2)],
            "ops": [["submit", [0, 0, 1]], ["loop"], ["net", "ok"], ["loop"], ["stop"], ["net", rng.choice([["resp", rng.randint(0, 6)], "broken"])],
                    ["loop"], ["loop"], ["submit", [1]], ["loop"]]}


def gen(rng, n, tier):
    out = [{"k": "chk", "bits": [bool(m >> j & 1) for j in range(7)]} for m in range(128)]
    out += [_probe(rng) for _ in range(3)]
    for _ in range(max(0, n - len(out))):
        out.append(_sched(rng))
    return out


# ------------------------------------------------------------------ implementation
def setup_impl():
    global asyncio, logging, cpm, server, taddons, tflow, http, Proxyserver
    import asyncio
    import logging
    from mitmproxy import http
    from mitmproxy.addons import clientplayback as cpm
    from mitmproxy.addons.proxyserver import Proxyserver
    from mitmproxy.proxy import server
    from mitmproxy.test import taddons, tflow
    lg = logging.getLogger("mitmproxy")
    lg.propagate = False
    lg.addHandler(logging.NullHandler())


def _ctok(b):
    if b is None:
        return None
    if b == b"content":
        return 0
    if b == b"":
        return 13
    if b[:1] == b"c" and b[1:].isdigit() and 1 <= int(b[1:]) <= 12:
        return int(b[1:])
    return 14


def _cbytes(t):
    return b"content" if t == 0 else b"c%d" % t


def _pack_obj(req, content, ws, resp, err, intercepted, replay):
    oc = lambda x: 0 if x is None else 1 + x
    return int(req) + 2 * int(ws) + 4 * int(err) + 8 * int(intercepted) + 16 * int(replay) + 32 * oc(content) + 512 * oc(resp)


def _obj_of_flow(f):
    if isinstance(f, http.HTTPFlow):
        req = f.request is not None
        return (req, _ctok(f.request.raw_content) if req else None, f.websocket is not None,
                (f.response.status_code - 100) if f.response is not None else None, f.error is not None,
                bool(f.intercepted), f.is_replay == "request")
    return (False, None, False, None, f.error is not None, bool(f.intercepted), False)


def _obj_of_state(f, s):
    if isinstance(f, http.HTTPFlow):
        rq = s.get("request")
        rs = s.get("response")
        return (rq is not None, _ctok(rq["content"]) if rq is not None else None, s.get("websocket") is not None,
                (rs["status_code"] - 100) if rs is not None else None, s.get("error") is not None,
                bool(s.get("intercepted")), s.get("is_replay") == "request")
    return (False, None, False, None, s.get("error") is not None, bool(s.get("intercepted")), False)


def _pack_flow(f):
    b = f._backup
    if b is None:
        pb = 0
    else:
        pb = 4 * _pack_obj(*_obj_of_state(f, b)) + (3 if b.get("backup") is not None else 1)
    return [int(isinstance(f, http.HTTPFlow)), int(bool(f.live)), _pack_obj(*_obj_of_flow(f)), pb]


def _make_flow(d, idx):
    k = d["kind"]
    if k == "tcp":
        f = tflow.ttcpflow()
    elif k == "ws":
        f = tflow.twebsocketflow()
    else:
        f = tflow.tflow(resp=(k != "noresp" and k != "err"), err=(k == "err"))
    if isinstance(f, http.HTTPFlow):
        f.request.host = "upstream.test"
        f.request.port = 1000 + idx
        f.request.scheme = "http"
        f.request.content = b"content"
        # a recorded flow: the saved server connection is the (closed) one to the request's host
        f.server_conn.address = ("upstream.test", 1000 + idx)
        if k == "noreq":
            f.request = None
        elif k == "nocontent":
            f.request.raw_content = None
    f.live = bool(d["live"])
    return f


def _replayable(cp, f):
    """The statement's list of unreplayable flows, read off the real object (independent of check())."""
    if f.live or f is cp.inflight or f.intercepted or not isinstance(f, http.HTTPFlow):
        return False
    if f.request is None or f.request.raw_content is None or f.websocket is not None:
        return False
    return True


def run_chk(case):
    live, infl, intercepted, is_http, req, content, ws = case["bits"]
    if is_http:
        f = tflow.twebsocketflow() if ws else tflow.tflow(resp=True)
        if not content:
            f.request.raw_content = None
        if not req:
            f.request = None
    else:
        f = tflow.ttcpflow()
    f.live = live
    f.intercepted = intercepted
    cp = cpm.ClientPlayback()
    cp.inflight = f if infl else None
    try:
        r = cp.check(f)
        code = REASONS.get(r, 99)
    except Exception as e:  # any exception is its own observable
        code = 98
    return {"res": code, "flow": _pack_flow(f)}


class _Writer:
    def __init__(self, sess, idx):
        self.sess, self.idx, self.closed, self.seen = sess, idx, False, False

    def write(self, data):
        if not self.seen:
            self.seen = True
            self.sess.events.append(["req", self.idx])
            c = self.sess.conn
            if c is not None and c["idx"] == self.idx:
                c["phase"], c["delivered"] = "sent", False

    def is_closing(self):
        return self.closed

    def close(self):
        self.closed = True

    def write_eof(self):
        pass

    async def drain(self):
        pass

    async def wait_closed(self):
        pass

    def get_extra_info(self, key, default=None):
        return ("10.0.0.1", 1000 + self.idx)


class _Session:
    def __init__(self):
        self.events = []
        self.conn = None          # the connection of the replay in flight
        self.opened = 0
        self.in_command = False
        self.loop_errors = []


def run_sched(case):
    sess = _Session()

    async def fake_open(host, port, **kw):
        idx = port - 1000
        fut = asyncio.get_running_loop().create_future()
        sess.opened += 1
        sess.conn = {"idx": idx, "fut": fut, "phase": "connecting", "delivered": False, "reader": None}
        return await fut

    class _AsyncioShim:
        def __getattr__(self, name):
            return fake_open if name == "open_connection" else getattr(asyncio, name)

    RealHandler = cpm.ReplayHandler
    index = {}

    class TracingHandler(RealHandler):
        async def replay(self):
            i = index.get(id(self.flow), -1)
            sess.events.append(["start", i])
            await RealHandler.replay(self)
            f = self.flow
            sess.events.append(["fin", i, (f.response.status_code - 100) if f.response is not None else None, f.error is not None])
            if sess.conn is not None and sess.conn["idx"] == i:
                sess.conn = None

    class Upd:
        def update(self, flows):
            if sess.in_command:
                sess.events.append(["upd", [index.get(id(f), -1) for f in flows]])

    class CrashWatch(logging.Handler):
        def emit(self, record):
            if "Client replay has crashed" in record.getMessage():
                sess.events.append(["crash", index.get(id(cp.inflight), -1)])
                if sess.conn is not None and cp.inflight is not None and sess.conn["idx"] == index.get(id(cp.inflight), -1):
                    sess.conn = None

    async def settle():
        loop = asyncio.get_running_loop()
        ready = getattr(loop, "_ready", None)
        for k in range(400):
            await asyncio.sleep(0)
            if ready is not None and not ready and k >= 2:
                return
        if ready is not None:
            raise RuntimeError("event loop did not become quiescent")

    rows, performed, submits, stops, finals, truncated = [], [], [], [], [], []
    cp = cpm.ClientPlayback()
    watch = CrashWatch()

    async def main():
        asyncio.get_running_loop().set_exception_handler(lambda loop, context: sess.loop_errors.append(str(context.get("message"))))
        if case.get("eager"):
            asyncio.get_running_loop().set_task_factory(asyncio.eager_task_factory)
        with taddons.context(cp, Proxyserver(), Upd()) as tctx:
          try:
            await body(tctx)
          finally:
            tctx.master._legacy_log_events.uninstall()

    async def body(tctx):
            cp.running()
            await settle()
            flows = [_make_flow(d, i) for i, d in enumerate(case["flows"])]
            for i, f in enumerate(flows):
                index[id(f)] = i

            def observe():
                ev, sess.events = sess.events, []
                q = [index.get(id(f), -1) for f in list(cp.queue._queue)]
                rows.append({"queue": q, "inflight": index.get(id(cp.inflight), -1) if cp.inflight is not None else None,
                             "count": cp.count(), "flows": [_pack_flow(f) for f in flows], "log": ev})

            observe()
            for op in case["ops"]:
                k = op[0]
                skip = False
                if k == "submit":
                    fs = [flows[i] for i in op[1]]
                    submits.append({"at": len(performed), "ids": op[1], "replayable": [_replayable(cp, f) for f in fs],
                                    "pre": [_pack_flow(f) for f in fs]})
                    sess.in_command = True
                    try:
                        cp.start_replay(fs)
                    finally:
                        sess.in_command = False
                elif k == "stop":
                    hit = (cp.inflight is not None and any(cp.inflight is g for g in cp.queue._queue)
                           and sess.conn is not None and sess.conn["phase"] == "sent")
                    stops.append({"at": len(performed), "queued": [index[id(f)] for f in cp.queue._queue], "hit": hit})
                    if hit and not case.get("probe"):
                        truncated.append(True)
                    sess.in_command = True
                    try:
                        cp.stop_replay()
                    finally:
                        sess.in_command = False
                elif k == "loop":
                    await settle()
                elif k == "net":
                    r = op[1]
                    c = sess.conn
                    if c is not None and not c["delivered"]:
                        if c["phase"] == "connecting" and r == "ok":
                            c["reader"] = asyncio.StreamReader()
                            c["fut"].set_result((c["reader"], _Writer(sess, c["idx"])))
                            c["delivered"] = True
                        elif c["phase"] == "connecting" and r == "fail":
                            c["fut"].set_exception(OSError("connection refused"))
                            c["delivered"] = True
                            finals.append({"at": len(performed), "idx": c["idx"]})
                        elif c["phase"] == "sent" and isinstance(r, list):
                            c["reader"].feed_data(b"HTTP/1.1 %d Tok\r\ncontent-length: 0\r\n\r\n" % (200 + r[1]))
                            c["delivered"] = True
                            finals.append({"at": len(performed), "idx": c["idx"]})
                        elif c["phase"] == "sent" and r in ("broken", "eof"):
                            if r == "broken":
                                c["reader"].feed_data(b"garbage\r\n\r\n")
                            else:
                                c["reader"].feed_eof()
                            c["delivered"] = True
                            finals.append({"at": len(performed), "idx": c["idx"]})
                elif k == "edit":
                    f, e = flows[op[1]], op[2]
                    is_http = isinstance(f, http.HTTPFlow)
                    busy = f is cp.inflight or any(f is g for g in cp.queue._queue) or f.live
                    if e in ("content", "dropcontent"):
                        skip = not is_http or f.request is None
                    elif e == "dropreq":
                        skip = not is_http or f is cp.inflight
                    elif e == "int":
                        skip = busy
                    elif e == "backup":
                        skip = (is_http and f.request is None) or f.intercepted
                    elif e == "revert":
                        skip = f is cp.inflight
                    if not skip:
                        if e == "content":
                            f.request.content = _cbytes(op[3])
                        elif e == "dropcontent":
                            f.request.raw_content = None
                        elif e == "dropreq":
                            f.request = None
                        elif e == "int":
                            f.intercept()
                        elif e == "res":
                            f.resume()
                        elif e == "live":
                            f.live = bool(op[3])
                        elif e == "backup":
                            f.backup()
                        elif e == "revert":
                            f.revert()
                if skip:
                    continue
                performed.append(op)
                observe()
                if truncated:
                    break
            # tear down: nothing may stay pending
            cp.stop_replay()
            if sess.conn is not None and not sess.conn["fut"].done():
                sess.conn["fut"].set_exception(OSError("teardown"))
            elif sess.conn is not None and sess.conn["reader"] is not None:
                sess.conn["reader"].feed_eof()
            await settle()
            await cp.done()
            await settle()

    saved_asyncio, saved_handler = server.asyncio, cpm.ReplayHandler
    server.asyncio, cpm.ReplayHandler = _AsyncioShim(), TracingHandler
    cpm.logger.addHandler(watch)
    try:
        asyncio.run(main())
    finally:
        server.asyncio, cpm.ReplayHandler = saved_asyncio, saved_handler
        cpm.logger.removeHandler(watch)
    return {"ops": performed, "rows": rows, "submits": submits, "stops": stops, "finals": finals, "truncated": bool(truncated)}


def run_impl(case):
    return run_chk(case) if case["k"] == "chk" else run_sched(case)


# ------------------------------------------------------------------ Coq terms
def _c_obj(o):
    req, content, ws, resp, err, intercepted, replay = o
    return (f"(mkObj {cbool(req)} {copt(content, cnat, 'nat')} {cbool(ws)} {copt(resp, cnat, 'nat')} {cbool(err)} "
            f"{cbool(intercepted)} {cbool(replay)})")


def _init_obj(kind):
    """initial content of a pool flow, from its descriptor (not from the observation)"""
    return {"resp": (True, 0, False, 100, False, False, False), "noresp": (True, 0, False, None, False, False, False),
            "err": (True, 0, False, None, True, False, False), "ws": (True, 0, True, 1, False, False, False),
            "tcp": (False, None, False, None, False, False, False), "noreq": (False, None, False, 100, False, False, False),
            "nocontent": (True, None, False, 100, False, False, False)}[kind]


def _c_flow(idx, obj, live, is_http):
    return f"(mkCf (Flow {cN(idx)} {_c_obj(obj)} {cbool(live)} None) {cbool(is_http)})"


def _c_net(r):
    if isinstance(r, list):
        return f"(NResponse {cnat(100 + r[1])})"
    return {"ok": "NConnected", "fail": "NFailed", "broken": "NBroken", "eof": "NBroken"}[r]


def _c_op(op):
    k = op[0]
    if k == "submit":
        return f"(Submit {clist([cnat(i) for i in op[1]], 'nat')})"
    if k == "stop":
        return "Stop"
    if k == "loop":
        return "Loop"
    if k == "net":
        return f"(Net {_c_net(op[1])})"
    e = op[2]
    ce = {"content": lambda: f"(ESetContent {cnat(op[3])})", "dropcontent": lambda: "EDropContent", "dropreq": lambda: "EDropRequest",
          "int": lambda: "EIntercept", "res": lambda: "EResume", "live": lambda: f"(ESetLive {cbool(op[3])})",
          "backup": lambda: "EBackup", "revert": lambda: "ERevert"}[e]()
    return f"(Edit {cnat(op[1])} {ce})"


def _c_lev(e):
    k = e[0]
    if k == "upd":
        return f"(VUpd {clist([cnat(i) for i in e[1]], 'nat')})"
    if k == "fin":
        return f"(VFin {cnat(e[1])} {copt(e[2], cnat, 'nat')} {cbool(e[3])})"
    return "(" + {"start": "VStart", "req": "VReq", "crash": "VCrash"}[k] + f" {cnat(e[1])})"


def _c_row(r):
    fl = clist([clist([cN(x) for x in f], "N") for f in r["flows"]], "(list N)")
    lg = clist([_c_lev(e) for e in r["log"]], "lev")
    return (f"(mkRow {clist([cnat(i) for i in r['queue']], 'nat')} {copt(r['inflight'], cnat, 'nat')} {cnat(r['count'])} {fl} {lg})")


def coq_case(case, obs):
    if case.get("probe"):
        return None
    if case["k"] == "chk":
        live, infl, intercepted, is_http, req, content, ws = case["bits"]
        o = (req, (0 if content else None) if req else None, ws, 0, False, intercepted, False)
        return f"Chk {cbool(infl)} {_c_flow(0, o, live, is_http)} {cnat(obs['res'])}"
    for r in obs["rows"]:
        for e in r["log"]:
            if e[0] != "upd" and e[1] < 0:
                return None
    fs = clist([_c_flow(i, _init_obj(d["kind"]), d["live"], d["kind"] != "tcp") for i, d in enumerate(case["flows"])], "cflow")
    return f"Sched {fs} {clist([_c_op(o) for o in obs['ops']], 'op')} {clist([_c_row(r) for r in obs['rows']], 'row')}"


# ------------------------------------------------------------------ oracle: the property on the implementation's observation
def oracle(case, obs):
    v = []
    if case["k"] == "chk":
        live, infl, intercepted, is_http, req, content, ws = case["bits"]
        unreplayable = live or infl or intercepted or not is_http or not req or not content or ws
        if obs["res"] >= 98:
            v.append({"key": "check-raises", "what": f"check() raised or returned an unknown message for bits {case['bits']}"})
        elif (obs["res"] != 0) != bool(unreplayable):
            v.append({"key": "check-admits-unreplayable" if unreplayable else "check-rejects-replayable",
                      "what": f"check() returned code {obs['res']} for (live, inflight, intercepted, http, request, content, websocket) = {case['bits']}"})
        return v
    ops, rows = obs["ops"], obs["rows"]
    sub_at = {s["at"]: s for s in obs["submits"]}
    stop_at = {s["at"]: s for s in obs["stops"]}
    final_at = {}
    for f in obs["finals"]:
        final_at[f["at"]] = f["idx"]
    expected = []                 # reference FIFO of flow indices
    open_replay = None            # flow index of the replay whose replay() has not returned
    sent = False
    had_response_at_start = False
    snapshot = {}                 # flow idx -> (packed content, packed backup) before it entered the queue
    tainted = set()               # flows the user reverted while queued
    awaiting_final = None
    corrupted = None              # flow in flight that a stop_replay reverted while its connection was open
    seen = set()

    def add(key, what):
        if key not in seen:
            seen.add(key)
            v.append({"key": key, "what": what})

    for n, op in enumerate(ops):
        before, row = rows[n], rows[n + 1]
        k = op[0]
        has_resp = [f[2] >= 512 for f in (row["flows"] if k in ("edit", "stop", "submit") else before["flows"])]
        upd = [e[1] for e in row["log"] if e[0] == "upd"]
        if k == "submit":
            s = sub_at[n]
            acc = upd[0] if upd else []
            want = [i for i, ok in zip(s["ids"], s["replayable"]) if ok]
            bad = [i for i, ok in zip(s["ids"], s["replayable"]) if not ok and i in acc and i not in want]
            if bad:
                add("unreplayable-flow-queued", f"op {n}: start_replay queued flow(s) {bad} that cannot be replayed")
            elif acc != want:
                add("replayable-flow-skipped", f"op {n}: start_replay({s['ids']}) accepted {acc}, replayable were {want}")
            for i in acc:
                c, b = row["flows"][i][2], row["flows"][i][3]
                if c >= 512 or c & 4 or not c & 16 or b == 0:
                    add("accepted-flow-not-prepared", f"op {n}: flow {i} was queued but is not prepared for replay (response/error cleared, "
                        f"is_replay set, backup taken): content {c}, backup {b}")
            for i, pre in zip(s["ids"], s["pre"]):
                if i in acc and i not in expected and i not in snapshot:
                    snapshot[i] = (pre[2], pre[3])
                    tainted.discard(i)
            expected += acc
        elif k == "stop":
            s = stop_at[n]
            if row["queue"]:
                add("stop-leaves-queue", f"op {n}: queue is {row['queue']} after stop_replay")
            if sorted(set(upd[0] if upd else [])) != sorted(set(s["queued"])):
                add("stop-update-hook", f"op {n}: stop_replay announced {upd} for queued {s['queued']}")
            for i in sorted(set(s["queued"])):
                if i in snapshot and i not in tainted:
                    now = (row["flows"][i][2], row["flows"][i][3])
                    if now != snapshot[i]:
                        if snapshot[i][1] != 0:
                            add("stop-reverts-to-older-backup",
                                f"op {n}: flow {i} had a backup pending when it was queued; stop_replay reverted it to that older state "
                                f"(content/backup {snapshot[i]} before replay, {now} after stop)")
                        else:
                            add("stop-does-not-restore", f"op {n}: flow {i} was {snapshot[i]} before replay and is {now} after stop_replay")
            for i in set(s["queued"]):
                snapshot.pop(i, None)
            expected = []
            if s.get("hit"):
                corrupted = open_replay
        elif k == "edit" and op[2] == "revert":
            if op[1] in expected or op[1] == open_replay:
                tainted.add(op[1])
        for e in row["log"]:
            if e[0] == "start":
                if open_replay is not None:
                    add("overlapping-replays", f"op {n}: replay of flow {e[1]} started while the replay of flow {open_replay} had not finished")
                if not expected or expected[0] != e[1]:
                    add("out-of-order", f"op {n}: replay of flow {e[1]} started, queue order says {expected[:1]}")
                else:
                    expected.pop(0)
                open_replay, sent = e[1], False
                had_response_at_start = has_resp[e[1]]
            elif e[0] == "req":
                if open_replay != e[1]:
                    add("request-outside-its-replay", f"op {n}: request of flow {e[1]} reached the server while replay in progress is {open_replay}")
                sent = True
            elif e[0] == "fin":
                if open_replay != e[1]:
                    add("finish-without-start", f"op {n}: replay of flow {e[1]} finished but {open_replay} was in progress")
                if e[2] is None and not e[3]:
                    add("replay-ends-without-outcome", f"op {n}: replay of flow {e[1]} returned with neither response nor error")
                if e[2] is not None and not e[3] and not sent:
                    if had_response_at_start:
                        add("stale-response-not-resent", f"op {n}: queue entry for flow {e[1]} was answered from the response the flow already "
                            f"carried (queued twice or reverted while queued); no request reached the server")
                    else:
                        add("response-without-request", f"op {n}: replay of flow {e[1]} has a response but no request reached the server")
                open_replay = None
                has_resp[e[1]] = e[2] is not None
                if e[1] not in expected:
                    snapshot.pop(e[1], None)
            elif e[0] == "crash":
                if expected and expected[0] == e[1] and open_replay is None:
                    expected.pop(0)
                    if not before["flows"][e[1]][2] & 1 or not row["flows"][e[1]][2] & 1:
                        add("request-dropped-while-queued-crash", f"op {n}: flow {e[1]} lost its request while queued; the playback loop crashed on it "
                            f"and left it with neither response nor error")
                    else:
                        add("replay-crash", f"op {n}: playback crashed on flow {e[1]}")
                else:
                    add("replay-crash", f"op {n}: playback crashed on flow {e[1]} (in progress: {open_replay})")
                    open_replay = None
        if k == "loop" and awaiting_final is not None:
            if not any(e[0] == "fin" and e[1] == awaiting_final for e in row["log"]):
                if corrupted == awaiting_final:
                    add("stop-wedges-inflight-duplicate", f"op {n}: stop_replay reverted flow {awaiting_final} (queued a second time) while its replay was in flight "
                        f"with an open server connection; the replay never finishes and the queue is never served again")
                else:
                    add("replay-never-finishes", f"op {n}: flow {awaiting_final} got its final network result but replay() did not return in the next loop run")
            awaiting_final = None
        if n in final_at:
            awaiting_final = final_at[n]
        if row["queue"] != expected:
            add("queue-order", f"op {n}: queue is {row['queue']}, first-in-first-out reference says {expected}")
        if row["inflight"] != open_replay:
            add("inflight-mismatch", f"op {n}: inflight is {row['inflight']} but the replay in progress is {open_replay}")
        if row["count"] != len(row["queue"]) + (0 if row["inflight"] is None else 1):
            add("count", f"op {n}: count() = {row['count']}")
    return v


def nontrivial(case, obs):
    if case["k"] == "chk":
        return True
    started = sum(1 for r in obs["rows"] for e in r["log"] if e[0] == "start")
    return started >= 1 and len({o[0] for o in obs["ops"]}) >= 2


def classify(case, obs):
    if case["k"] == "chk":
        return ["chk", "chk-ok" if obs["res"] == 0 else f"chk-reason-{obs['res']}"]
    t = ["sched-eager" if case.get("eager") else "sched"]
    if case.get("probe"):
        t.append("probe")
    if obs.get("truncated"):
        t.append("ended-at-corrupting-stop")
    evs = [e for r in obs["rows"] for e in r["log"]]
    starts = sum(1 for e in evs if e[0] == "start")
    t.append("starts-0" if starts == 0 else "starts-1" if starts == 1 else "starts-2+")
    if any(e[0] == "fin" and e[2] is not None for e in evs):
        t.append("fin-response")
    if any(e[0] == "fin" and e[3] for e in evs):
        t.append("fin-error")
    if any(e[0] == "crash" for e in evs):
        t.append("crash")
    if any(o[0] == "stop" for o in obs["ops"]) and any(s["queued"] for s in obs["stops"]):
        t.append("stop-with-queued")
    if any(s["replayable"].count(False) for s in obs["submits"]):
        t.append("submit-rejects")
    if any(len(r["queue"]) >= 2 for r in obs["rows"]):
        t.append("queue-2+")
    if len(obs["ops"]) < len(case["ops"]):
        t.append("edit-skipped")
    return t
