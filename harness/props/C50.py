"""C50 -- Content views always render safely; the DNS view re-encodes faithfully
(mitmproxy/contentviews/__init__.py, _registry.py, _view_dns.py)."""
import gzip
import io
import signal
import struct
import traceback
import zipfile
import zlib

from lib.coqterm import cbool, cbytes, cN, cZ, clist, copt, hx, unhx

ID = "C50"
QUICK_N = 1200
THOROUGH_N = 6000
SHARD = 250
RULE = ("40% real registry: a message (HTTP request/response with content-type / content-encoding, TCP, UDP, WebSocket "
        "text/binary, DNS) whose body is a structured sample for one of the registered views (JSON, XML/HTML, CSS, JS, GraphQL, "
        "protobuf, gRPC, msgpack, MQTT, multipart, url-encoded, query, images, zip, DNS wire, socket.io, HTTP/3 frames, WBXML), "
        "mutated in 35% (truncation, byte flips, ESC/C0/C1/NUL/invalid UTF-8 insertions) or random bytes, rendered through the real "
        "prettify_message with view auto / every registered name in random case / unknown names / AUTO; 15% synthetic registries "
        "of scripted views (priorities that are numbers, raise or are not numbers; prettify that returns text with control "
        "characters or raises with control characters in the message; duplicate names); 25% DNS messages (all record types, "
        "invalid rdata, reserved bits, odd names, unknown enum values) x transport UDP / TCP / DoH through prettify -> reencode; "
        "20% unit cases (registry register/getitem, raw view decoding, enum to_str/from_str incl. every table entry, DNS "
        "render_priority). Non-trivial = a view other than the trivial path was exercised (see nontrivial); distinct by canonical JSON.")
TRUSTED = ["Coq 8.16.1 kernel (coqc), vm_compute for table checks and case evaluation",
           "harness/props/C50.py generator, row extraction and comparison glue (Corr/C50.v)",
           "harness/translators/dns_enums.py (tables of net/dns/*.py; fails closed on unknown source forms)",
           "model of C25 (Model/DnsNames.v, Model/DnsMessage.v) for DNSMessage.unpack / packed / domain_names, tied by C25 and again here",
           "ruamel.yaml contract yaml_ok: safe-load of the round-trip dump of the to_json dict gives the same value, and the dump has "
           "no character that escape_control_characters replaces (checked on every generated message by the oracle, key yaml-contract)",
           "ipaddress contract: IPv4Address/IPv6Address(str(IPv4Address/IPv6Address(data))).packed == data and both reject the "
           "marker string 0x.. (invalid .. data) (instance of rdata_ok for A/AAAA; checked by the oracle on generated records)",
           "formatted exception text of a failing view is taken from a direct call of the view (same traceback cut as prettify_message)"]
ASSUMPTIONS = ["content views return str or raise (a view returning a non-str makes escape_control_characters raise ValueError: outside the model)",
               "view names are ASCII (str.lower modelled on ASCII only); render_priority never returns NaN",
               "get_data / make_metadata are inputs of the model (message.content and content-encoding decoding belong to C31)",
               "names with ACE (xn--) labels are outside the C25 name model: such DNS cases are checked by the oracle only",
               "HTTPS record JSON codec (net/dns/https_records.py) is abstract in the model: tied by observed tables, oracle-checked"]
TRANSLATORS = ["dns_enums"]
ALLOWED_AXIOMS = []
COQ_PRELUDE = ("From MV Require Import Model.DnsMessage Model.Contentviews Model.ContentviewsDns.\n"
               "Notation U := (@None (text + text)).\nNotation OK := (fun t : text => Some (@inl text text t)).\n"
               "Notation ER := (fun t : text => Some (@inr text text t)).\n")

Q_A = bytes.fromhex("002a0100000100000000000003646e7306676f6f676c650000010001")
R_HTTPS = bytes.fromhex(
    "00008180000100010000000107746c732d656368036465760000410001c00c004100010000003c00520001000005004b0049fe0d00"
    "452b00200020015881d41a3e2ef8f2208185dc479245d20624ddd0918a8056f2e26af47e2628000800010001000100034012707562"
    "6c69632e746c732d6563682e646576000000002904d0000000000000")


def _zip():
    b = io.BytesIO()
    with zipfile.ZipFile(b, "w") as z:
        z.writestr("a.txt", "hi")
        z.writestr("d/\x1bb", "x")
    return b.getvalue()


PNG = bytes.fromhex("89504e470d0a1a0a0000000d4948445200000001000000010802000000907753de")
GIF = b"GIF89a\x01\x00\x01\x00\x80\x00\x00\xff\xff\xff\x00\x00\x00,\x00\x00\x00\x00\x01\x00\x01\x00\x00\x02\x02D\x01\x00;"
JPG = bytes.fromhex("ffd8ffe000104a46494600010100000100010000ffc0000b080001000101011100ffd9")
ICO = bytes.fromhex("00000100010010100000010020006804000016000000")
MULTI = b"--XX\r\nContent-Disposition: form-data; name=\"a\"\r\n\r\nv\x1b1\r\n--XX\r\nContent-Disposition: form-data; name=\"b\"\r\n\r\n\xc2\x9bz\r\n--XX--\r\n"

# (body, content-type) samples: one or more per registered view
SAMPLES = [
    (b'{"a": [1, 2, {"b": null}], "c": "x\\u001by\\u009bz"}', "application/json"),
    (b'{"query": "query Q { a(id: 1) { b } }", "variables": {"x": "\\u001b"}}', "application/json"),
    (b'[{"query": "{ a }"}]', "application/json"),
    (b"<html><body><p>hi \xc2\x9b</p><script>var a=1;</script></body></html>", "text/html"),
    (b"<?xml version='1.0'?><a b='c'><d/>t\x1bx</a>", "application/xml"),
    (b"<svg xmlns='http://www.w3.org/2000/svg'><g/></svg>", "image/svg+xml"),
    (b"body{color:red;background:url(a.png)}@media x{a{b:c}}/*\x1b*/", "text/css"),
    (b"function f(a){if(a){return 'x\x1b';}else{return [1,2];}}", "application/javascript"),
    (b"\x08\x96\x01\x12\x07testing\x1a\x03\x08\x01\x1b", "application/x-protobuf"),
    (b"\x00\x00\x00\x00\x05\x08\x96\x01\x12\x00", "application/grpc"),
    (b"\x01\x00\x00\x00\x02\x1f\x8b", "application/grpc"),
    (b"\x82\xa1a\x01\xa1b\x92\xc3\xa2\x1bx", "application/msgpack"),
    (b"\x10\x10\x00\x04MQTT\x04\x02\x00<\x00\x04ab\x1bc", None),
    (b"\x30\x0a\x00\x03a/b\x1bhello", None),
    (b"\x82\x08\x00\x01\x00\x03a/#\x00", None),
    (MULTI, "multipart/form-data; boundary=XX"),
    (b"a=b&c=%1b%c2%9b&d=\x1b&e", "application/x-www-form-urlencoded"),
    (b"k=v\xff&\xc2\x9b=1", "application/x-www-form-urlencoded"),
    (PNG, "image/png"), (GIF, "image/gif"), (JPG, "image/jpeg"), (ICO, "image/x-icon"),
    (b"verybinary\x1b", "image/new-magic"),
    (_zip(), "application/zip"),
    (Q_A, "application/dns-message"), (R_HTTPS, "application/dns-message"),
    (struct.pack("!H", len(Q_A)) + Q_A, "application/dns-message"),
    (b'42["ev",{"a":"\\u001b"}]', None), (b"2", None), (b'40/ns,{"t":1}', None),
    (b"\x00\x04\x01\x02\x03\x04\x01\x02\x00\x00\x04\x00", None),
    (b"\x03\x01\x6a\x00\x45\x03a\x1bb\x00\x01", "application/vnd.wap.wbxml"),
    (b"plain text \t\r\n with \x1b[31m ESC, \x00 NUL, \x7f DEL, \xc2\x9b CSI, \xc2\x85 NEL, \xe2\x80\xa8 LS", "text/plain"),
    (b"\xff" * 30, None), (b"", None), (b"\xc2", None), (b"\xe2\x82", "text/plain"), (b"\xf0\x9f\x98\x80\xed\xa0\x80\xf5", None),
]
INSERTS = [b"\x1b", b"\x00", b"\x7f", b"\xc2\x9b", b"\xc2\x80", b"\xc2\x9f", b"\xff", b"\x1b]0;t\x07", b"\r", b"\t", b"\x08",
           b"\xe2\x80\xa8", b"\xc2\x85", b"\xed\xa0\x80", b'"', b"<", b"{", b"\\u001b", b"&"]
CTYPES = [None, "text/plain", "text/html", "application/json", "application/xml", "text/css", "application/javascript",
          "application/x-protobuf", "application/grpc", "application/msgpack", "multipart/form-data; boundary=XX",
          "application/x-www-form-urlencoded", "image/png", "application/zip", "application/dns-message",
          "application/vnd.wap.wbxml", "application/octet-stream", "text/flibble", "\x1b/x", "application/acme+json"]
MSGT = ["http-resp", "http-resp", "http-req", "tcp", "udp", "ws-text", "ws-bin", "dns"]
VIEW_NAMES = ["viewcss", "dns", "graphql", "http/3 frames", "image", "javascript", "json", "mqtt", "multipart form", "query",
              "raw", "socket.io", "url-encoded", "wbxml", "xml/html", "zip archive", "hex dump", "hex stream", "msgpack",
              "protobuf", "grpc"]
DNS_TYPES = [1, 28, 2, 5, 12, 16, 65, 15, 6, 33, 41, 99, 255, 0, 64, 256, 65535]
LABELS = ["a", "example", "com", "dns", "google", "a-b", "A", "Www", "_srv", "1", "123", "true", "null", "~", "0x1f", "1e3", "x" * 63,
          "a b", "a:b", "#c", "- x", "a\x1bb", "yes", "<<", "=", "1_000", "12:30:45", "'q'", '"dq"',
          "a,b", "[x]", "{y}", "&z", "*w", "!t", "|", ">", "%", "@", "`", "a\\b", "a: b", "a #b", " ", " "]
TXTS = [b"\x05hello", b"\x0bv=spf1 -all", b"", b"plain", b"\x02\xff\xfe", b"\xff", b"\x03a\x1bb", b"\x04\xc2\x9bxy", b"0x41", b"true",
        b"123", b"a: b", b"- x", b"#", b"0xff (invalid TXT data)", b"x" * 100, b"a  b   c" * 12, b"\xe2\x80\xa8", b"\xc2\x85", b" lead",
        b"trail ", b"a\nb", b"a\r\nb", b"\t", b"'", b'"', b"\\x41", b"\xc2\xa0", b"\xef\xbb\xbf", b"\xf0\x9f\x98\x80", b"null", b"~",
        b"\x0cabc def ghi\x05jk lm", b"\x02\xc0\x0c"]


# well-formed messages whose names / record data are at the edges of the wire codec (cases of C25 / C26)
ODD_WIRES = [bytes.fromhex(x) for x in (
    "000181800002000000000000000001000103777777c00c00010001",           # name ending in a pointer to the root label
    "187581800001000000000000012e00544b0003",                           # a label that is a dot
    "000181800001000100000000076578616d706c6503636f6d0000100001c00c0010000100000005000302c00c",  # TXT 02 c0 0c
    "fa4985830000000100000000036e7331016103612e62000005000100000000000e03636f6d0300012004612e2e6200",
    "c95f0100000100000000000002c3a90000010001",                         # non-ASCII label
    "000101000001000000000000c00c00010001",                             # pointer loop
)]

# ---------------------------------------------------------------- generator
def _body(rng):
    r = rng.random()
    if r < 0.12:
        return rng.bytes(rng.randint(0, 40)), rng.choice(CTYPES)
    body, ct = rng.choice(SAMPLES)
    if rng.chance(0.35):
        for _ in range(rng.randint(1, 3)):
            m = rng.below(5)
            if m == 0 and body:
                body = body[:rng.below(len(body))]
            elif m == 1 and body:
                i = rng.below(len(body))
                body = body[:i] + bytes([body[i] ^ (1 << rng.below(8))]) + body[i + 1:]
            elif m == 2:
                i = rng.randint(0, len(body))
                body = body[:i] + rng.choice(INSERTS) + body[i:]
            elif m == 3 and body:
                i = rng.below(len(body))
                body = body[:i] + body[i + 1:]
            else:
                body = body + rng.bytes(rng.randint(1, 4))
    if rng.chance(0.2):
        ct = rng.choice(CTYPES)
    return body[:220], ct


def _view_name(rng):
    r = rng.random()
    if r < 0.58:
        return "auto"
    if r < 0.88:
        n = rng.choice(VIEW_NAMES)
        m = rng.below(4)
        return n if m < 2 else n.upper() if m == 2 else n.title()
    if r < 0.94:
        return rng.choice(["nope", "", "json ", "x\x1by", "raw\x00"])
    return rng.choice(["AUTO", "Auto", "aUTO"])


def _gen_pm(rng):
    body, ct = _body(rng)
    msg = {"t": rng.choice(MSGT), "body": hx(body), "ct": ct, "ce": None, "port": rng.choice([None, None, 53, 5353, 443, 80]),
           "path": rng.choice(["/", "/socket.io/?EIO=4", "/a?x=1&y=%1b", "/graphql"])}
    if msg["t"].startswith("http") and rng.chance(0.15):
        msg["ce"] = rng.choice(["gzip", "gzip", "deflate", "bogus", "gzip-broken", "identity"])
    if rng.chance(0.03):
        msg["body"] = None
    return {"k": "pm", "msg": msg, "view": _view_name(rng)}


SYN_NAMES = ["Alpha", "alpha", "ALPHA", "Beta", "Raw", "raw", "JSON", "Zed", "auto", "Auto", "X Y", "q"]
SYN_TEXTS = ["ok", "", "a\x1b[31mb", "x\x00y\x7fz", "t\tn\nr\r", "c1:\x9b\x80\x9f!", "  \ud800", "café \U0001f600", "." * 40]
SYN_MSGS = ["boom", "bad \x1b[2J input", "nul\x00", "c1 \x9b", "multi\nline", ""]
SYN_EXC = ["ValueError", "KeyError", "AssertionError", "RecursionError", "UnicodeDecodeError", "Custom"]


def _gen_syn(rng):
    views = []
    for _ in range(rng.randint(0, 5) if rng.chance(0.9) else 0):
        pr = rng.weighted([(70, {"t": "num", "v": rng.choice([0, 1, 2, -1, 0.1, 0.5, 0.1, 1.0, True, False, 1e308, -0.0])}),
                           (15, {"t": "raise"}), (8, {"t": "str"}), (7, {"t": "none"})])
        pt = rng.weighted([(55, {"t": "ok", "text": rng.choice(SYN_TEXTS)}),
                           (45, {"t": "raise", "exc": rng.choice(SYN_EXC), "msg": rng.choice(SYN_MSGS), "deep": rng.chance(0.5),
                                 "chain": rng.chance(0.2)})])
        views.append({"name": rng.choice(SYN_NAMES), "syn": rng.choice(["none", "yaml", "xml", "error", "css", "javascript"]),
                      "prio": pr, "pret": pt})
    if views and rng.chance(0.3):
        name = rng.choice([v["name"] for v in views])
        name = rng.choice([name, name.upper(), name.lower()])
    else:
        name = rng.choice(["auto", "auto", "auto", "AUTO", "nope", "alpha", "Raw", "zed"])
    body = rng.choice([b"", b"abc", b"\xff\x1b", b"\xc2\x9b", b"{}"])
    return {"k": "syn", "views": views, "body": None if rng.chance(0.05) else hx(body),
            "ce": rng.choice([None, None, "gzip", "bogus"]), "view": name}


ACE_LABELS = ["é", "xn--nxasmq6b", "xn--a-b-", "XN--9ca"]      # IDNA: outside the C25 name model (oracle only)


def _name(rng):
    if rng.chance(0.1):
        return ""
    return ".".join(rng.choice(ACE_LABELS) if rng.chance(0.02) else rng.choice(LABELS) for _ in range(rng.randint(1, 3)))


def _wire_name(rng):
    r = rng.random()
    if r < 0.6:
        out = b""
        for _ in range(rng.randint(0, 3)):
            l = rng.choice(LABELS[:17]).encode()
            out += bytes([len(l)]) + l
        return out + b"\x00"
    return rng.choice([b"\x05ab", b"\x01a", b"\x01a\x00\x00", b"\x03a.b\x00", b"\xc0\x0c", b"\x01\x2e\x00", b"", b"\x40a\x00",
                       b"\x02\xc3\xa9\x00", b"\x01A\x00", b"\x08xn--a-b-\x00"])


def _rdata(rng, t):
    r = rng.random()
    if r < 0.12:
        return rng.bytes(rng.randint(0, 12))
    if t == 1:
        return rng.bytes(4) if r < 0.8 else rng.bytes(rng.choice([0, 3, 5]))
    if t == 28:
        return rng.choice([rng.bytes(16), b"\x00" * 16, b"\x20\x01\x0d\xb8" + b"\x00" * 11 + b"\x01", b"\x00" * 10 + b"\xff\xff\x01\x02\x03\x04",
                           rng.bytes(15)])
    if t in (2, 5, 12):
        return _wire_name(rng)
    if t == 16:
        return rng.choice(TXTS)
    if t == 65:
        prio = struct.pack("!h", rng.choice([0, 1, -1, 300]))
        params = b""
        for _ in range(rng.randint(0, 3)):
            k = rng.choice([0, 1, 2, 3, 4, 5, 6, 7, 1, 65280])
            v = rng.choice([b"", b"\x02h2", b"\x02h3\x02h2", b"\x01\xbb", b"\x01\x02\x03\x04", b"a'b\\c\"d", b"\x00\x1b\xff", b"  ", b"a  b"])
            params += struct.pack("!HH", k, len(v)) + v
        return rng.choice([prio + _wire_name(rng) + params, prio + b"\x00" + params, prio + b"\x00" + params + b"\x00"])
    return rng.choice([b"", b"\x00\x0a\x04mail\x00", rng.bytes(rng.randint(1, 10)), b"\xc0\x0c"])


def _gen_dns(rng):
    def rr():
        t = rng.choice(DNS_TYPES)
        return {"name": _name(rng), "type": t, "class": rng.choice([1, 1, 1, 3, 255, 1232, 0]), "ttl": rng.choice([0, 60, 1, 2 ** 32 - 1, 3600]),
                "data": hx(_rdata(rng, t))}
    m = {"id": rng.choice([0, 42, 65535, rng.below(65536)]), "query": rng.chance(0.5), "op_code": rng.choice([0, 0, 0, 1, 2, 3, 4, 5, 6, 15]),
         "aa": rng.chance(0.3), "tc": rng.chance(0.2), "rd": rng.chance(0.6), "ra": rng.chance(0.5),
         "reserved": rng.choice([0, 0, 0, 0, 2, 1, 4, 7]), "rcode": rng.choice([0, 0, 3, 2, 5, 11, 12, 15]),
         "q": [{"name": _name(rng), "type": rng.choice(DNS_TYPES), "class": rng.choice([1, 1, 255, 7])} for _ in range(rng.choice([1, 1, 1, 0, 2]))],
         "an": [rr() for _ in range(rng.choice([0, 1, 1, 2, 3]))], "au": [rr() for _ in range(rng.choice([0, 0, 1]))],
         "ad": [rr() for _ in range(rng.choice([0, 0, 1]))]}
    c = {"k": "dns", "m": m, "tr": rng.choice(["udp", "udp", "tcp", "tcp", "http", "dnsmsg"])}
    if rng.chance(0.12):
        c["raw"] = hx(rng.choice([Q_A, R_HTTPS, Q_A[:-1], Q_A + b"\x00", b"foobar", b"", rng.bytes(rng.randint(12, 30))] + ODD_WIRES))
    return c


def _gen_unit(rng):
    r = rng.random()
    if r < 0.2:
        ops = [[rng.choice(SYN_NAMES), "t%d" % i] for i in range(rng.randint(0, 6))]
        if rng.chance(0.5):
            return {"k": "reg", "ops": ops}
        return {"k": "get", "ops": ops, "item": rng.choice(SYN_NAMES + ["nope", "ALPHA ", "x y"])}
    if r < 0.55:
        toks = [b"a", b"\x1b", b"\x00", b"\x7f", b"\xc2\x9b", b"\xc2", b"\xe2\x82\xac", b"\xe2\x82", b"\xe2", b"\xf0\x9f\x98\x80", b"\xf0\x9f\x98",
                b"\xf0\x9f", b"\xed\xa0\x80", b"\xed\x9f\xbf", b"\xe0\x80\x80", b"\xe0\xa0\x80", b"\xc0\x80", b"\xc1\xbf", b"\xf4\x8f\xbf\xbf",
                b"\xf4\x90\x80\x80", b"\xf5", b"\xff", b"\x80", b"\xbf", b"\\", b"\xf0\x90\x80\x80", b"\xf0\x8f\xbf\xbf", b"\xef\xbf\xbd", b"\n"]
        if rng.chance(0.3):
            return {"k": "raw", "data": hx(rng.bytes(rng.randint(0, 24)))}
        return {"k": "raw", "data": hx(b"".join(rng.choice(toks) for _ in range(rng.randint(0, 8))))}
    if r < 0.85:
        kind = rng.below(4)
        n = rng.choice([rng.below(70), rng.below(300), rng.below(65536), 0, 255, 256, 32768, 32769, 65535])
        return {"k": "enum", "kind": kind, "n": n}
    return {"k": "dp", "ct": rng.choice(CTYPES + ["application/dns-message", "Application/DNS-Message", "application/dns-message; x=1"]),
            "port": rng.choice([None, 53, 5353, 54, 443, 0, 65535]), "noaddr": rng.chance(0.1)}


def gen(rng, n, tier):
    out = []
    # every entry of the four enum tables (and its neighbours), always
    for kind in range(4):
        for v in list(range(0, 70)) + [99, 100, 249, 250, 251, 252, 253, 254, 255, 256, 257, 260, 32768, 32769, 65280, 65281, 65535]:
            out.append({"k": "enum", "kind": kind, "n": v})
    for vn in VIEW_NAMES:   # every registered view, explicitly, on a body it cannot parse and on one with controls
        for body, ct in ((b"\x1b\xff{<", None), (b"a\x1b\xc2\x9b", "text/plain")):
            out.append({"k": "pm", "msg": {"t": "http-resp", "body": hx(body), "ct": ct, "ce": None, "port": None, "path": "/"}, "view": vn})
    for _ in range(n):
        r = rng.random()
        out.append(_gen_pm(rng) if r < 0.40 else _gen_syn(rng) if r < 0.55 else _gen_dns(rng) if r < 0.80 else _gen_unit(rng))
    return out


# ---------------------------------------------------------------- implementation
_S = {}


def setup_impl():
    import os
    os.environ["RUST_BACKTRACE"] = "0"      # native backtraces in the messages of the Rust views are not reproducible
    from mitmproxy import contentviews, dns, http, tcp, udp, websocket
    from mitmproxy.contentviews import _view_dns, _utils
    from mitmproxy.contentviews._api import Contentview, Metadata
    from mitmproxy.net.dns import classes, domain_names, https_records, op_codes, response_codes, types
    from mitmproxy.test import taddons, tflow, tutils
    from mitmproxy.utils import strutils
    from wsproto.frame_protocol import Opcode
    import ipaddress
    ctx = taddons.context()
    ctx.__enter__()
    _S.update(cv=contentviews, dns=dns, http=http, tcp=tcp, udp=udp, ws=websocket, vdns=_view_dns, utils=_utils, Contentview=Contentview,
              Metadata=Metadata, enums=[op_codes, response_codes, types, classes], names=domain_names, https=https_records, tflow=tflow,
              tutils=tutils, strutils=strutils, Opcode=Opcode, ip=ipaddress, ctx=ctx)
    _S["c1"] = strutils.escape_control_characters("\x9b") == "."
    f = tflow.tflow(resp=True)
    _S["http_counts"] = bool(_view_dns._is_dns_tcp(Metadata(http_message=f.response)))
    for v in contentviews.registry._by_name.values():      # warm up lazy initialisation
        for body in (b"{}", b"\x08\x01"):
            try:
                v.prettify(body, Metadata())
            except Exception:
                pass


HANG_S = 2.0


class _Hang(BaseException):
    pass


def _on_alarm(sig, frame):
    raise _Hang()


_HUNG = set()      # views already seen not to return (confirmed with the long limit): later calls use the short limit only


def _timed(fn, *a, _who=None, **kw):
    """run fn; raise _Hang if it does not return within HANG_S, nor within 4 x HANG_S when tried again (a loaded machine
    must not look like a hang).  run_impl runs in the main thread."""
    old = signal.signal(signal.SIGALRM, _on_alarm)
    try:
        for limit in ((HANG_S,) if _who in _HUNG else (HANG_S, 4 * HANG_S)):
            signal.setitimer(signal.ITIMER_REAL, limit)
            try:
                return fn(*a, **kw)
            except _Hang:
                if limit != HANG_S or _who in _HUNG:
                    if _who is not None:
                        _HUNG.add(_who)
                    raise
            finally:
                signal.setitimer(signal.ITIMER_REAL, 0)
    finally:
        signal.signal(signal.SIGALRM, old)


def _exc_text(e):
    """what prettify_message shows for a failing view: traceback cut below the caller of view.prettify"""
    tb = e.__traceback__
    while tb is not None and tb.tb_frame.f_code.co_filename == __file__ \
            and tb.tb_frame.f_code.co_name in ("_call_prettify", "_timed"):       # the caller-side frames of this harness
        tb = tb.tb_next
    return "".join(traceback.format_exception(type(e), value=e, tb=tb))


def _call_prettify(view, data, meta):
    try:
        r = _timed(view.prettify, data, meta, _who=view.name)
    except Exception as e:
        return ["err", _exc_text(e)]
    except _Hang:
        return ["hang", "no result after %.0f s" % HANG_S]
    except BaseException as e:  # e.g. a Rust panic: not caught by prettify_message
        return ["base", type(e).__name__]
    if not isinstance(r, str):
        return ["nonstr", type(r).__name__]
    return ["ok", r]


def _call_prio(view, data, meta):
    try:
        p = view.render_priority(data, meta)
    except Exception:
        return None
    if isinstance(p, bool):
        return float(p)
    if not isinstance(p, (int, float)) or p != p:
        return None
    return p


def _message(msg):
    S = _S
    body = None if msg["body"] is None else unhx(msg["body"])
    t = msg["t"]
    if t == "dns" and body is not None:
        try:
            m = S["dns"].DNSMessage.unpack(body)
            m.packed
            f = S["tflow"].tdnsflow()
            if msg["port"]:
                f.server_conn.address = ("10.0.0.1", msg["port"])
            return m, f
        except Exception:
            t = "udp"
    if t in ("http-resp", "http-req"):
        f = S["tflow"].tflow(resp=True)
        f.request.path = msg["path"]
        m = f.response if t == "http-resp" else f.request
        if msg["ct"] is not None:
            m.headers["content-type"] = msg["ct"]
        if body is None:
            m.raw_content = None
        else:
            ce = msg["ce"]
            if ce in ("gzip", "deflate", "identity"):
                m.headers["content-encoding"] = ce
                m.raw_content = gzip.compress(body, mtime=0) if ce == "gzip" else zlib.compress(body) if ce == "deflate" else body
            elif ce == "gzip-broken":
                m.headers["content-encoding"] = "gzip"
                m.raw_content = body
            elif ce == "bogus":
                m.headers["content-encoding"] = "bogus"
                m.raw_content = body
            else:
                m.raw_content = body
    elif t == "tcp":
        f = S["tflow"].ttcpflow()
        m = S["tcp"].TCPMessage(True, body, 946681204.2)
    elif t in ("udp", "dns"):
        f = S["tflow"].tudpflow()
        m = S["udp"].UDPMessage(True, body, 946681204.2)
    else:
        f = S["tflow"].twebsocketflow()
        f.request.path = msg["path"]
        m = S["ws"].WebSocketMessage(S["Opcode"].TEXT if t == "ws-text" else S["Opcode"].BINARY, True, body or b"", 946681204.2)
        if body is None:
            m.content = None
    if msg["port"]:
        f.server_conn.address = ("10.0.0.1", msg["port"])
    return m, f


def _rank(prios):
    vals = sorted({p for p in prios if p is not None})
    return [None if p is None else vals.index(p) for p in prios]


def _run_pm(registry, message, flow, view_name, synthetic):
    S = _S
    cv = S["cv"]
    data, enc = S["utils"].get_data(message)
    obs = {"c1": S["c1"], "data": None if data is None else hx(data), "enc": enc}
    rows, anomalies, hung = [], [], False
    if data is not None:
        meta = S["utils"].make_metadata(message, flow)
        views = list(registry._by_name.values())
        prios = [_call_prio(v, data, meta) for v in views]
        top = max((p for p in prios if p is not None), default=None)
        want = {i for i, p in enumerate(prios) if p is not None and p == top}
        if view_name != "auto":
            want |= {i for i, v in enumerate(views) if v.name.lower() == view_name.lower().lower()}
        crc = zlib.crc32(data)
        if views and crc % 4 == 0:
            want.add((crc >> 8) % len(views))      # now and then one view that is not a candidate
        for i, (v, rk) in enumerate(zip(views, _rank(prios))):
            slow = v.name in ("MsgPack", "WBXML") and i not in want and crc % 8
            pt = None if slow else _call_prettify(v, data, meta)
            if pt and pt[0] in ("base", "nonstr", "hang"):
                if pt[0] == "hang" and i in want:
                    hung = True
                anomalies.append([v.name, pt[0], pt[1]])
                pt = None
            rows.append([v.name, v.syntax_highlight, rk, pt if (i in want or synthetic) else None])
    obs["rows"] = rows
    obs["anomalies"] = anomalies
    if hung:        # a candidate view does not return: prettify_message would not either
        obs["res"], obs["exc"] = None, "Hang"
        return obs
    try:
        r = _timed(cv.prettify_message, message, flow, view_name, registry=registry)
        obs["res"] = [r.text, r.syntax_highlight, r.view_name, r.description]
        obs["res_is_str"] = isinstance(r.text, str)
    except _Hang:
        obs["res"], obs["exc"] = None, "Hang"
    except BaseException as e:
        obs["res"] = None
        obs["exc"] = type(e).__name__
    return obs


def _syn_view(spec):
    S = _S

    class Custom(Exception):
        pass
    excs = {"ValueError": ValueError, "KeyError": KeyError, "AssertionError": AssertionError, "RecursionError": RecursionError, "Custom": Custom}

    def fail():
        p = spec["pret"]
        if p["exc"] == "UnicodeDecodeError":
            raise UnicodeDecodeError("utf-8", b"\xff" + p["msg"].encode("utf-8", "surrogatepass"), 0, 1, p["msg"])
        if p.get("chain"):
            try:
                raise KeyError("inner \x1b")
            except KeyError as inner:
                raise excs[p["exc"]](p["msg"]) from inner
        raise excs[p["exc"]](p["msg"])

    class V(S["Contentview"]):
        @property
        def name(self):
            return spec["name"]

        @property
        def syntax_highlight(self):
            return spec["syn"]

        def prettify(self, data, metadata):
            p = spec["pret"]
            if p["t"] == "ok":
                return p["text"]
            if p["deep"]:
                return fail()
            raise excs.get(p["exc"], ValueError)(p["msg"])

        def render_priority(self, data, metadata):
            p = spec["prio"]
            if p["t"] == "num":
                return p["v"]
            if p["t"] == "raise":
                raise RuntimeError("prio \x1b")
            return "high" if p["t"] == "str" else None
    return V()


def _mk_dns(m):
    d = _S["dns"]
    rr = lambda r: d.ResourceRecord(r["name"], r["type"], r["class"], r["ttl"], unhx(r["data"]))
    return d.DNSMessage(id=m["id"], query=m["query"], op_code=m["op_code"], authoritative_answer=m["aa"], truncation=m["tc"],
                        recursion_desired=m["rd"], recursion_available=m["ra"], reserved=m["reserved"], response_code=m["rcode"],
                        questions=[d.Question(q["name"], q["type"], q["class"]) for q in m["q"]],
                        answers=[rr(r) for r in m["an"]], authorities=[rr(r) for r in m["au"]], additionals=[rr(r) for r in m["ad"]],
                        timestamp=946681204.2)


def _msg_fields(m):
    rr = lambda r: [r.name, r.type, r.class_, r.ttl, hx(r.data)]
    return {"hdr": [m.id, m.query, m.op_code, m.authoritative_answer, m.truncation, m.recursion_desired, m.recursion_available, m.response_code],
            "reserved": m.reserved, "q": [[q.name, q.type, q.class_] for q in m.questions],
            "rr": [[rr(r) for r in sec] for sec in (m.answers, m.authorities, m.additionals)]}


def _jsonable(j):
    """to_json dict -> JSON-serialisable canonical form; None if it has a shape the model does not know"""
    try:
        def dj(d):
            if isinstance(d, str):
                return ["s", hx(d.encode("utf-8"))]
            if isinstance(d, dict):
                return ["o", hx(repr(list(d.items())).encode("utf-8"))]
            raise TypeError
        def s(x):
            if not isinstance(x, str):
                raise TypeError
            return hx(x.encode("utf-8"))
        def i(x):
            if isinstance(x, bool) or not isinstance(x, int) or x < 0:
                raise TypeError
            return x
        def b(x):
            if not isinstance(x, bool):
                raise TypeError
            return x
        rrs = lambda l: [[s(r["name"]), s(r["type"]), s(r["class"]), i(r["ttl"]), dj(r["data"])] for r in l]
        return {"id": i(j["id"]), "query": b(j["query"]), "op": s(j["op_code"]), "aa": b(j["authoritative_answer"]), "tc": b(j["truncation"]),
                "rd": b(j["recursion_desired"]), "ra": b(j["recursion_available"]), "rc": s(j["response_code"]),
                "q": [[s(q["name"]), s(q["type"]), s(q["class"])] for q in j["questions"]],
                "an": rrs(j["answers"]), "au": rrs(j["authorities"]), "ad": rrs(j["additionals"]), "size": i(j["size"])}
    except Exception:
        return None


def _lib_enc(t, data):
    S = _S
    try:
        if t == 1:
            return ["s", hx(str(S["ip"].IPv4Address(data)).encode())]
        if t == 28:
            return ["s", hx(str(S["ip"].IPv6Address(data)).encode())]
        d = S["https"].unpack(data).to_json()
        return ["o", hx(repr(list(d.items())).encode("utf-8"))]
    except Exception:
        return None


def _lib_dec(t, d):
    S = _S
    try:
        if t == 1:
            return hx(S["ip"].IPv4Address(d).packed)
        if t == 28:
            return hx(S["ip"].IPv6Address(d).packed)
        return hx(S["https"].pack(S["https"].HTTPSRecord.from_json(dict(d))))
    except Exception:
        return None


def _run_dns(case):
    S = _S
    d = S["dns"]
    obs = {"http_counts": S["http_counts"], "c1": S["c1"]}
    if "raw" in case:
        wire = unhx(case["raw"])
    else:
        try:
            wire = _mk_dns(case["m"]).packed
        except Exception as e:
            obs["unbuildable"] = type(e).__name__
            return obs
    tr = case["tr"]
    try:
        orig = d.DNSMessage.unpack(wire)
    except Exception:
        orig = None
    if tr == "dnsmsg" and orig is None:
        tr = "udp"
    if tr == "dnsmsg":
        try:
            orig.packed
        except Exception:
            tr = "udp"
    obs["tr"] = tr
    if tr == "udp":
        f = S["tflow"].tudpflow(); msg = S["udp"].UDPMessage(True, wire, 946681204.2); framed = wire
    elif tr == "tcp":
        framed = struct.pack("!H", len(wire) & 0xffff) + wire
        f = S["tflow"].ttcpflow(); msg = S["tcp"].TCPMessage(True, framed, 946681204.2)
    elif tr == "http":
        f = S["tflow"].tflow(resp=True); msg = f.response
        msg.headers["content-type"] = "application/dns-message"; msg.raw_content = wire; framed = wire
    else:
        f = S["tflow"].tdnsflow(); msg = orig; framed = orig.packed
        try:
            orig = d.DNSMessage.unpack(framed)
        except Exception:
            pass
    obs["framed"] = hx(framed)
    obs["has_tcp"], obs["has_http"] = tr == "tcp", tr == "http"
    obs["orig"] = None if orig is None else _msg_fields(orig)
    if orig is not None:
        try:
            obs["orig_repack"] = _msg_fields(d.DNSMessage.unpack(orig.packed)) == obs["orig"]
        except Exception:
            obs["orig_repack"] = None     # the decoded message itself cannot be packed
    meta = S["utils"].make_metadata(msg, f)
    tcp = bool(S["vdns"]._is_dns_tcp(meta))
    obs["tcp"] = tcp
    # what the view sees
    seen = framed[2:] if tcp else framed
    try:
        m_seen = d.DNSMessage.unpack(seen)
        j = m_seen.to_json()
        obs["json"] = _jsonable(j)
        obs["json_shape_ok"] = obs["json"] is not None
        et = []
        for sec in (m_seen.answers, m_seen.authorities, m_seen.additionals):
            for r in sec:
                if r.type in (1, 28, 65):
                    et.append([r.type, hx(r.data), _lib_enc(r.type, r.data)])
        obs["et"] = et
        jj = dict(j); jj.pop("status_code", None); jj.pop("timestamp", None)
        ytext = S["utils"].yaml_dumps(jj)
        obs["yaml_rt"] = S["utils"].yaml_loads(ytext) == jj
        obs["yaml_clean"] = S["strutils"].escape_control_characters(ytext) == ytext and not any(0x80 <= ord(c) <= 0x9f for c in ytext)
    except Exception:
        obs["json"] = None
    # the real pipeline: prettify_message -> reencode_message
    try:
        r = S["cv"].prettify_message(msg, f, "dns")
        obs["pm"] = [r.syntax_highlight, r.view_name]
        text = r.text
        try:
            auto = S["cv"].prettify_message(msg, f, "auto")
            obs["auto"] = [auto.view_name, auto.description]
        except Exception as e:
            obs["auto"] = ["!", type(e).__name__]
    except Exception as e:
        obs["pm"] = ["!", type(e).__name__]
        text = None
    obs["loaded"] = None
    obs["dt"] = []
    if text is not None and obs["pm"][0] != "error":
        try:
            loaded = S["utils"].yaml_loads(text)
            obs["loaded"] = _jsonable(loaded)
            dt = []
            if obs["loaded"] is not None:
                for sec in ("answers", "authorities", "additionals"):
                    for r in loaded[sec]:
                        try:
                            t = S["enums"][2].from_str(r["type"])
                        except Exception:
                            continue
                        if t in (1, 28, 65):
                            x = r["data"]
                            dt.append([t, _jsonable_d(x), _lib_dec(t, x)])
            obs["dt"] = dt
        except Exception:
            pass
        try:
            out = S["cv"].reencode_message(text, msg, f, "dns")
            obs["out"] = hx(out)
            try:
                back = d.DNSMessage.unpack(out[2:] if tcp else out)
                obs["back"] = _msg_fields(back)
            except Exception as e:
                obs["back"] = None
        except Exception as e:
            obs["out"] = None
            obs["out_exc"] = type(e).__name__
    return obs


def _jsonable_d(x):
    if isinstance(x, str):
        return ["s", hx(x.encode("utf-8"))]
    return ["o", hx(repr(list(x.items())).encode("utf-8"))]


def run_impl(case):
    S = _S
    k = case["k"]
    if k == "pm":
        message, flow = _message(case["msg"])
        return _run_pm(S["cv"].registry, message, flow, case["view"], False)
    if k == "syn":
        reg = S["cv"].ContentviewRegistry()
        for spec in case["views"]:
            reg.register(_syn_view(spec))
        message, flow = _message({"t": "http-resp", "body": case["body"], "ct": None, "ce": case["ce"], "port": None, "path": "/"})
        return _run_pm(reg, message, flow, case["view"], True)
    if k in ("reg", "get"):
        reg = S["cv"].ContentviewRegistry()
        for name, tag in case["ops"]:
            reg.register(_syn_view({"name": name, "syn": tag, "prio": {"t": "none"}, "pret": {"t": "ok", "text": ""}}))
        if k == "reg":
            return {"order": [[v.name, v.syntax_highlight] for v in reg._by_name.values()], "keys_ok": list(reg._by_name) == [v.name.lower() for v in reg._by_name.values()]}
        try:
            return {"found": reg[case["item"]].syntax_highlight}
        except KeyError:
            return {"found": None}
    if k == "raw":
        return {"text": S["cv"].raw.prettify(unhx(case["data"]), S["Metadata"]())}
    if k == "enum":
        mod = S["enums"][case["kind"]]
        s = mod.to_str(case["n"])
        try:
            back = mod.from_str(s)
        except ValueError:
            back = None
        return {"s": s, "back": back}
    if k == "dp":
        f = S["tflow"].tflow(resp=True)
        if case["noaddr"]:
            f.server_conn.address = None
        elif case["port"] is not None:
            f.server_conn.address = ("10.0.0.1", case["port"])
        p = S["vdns"].dns.render_priority(b"", S["Metadata"](flow=f, content_type=case["ct"]))
        return {"p": p, "port": None if case["noaddr"] else f.server_conn.address[1]}
    return _run_dns(case)


# ---------------------------------------------------------------- Coq terms
def ctext(s):
    if not s:
        return "(@nil N)"
    return "([" + ";".join(str(ord(c)) for c in s) + "])%N"


def _cpret(p):
    if p is None:
        return "U"
    return f"({'OK' if p[0] == 'ok' else 'ER'} {ctext(p[1])})"


def _cdj(d):
    return f"({'DStr' if d[0] == 's' else 'DOpaque'} {cbytes(unhx(d[1]))})"


def _cmj(j):
    if j is None:
        return "(@None mjson)"
    q = lambda x: f"(mkQJ {cbytes(unhx(x[0]))} {cbytes(unhx(x[1]))} {cbytes(unhx(x[2]))})"
    r = lambda x: f"(mkRJ {cbytes(unhx(x[0]))} {cbytes(unhx(x[1]))} {cbytes(unhx(x[2]))} {cN(x[3])} {_cdj(x[4])})"
    return (f"(Some (mkMJ {cN(j['id'])} {cbool(j['query'])} {cbytes(unhx(j['op']))} {cbool(j['aa'])} {cbool(j['tc'])} {cbool(j['rd'])} "
            f"{cbool(j['ra'])} {cbytes(unhx(j['rc']))} {clist(map(q, j['q']), 'qjson')} {clist(map(r, j['an']), 'rjson')} "
            f"{clist(map(r, j['au']), 'rjson')} {clist(map(r, j['ad']), 'rjson')} {cN(j['size'])}))")


def _has_ace(obs):
    o = obs.get("orig")
    names = []
    if o:
        names = [q[0] for q in o["q"]] + [r[0] for sec in o["rr"] for r in sec]
    return any("xn--" in n.lower() for n in names) or b"xn--" in unhx(obs.get("framed", "")).lower()


def coq_case(case, obs):
    k = case["k"]
    if k in ("pm", "syn"):
        if obs["anomalies"] or (obs["res"] is not None and not obs.get("res_is_str", True)):
            return None
        name = case["view"]
        if not name.isascii() or any(not r[0].isascii() for r in obs["rows"]):
            return None
        # long texts that occur more than once (a view's output and the result) are bound once with let
        res = obs["res"]
        longs = [r[3][1] for r in obs["rows"] if r[3] is not None and len(r[3][1]) > 24]
        binds, seen = {}, set()
        for t in longs:
            if t not in binds and (t in seen or (res is not None and res[0].endswith(t))):
                binds[t] = "v%d" % len(binds)
            seen.add(t)

        def tx(t, allow_suffix=False):
            if t in binds:
                return binds[t]
            if allow_suffix:
                for b, bn in binds.items():
                    if t.endswith(b):
                        return f"({ctext(t[:-len(b)])} ++ {bn})"
            return ctext(t)

        def cp(p):
            return "U" if p is None else f"({'OK' if p[0] == 'ok' else 'ER'} {tx(p[1])})"
        rows = clist((f"({ctext(r[0])}, {ctext(r[1])}, {copt(r[2], cZ, 'Z')}, {cp(r[3])})" for r in obs["rows"]), "vrow")
        cres = "(@None res_obs)" if res is None else \
            f"(Some ({tx(res[0], True)}, {ctext(res[1])}, {copt(res[2], ctext, 'text')}, {ctext(res[3])}))"
        data = copt(obs["data"], lambda h: cbytes(unhx(h)), "bytes")
        lets = "".join(f"let {bn} : text := {ctext(t)} in " for t, bn in binds.items())
        return f"({lets}PM {cbool(obs['c1'])} {rows} {data} {ctext(obs['enc'])} {ctext(name)} {cres})"
    if k in ("reg", "get"):
        ops = clist((f"({ctext(n)}, {ctext(t)})" for n, t in case["ops"]), "(text * text)")
        if k == "reg":
            return f"REG {ops} {clist((f'({ctext(n)}, {ctext(t)})' for n, t in obs['order']), '(text * text)')}"
        return f"GET {ops} {ctext(case['item'])} {copt(obs['found'], ctext, 'text')}"
    if k == "raw":
        return f"RAW {cbytes(unhx(case['data']))} {ctext(obs['text'])}"
    if k == "enum":
        return f"ENUM {cN(case['kind'])} {cN(case['n'])} {cbytes(obs['s'].encode())} {copt(obs['back'], cN, 'N')}"
    if k == "dp":
        ct = copt(case["ct"], lambda s: cbytes(s.encode("utf-8")), "bytes")
        return f"DP {ct} {copt(obs['port'], cN, 'N')} {cZ(int(obs['p']))}"
    if "framed" not in obs or _has_ace(obs) or obs.get("json_shape_ok") is False:
        return None
    if any(ord(c) > 127 for n in ([q[0] for q in (obs["orig"] or {"q": []})["q"]]) for c in n):
        return None
    et = clist((f"({cN(t)}, {cbytes(unhx(d))}, {copt(e, _cdj, 'djson')})" for t, d, e in obs.get("et", [])), "(N * bytes * option djson)")
    dt = clist((f"({cN(t)}, {_cdj(j)}, {copt(b, lambda h: cbytes(unhx(h)), 'bytes')})" for t, j, b in obs["dt"]), "(N * djson * option bytes)")
    loaded = obs["loaded"] if "out" in obs else None
    out = copt(obs.get("out"), lambda h: cbytes(unhx(h)), "bytes")
    return (f"DJ {cbool(obs['http_counts'])} {cbool(obs['has_tcp'])} {cbool(obs['has_http'])} {cbytes(unhx(obs['framed']))} {et} {dt} "
            f"{_cmj(obs.get('json'))} {_cmj(loaded)} {out}")


# ---------------------------------------------------------------- oracle
def _bad_chars(text):
    c0 = [c for c in text if (ord(c) < 32 and c not in "\t\n\r") or ord(c) == 127]
    c1 = [c for c in text if 0x80 <= ord(c) <= 0x9f]
    return c0, c1


def oracle(case, obs):
    """The property on the implementation's observations."""
    k = case["k"]
    v = []
    if k in ("pm", "syn"):
        for name, kind, what in obs["anomalies"]:
            if k == "pm" and kind == "hang" and name == "WBXML":
                v.append({"key": "wbxml-truncated-input-hangs", "what": f"WBXML view does not return on body {obs['data']} ({what})"})
            elif k == "pm":
                v.append({"key": "view-" + kind, "what": f"view {name!r} prettify gave {kind} {what} on body {obs['data']}"})
        if obs["res"] is None and obs.get("exc") == "Hang":
            if not v:
                v.append({"key": "prettify-hangs", "what": f"prettify_message does not return (view {case['view']!r}, body {obs['data']})"})
            return v
        if obs["res"] is None:
            # a registry without any working render_priority (only possible with synthetic registries) is the documented assert
            syn_unselectable = k == "syn" and obs["exc"] == "AssertionError" and all(r[2] is None for r in obs["rows"])
            if not syn_unselectable:
                v.append({"key": "prettify-raises", "what": f"prettify_message raised {obs['exc']} (view {case['view']!r}, body {obs['data']})"})
            return v
        if not obs.get("res_is_str", True):
            v.append({"key": "text-not-str", "what": "ContentviewResult.text is not a str"})
            return v
        c0, c1 = _bad_chars(obs["res"][0])
        if c0:
            v.append({"key": "control-char", "what": f"text of view {obs['res'][2]!r} contains U+{ord(c0[0]):04X} (body {obs['data']})"})
        if c1:
            v.append({"key": "c1-control-passthrough",
                      "what": f"text of view {obs['res'][2]!r} contains C1 control U+{ord(c1[0]):04X} (body {obs['data']}, view {case['view']!r})"})
        return v
    if k == "raw":
        # independent reference: well-formed UTF-8 stretches decode as such, every other byte becomes \xNN
        data, exp, i = unhx(case["data"]), [], 0
        while i < len(data):
            for n in (1, 2, 3, 4):
                try:
                    ch = data[i:i + n].decode("utf-8")
                    if len(ch) == 1 and n == len(ch.encode("utf-8")) and i + n <= len(data):
                        exp.append(ch); i += n
                        break
                except UnicodeDecodeError:
                    pass
            else:
                exp.append("\\x%02x" % data[i]); i += 1
        if "".join(exp) != obs["text"]:
            v.append({"key": "raw-decode", "what": f"raw view of {case['data']} is {obs['text']!r}"})
        return v
    if k == "enum":
        if obs["back"] != case["n"]:
            v.append({"key": "enum-roundtrip", "what": f"from_str(to_str({case['n']})) of enum {case['kind']} = {obs['back']} ({obs['s']!r})"})
        return v
    if k != "dns" or "framed" not in obs:
        return v
    o = obs["orig"]
    if o is None:
        return v                       # not a DNS message
    v = _dns_oracle(obs, o)
    if obs["tr"] == "http" and obs["http_counts"] and v:
        # everything that goes wrong with a DoH body follows from the two bytes cut off its front
        return [{"key": "doh-length-prefix-cut",
                 "what": "a well-formed DNS message as application/dns-message HTTP body is rendered without its first two bytes "
                         f"({v[0]['key']}): {obs['framed']}"}]
    seen, out = set(), []
    for x in v:
        if x["key"] not in seen:
            seen.add(x["key"]); out.append(x)
    return out


def _yaml_family(texts):
    """which known YAML round-trip weakness (if any) the given str values can trigger"""
    if any("\x85" in t for t in texts):
        return "dns-yaml-nel-becomes-space"
    if any(len(t) > 40 and "  " in t for t in texts):
        return "dns-yaml-fold-eats-space"
    return None


def _https_parts(data):
    """(target name wire bytes, [param keys]) of HTTPS rdata, or None"""
    try:
        i, n = 2, len(data)
        while True:
            l = data[i]
            i += 1
            if l == 0:
                break
            if l >= 64:
                return None
            i += l
        name, keys = data[2:i], []
        while i < n:
            k, ln = struct.unpack("!HH", data[i:i + 4])
            keys.append(k)
            i += 4 + ln
        return (name, keys) if i == n else None
    except Exception:
        return None


def _rr_texts(r):
    out = [r[0]]
    d = unhx(r[4])
    if r[1] == 16 and _is_utf8(d):
        out.append(d.decode("utf-8"))
    return out


def _dns_oracle(obs, o):
    S = _S
    v = []
    tr = obs["tr"]
    all_rr = [r for sec in o["rr"] for r in sec]
    texts = [q[0] for q in o["q"]] + [t for r in all_rr for t in _rr_texts(r)]
    for r in all_rr:     # escaped parameter values of HTTPS records are text too
        if r[1] == 65:
            texts.append(S["strutils"].bytes_to_escaped_str(unhx(r[4])))
    if obs.get("yaml_rt") is False or obs.get("yaml_clean") is False:
        v.append({"key": _yaml_family(texts) or "yaml-contract",
                  "what": f"yaml_loads(yaml_dumps(to_json)) differs or the dump has control characters, message {obs['framed']}"})
    if obs["pm"][0] == "!":
        return v + [{"key": "prettify-raises", "what": f"prettify_message(dns) raised {obs['pm'][1]} on {obs['framed']}"}]
    if obs["pm"][0] == "error":
        return v + [{"key": "dns-render-fails", "what": f"DNS view fails on a message that DNSMessage.unpack accepts ({tr}): {obs['framed']}"}]
    if obs.get("out") is None:
        if obs.get("orig_repack") is None:
            return v + [{"key": "dns-name-not-repackable",
                         "what": f"reencode raises {obs.get('out_exc')}: the decoded message itself cannot be packed (C25 decoded-message-not-packable): {obs['framed']}"}]
        for r in all_rr:
            if r[1] in (2, 5, 12):
                try:
                    n = S["names"].unpack(unhx(r[4]))
                except Exception:
                    continue
                try:
                    S["names"].pack(n)
                except Exception:
                    return v + [{"key": "dns-name-rdata-not-repackable",
                                 "what": f"reencode raises {obs.get('out_exc')}: record data {r[4]} of {r[:2]} decodes to the name {n!r} which cannot be packed: {obs['framed']}"}]
            if r[1] == 65:
                hp = _https_parts(unhx(r[4]))
                if hp:
                    try:
                        S["names"].pack(S["names"].unpack(hp[0]))
                    except Exception:
                        return v + [{"key": "dns-https-target-not-repackable",
                                     "what": f"reencode raises {obs.get('out_exc')}: HTTPS target name {hp[0].hex()} cannot be packed again: {obs['framed']}"}]
        return v + [{"key": "dns-reencode-raises", "what": f"reencode raises {obs.get('out_exc')} on the unedited rendering of {obs['framed']}"}]
    b = obs.get("back")
    if b is None:
        return v + [{"key": "dns-reencode-undecodable", "what": f"re-encoded bytes {obs['out']} do not decode (from {obs['framed']})"}]
    wire_ok = bool(obs.get("orig_repack"))
    if b["hdr"] != o["hdr"]:
        v.append({"key": "dns-header-changed", "what": f"header {o['hdr']} -> {b['hdr']} for {obs['framed']}"})
    if b["reserved"] != o["reserved"]:
        v.append({"key": "dns-reserved-bits-dropped", "what": f"reserved (Z/AD/CD) bits {o['reserved']} -> {b['reserved']} for {obs['framed']}"})
    if b["q"] != o["q"]:
        v.append({"key": "dns-questions-changed" if wire_ok else "dns-wire-roundtrip", "what": f"questions {o['q']} -> {b['q']} for {obs['framed']}"})
    for so, sb in zip(o["rr"], b["rr"]):
        if len(so) != len(sb):
            v.append({"key": "dns-record-count-changed", "what": f"{len(so)} -> {len(sb)} records for {obs['framed']}"})
            continue
        for ro, rb in zip(so, sb):
            if ro == rb:
                continue
            t, data = ro[1], unhx(ro[4])
            key = "dns-record-changed"
            if ro[:4] != rb[:4]:
                key = "dns-record-header-changed"
            elif t == 16 and not _is_utf8(data):
                key = "dns-txt-not-utf8-garbled"
            elif t == 16:
                key = _yaml_family([data.decode("utf-8")]) or key
            elif t in (2, 5, 12):
                try:
                    n = S["names"].unpack(data)
                    if S["names"].pack(n) != data:
                        key = "dns-name-rdata-noncanonical"
                except Exception:
                    key = "dns-name-rdata-garbled"
            elif t == 65:
                hp = _https_parts(data)
                key = "dns-https-record-changed"
                if hp:
                    try:
                        canon = S["names"].pack(S["names"].unpack(hp[0])) == hp[0]
                    except Exception:
                        canon = False
                    if len(set(hp[1])) != len(hp[1]):
                        key = "dns-https-duplicate-param-dropped"
                    elif not canon:
                        key = "dns-https-target-noncanonical"
                    else:
                        key = _yaml_family([S["strutils"].bytes_to_escaped_str(data)]) or key
            if key in ("dns-record-changed", "dns-record-header-changed") and not wire_ok:
                key = "dns-wire-roundtrip"
            v.append({"key": key, "what": f"record {ro} -> {rb} for {obs['framed']}"})
    return v


def _is_utf8(b):
    try:
        b.decode("utf-8")
        return True
    except UnicodeDecodeError:
        return False


def nontrivial(case, obs):
    k = case["k"]
    if k in ("pm", "syn"):
        return obs["res"] is None or obs["res"][2] != "Raw" or obs["res"][3] != "" or any(ord(c) == 46 for c in obs["res"][0])
    if k == "dns":
        return obs.get("orig") is not None
    if k == "raw":
        return "\\x" in obs["text"] or any(ord(c) > 127 for c in obs["text"])
    if k == "enum":
        return True
    return True


def classify(case, obs):
    k = case["k"]
    tags = [k]
    if k in ("pm", "syn"):
        r = obs["res"]
        tags.append("view=" + ("auto" if case["view"] == "auto" else "explicit"))
        if k == "pm":
            tags.append("msg=" + case["msg"]["t"])
        if r is None:
            tags.append("out=raises")
        elif r[1] == "error" and r[2] is None:
            tags.append("out=missing")
        elif r[0].startswith("Couldn't parse as"):
            tags.append("out=error-display")
        elif "[failed to parse as" in r[3]:
            tags.append("out=fallback-raw")
        else:
            tags.append("out=ok:" + str(r[2]))
        if r is not None and obs["data"] is not None:
            tags.append("filtered" if "." in r[0] and any(b < 32 or b == 127 for b in unhx(obs["data"])) else "clean")
        if obs.get("enc"):
            tags.append("enc")
    elif k == "dns" and "framed" in obs:
        tags.append("tr=" + obs["tr"])
        tags.append("decodes" if obs["orig"] is not None else "not-dns")
        if obs.get("out") is not None and obs.get("back") is not None:
            same = obs["back"] == obs["orig"]
            tags.append("rt=same" if same else "rt=differs")
        elif obs["orig"] is not None:
            tags.append("rt=none:" + str(obs["pm"][0]))
    elif k == "dns":
        tags.append("unbuildable")
    elif k == "enum":
        tags.append("table" if not obs["s"].endswith(")") else "fallback")
    return tags
