"""C43 -- The flow view always shows exactly the matching flows in order (mitmproxy/addons/view.py)."""
from lib.coqterm import cbool, clist, copt

ID = "C43"
QUICK_N = 1500
THOROUGH_N = 12000
SHARD = 125
COQ_PRELUDE = "From MV Require Import Model.View.\nOpen Scope N_scope.\n"
RULE = ("a case is a history of 1..30 calls on one fresh View over a pool of 2..6 flow objects of all four types "
        "(HTTP/TCP/UDP/DNS): 70% random histories (add / mutate+update with 0-2 changed attributes among the four sort "
        "keys, method, marked / remove / set_filter over an 8-entry filter dictionary / set_order / set_reversed / "
        "toggle_marked / clear / clear_not_marked / focus_follow / multi-flow add, update, remove / silent attribute "
        "change without update), 30% adversarial "
        "histories assembled from fragments aimed at the cached-key and marked-only logic (toggle then add, order "
        "round trips around a key change, filter out - change key - filter in, duplicate adds, removing and updating "
        "unknown flows, reversal around removals).  After every call the visible ids, focus, settings keys, store and "
        "signal log are compared.  Non-trivial = at least two flows visible at some point and at least three calls "
        "changed the view; distinct by canonical JSON.")
TRUSTED = ["Coq 8.16.1 kernel (coqc), vm_compute for case evaluation",
           "harness/props/C43.py: generator, flow builder, rank encoding of sort keys, comparison glue (Corr/C43.v)",
           "sortedcontainers.SortedKeyList contract: add inserts at bisect_right of the key computed at insertion; "
           "__contains__/index/remove locate by key then equality and do not call the key function on an empty list; "
           "update() of an empty list is a stable sort; modelled by linear scans over a (key,id) list and tied by correspondence",
           "flowfilter verdicts and _OrderKey.generate values enter the model as data computed by harness reference "
           "functions (ref_match/ref_key, asserted equal to the real filter verdict at every call)"]
ASSUMPTIONS = ["one Python object per flow id (View never sees two distinct objects with the same id)",
               "theorems: a flow's attributes change only immediately before View.update([flow]) is called for it (hooks) or while it is not stored; silent changes (op mut) are covered by correspondence, and the oracle exempts a flow from membership/order checks until the view is told",
               "flows are not killable side-effect relevant: Flow.kill() in View.remove does not change sort keys or filter verdicts used here"]

METHODS = ["GET", "POST", "PUT", "DELETE"]
DNS_OPS = [(0, "QUERY"), (1, "IQUERY"), (2, "STATUS"), (4, "NOTIFY")]
FILTERS = [None, "~marked", "~m POST", "~http", "~tcp | ~udp", "~dns", "!~marked", "~m GET", "~http | ~dns"]
ORDERS = ["time", "method", "url", "size"]
ORD_COQ = {"time": "OTime", "method": "OMethod", "url": "OUrl", "size": "OSize"}
TYPES = ["http", "http", "http", "tcp", "udp", "dns"]


# ---------------------------------------------------------------- reference semantics of the inputs
def ref_key(spec, order):
    ty = spec["ty"]
    if order == "time":
        return float(spec["t"])
    if order == "method":
        return {"http": METHODS[spec["m"] % 4], "tcp": "TCP", "udp": "UDP", "dns": DNS_OPS[spec["m"] % 4][1]}[ty]
    if order == "url":
        if ty == "http":
            return "http://address:22/p%d" % spec["u"]
        if ty in ("tcp", "udp"):
            return "h%d:22" % spec["u"]
        return "" if spec["u"] == 0 else "q%d" % spec["u"]
    return spec["z"]


def ref_match(n, spec):
    ty, mk = spec["ty"], spec["mk"]
    meth = METHODS[spec["m"] % 4] if ty == "http" else None
    return [True, mk, meth == "POST", ty == "http", ty in ("tcp", "udp"), ty == "dns", not mk, meth == "GET",
            ty in ("http", "dns")][n]


# ---------------------------------------------------------------- generator
def _spec(rng, ty=None):
    return {"ty": ty or rng.choice(TYPES), "t": rng.randint(0, 4), "m": rng.randint(0, 3), "u": rng.randint(0, 3),
            "z": rng.randint(0, 4), "mk": rng.chance(0.4)}


def _mutated(rng, spec, force_key=None):
    s = dict(spec)
    fields = [force_key] if force_key else []
    for _ in range(rng.weighted([(2, 0), (5, 1), (3, 2)])):
        fields.append(rng.choice(["t", "m", "u", "z", "mk", "mk", "z"]))
    for fld in fields:
        if fld == "mk":
            s["mk"] = not s["mk"]
        else:
            s[fld] = rng.randint(0, 4 if fld in ("t", "z") else 3)
    return s


def _random_ops(rng, cur, n):
    ops = []
    np_ = len(cur)
    for _ in range(n):
        k = rng.weighted([(24, "add"), (26, "upd"), (9, "rm"), (8, "flt"), (8, "ord"), (5, "rev"), (7, "tm"), (2, "clr"),
                          (4, "cnm"), (2, "ff"), (2, "addm"), (2, "updm"), (2, "rmm"), (3, "mut")])
        if k == "add":
            ops.append(["add", rng.below(np_)])
        elif k == "mut":                     # the object changes; the view is told later or never
            i = rng.below(np_)
            cur[i] = _mutated(rng, cur[i])
            ops.append(["mut", i, cur[i]])
        elif k == "upd":
            i = rng.below(np_)
            cur[i] = _mutated(rng, cur[i])
            ops.append(["upd", i, cur[i]])
        elif k == "rm":
            ops.append(["rm", rng.below(np_)])
        elif k == "flt":
            ops.append(["flt", rng.below(len(FILTERS))])
        elif k == "ord":
            ops.append(["ord", rng.choice(ORDERS)])
        elif k == "rev":
            ops.append(["rev", rng.chance(0.6)])
        elif k in ("tm", "clr", "cnm"):
            ops.append([k])
        elif k == "ff":
            ops.append(["ff", rng.chance(0.6)])
        elif k == "addm":
            ops.append(["addm", [rng.below(np_) for _ in range(rng.randint(0, 4))]])
        elif k == "rmm":
            ops.append(["rmm", [rng.below(np_) for _ in range(rng.randint(0, 4))]])
        else:
            idxs = rng.sample(range(np_), rng.randint(0, min(3, np_)))
            pairs = []
            for i in idxs:
                cur[i] = _mutated(rng, cur[i])
                pairs.append([i, cur[i]])
            ops.append(["updm", pairs])
    return ops


def _fragment(rng, cur):
    """short adversarial call sequences"""
    np_ = len(cur)
    i, j = rng.below(np_), rng.below(np_)
    kf = rng.choice(["t", "m", "u", "z"])
    o1 = {"t": "time", "m": "method", "u": "url", "z": "size"}[kf]
    o2 = rng.choice(ORDERS)

    def upd(i, key=None):
        cur[i] = _mutated(rng, cur[i], key)
        return ["upd", i, cur[i]]
    which = rng.below(10)
    if which == 9:      # key changes silently, then the flow is removed / another one is updated
        cur[i] = _mutated(rng, cur[i], kf)
        return [["add", i], ["add", j], ["ord", o1], ["mut", i, cur[i]], upd(j), ["rm", i], ["add", i]]
    if which == 0:      # marked-only mode, then new and updated flows
        return [["add", i], ["tm"], ["add", j], upd(i, "mk"), upd(j)]
    if which == 1:      # cache a second order, change its key under the first, come back
        return [["add", i], ["add", j], ["ord", o1], ["ord", o2], upd(i, kf), ["ord", o1]]
    if which == 2:      # hidden by the filter while its key changes
        return [["add", i], ["add", j], ["ord", o1], ["flt", rng.randint(1, len(FILTERS) - 1)], upd(i, kf), upd(i, "mk"),
                upd(i, "m"), ["flt", 0]]
    if which == 3:      # duplicates and unknown flows
        return [["add", i], ["add", i], ["rm", j], ["upd", j, cur[j]], ["rm", i], ["rm", i], ["add", i]]
    if which == 4:      # reversal around removals and focus
        return [["add", i], ["add", j], ["rev", True], ["add", rng.below(np_)], ["rm", i], ["rev", False], ["rm", j]]
    if which == 5:      # refresh path: key of a visible flow changes
        return [["ord", o1], ["add", i], ["add", j], upd(i, kf), upd(j, kf), upd(i, kf)]
    if which == 6:      # clear_not_marked with focus on an unmarked flow
        return [["add", i], ["add", j], upd(i, "mk"), ["cnm"], ["add", j], ["tm"], ["cnm"], ["tm"]]
    if which == 7:      # focus follow
        return [["ff", True], ["add", i], ["add", j], upd(i, kf), ["flt", rng.below(len(FILTERS))], upd(j, "mk"), ["ff", False]]
    return [["add", i], ["ord", o1], ["rev", True], ["tm"], upd(i, "mk"), ["tm"], ["clr"], ["add", i]]


def gen(rng, n, tier):
    out = []
    for _ in range(n):
        np_ = rng.randint(2, 6)
        pool = [_spec(rng) for _ in range(np_)]
        if rng.chance(0.25):                       # a pool with many equal keys
            for s in pool:
                s["t"] = rng.randint(0, 1)
                s["z"] = rng.randint(0, 1)
        cur = [dict(s) for s in pool]
        if rng.chance(0.70):
            ops = []
            if rng.chance(0.5):                    # populate the view first so that orderings are exercised
                idxs = list(range(np_))
                rng.shuffle(idxs)
                ops = [["add", i] for i in idxs[:rng.randint(2, np_)]]
            ops = (ops + _random_ops(rng, cur, rng.randint(1, 30)))[:30]
        else:
            ops = []
            while len(ops) < rng.randint(5, 24):
                ops += _fragment(rng, cur) if rng.chance(0.7) else _random_ops(rng, cur, rng.randint(1, 3))
            ops = ops[:30]
        out.append({"pool": pool, "ops": ops})
    return out


# ---------------------------------------------------------------- implementation runner
def setup_impl():
    global view, taddons, tflow, flowfilter, tcp, udp, dns
    from mitmproxy.addons import view  # noqa
    from mitmproxy.test import taddons, tflow  # noqa
    from mitmproxy import flowfilter, tcp, udp, dns  # noqa


def _build(spec):
    ty = spec["ty"]
    if ty == "http":
        f = tflow.tflow(resp=True)
    elif ty == "tcp":
        f = tflow.ttcpflow()
    elif ty == "udp":
        f = tflow.tudpflow()
    else:
        f = tflow.tdnsflow(resp=True)
    _apply(f, spec)
    return f


def _apply(f, spec):
    """mutate the flow object so that its observable attributes are those of spec"""
    ty = spec["ty"]
    f.timestamp_created = float(spec["t"])
    f.marked = ":default:" if spec["mk"] else ""
    z = spec["z"]
    if ty == "http":
        f.request.method = METHODS[spec["m"] % 4]
        f.request.path = "/p%d" % spec["u"]
        f.request.content = b"x" * (z // 2)
        f.response.content = b"y" * (z - z // 2)
    elif ty in ("tcp", "udp"):
        f.server_conn.address = ("h%d" % spec["u"], 22)
        cls = tcp.TCPMessage if ty == "tcp" else udp.UDPMessage
        f.messages = [cls(True, b"a" * (z // 2)), cls(False, b"b" * (z - z // 2))] if z else []
    else:
        f.request.op_code = DNS_OPS[spec["m"] % 4][0]
        if spec["u"] == 0:
            f.request.questions = []
        else:
            f.request.questions = [dns.Question("q%d" % spec["u"], 1, 1)]
        if z == 0:
            f.response = None
        else:
            if f.response is None:
                f.response = tflow.tdnsresp()
            f.response.answers = [dns.ResourceRecord("q", 16, 1, 60, b"d" * z)]
            f.response.authorities = []
            f.response.additionals = []


_ERR = {ValueError: "EValue", KeyError: "EKey", IndexError: "EIndex"}


def run_impl(case):
    pool = case["pool"]
    flows = [_build(s) for s in pool]
    cur = [dict(s) for s in pool]
    idx_of = {f.id: i for i, f in enumerate(flows)}
    filters = [flowfilter.parse(x) if x else None for x in FILTERS]
    v = view.View()
    log = []
    keep = [lambda flow: log.append(["add", idx_of[flow.id]]),
            lambda flow, index: log.append(["remove", idx_of[flow.id], index]),
            lambda flow: log.append(["update", idx_of[flow.id]]),
            lambda: log.append(["refresh"]),
            lambda flow: log.append(["sremove", idx_of[flow.id]]),
            lambda: log.append(["srefresh"])]
    v.sig_view_add.connect(keep[0]); v.sig_view_remove.connect(keep[1]); v.sig_view_update.connect(keep[2])
    v.sig_view_refresh.connect(keep[3]); v.sig_store_remove.connect(keep[4]); v.sig_store_refresh.connect(keep[5])
    steps = []
    with taddons.context(v) as tctx:
        for op in case["ops"]:
            del log[:]
            k = op[0]
            specs_now = None
            try:
                if k == "add":
                    v.add([flows[op[1]]])
                elif k == "mut":
                    cur[op[1]] = op[2]
                    _apply(flows[op[1]], op[2])
                elif k == "upd":
                    cur[op[1]] = op[2]
                    _apply(flows[op[1]], op[2])
                    v.update([flows[op[1]]])
                elif k == "rm":
                    v.remove([flows[op[1]]])
                elif k == "flt":
                    v.set_filter(filters[op[1]])
                elif k == "ord":
                    v.set_order(op[1])
                elif k == "rev":
                    v.set_reversed(op[1])
                elif k == "tm":
                    v.toggle_marked()
                elif k == "clr":
                    v.clear()
                elif k == "cnm":
                    v.clear_not_marked()
                elif k == "ff":
                    tctx.configure(v, console_focus_follow=op[1])
                elif k == "addm":
                    v.add([flows[i] for i in op[1]])
                elif k == "rmm":
                    v.remove([flows[i] for i in op[1]])
                elif k == "updm":
                    for i, s in op[1]:
                        cur[i] = s
                        _apply(flows[i], s)
                    v.update([flows[i] for i, _ in op[1]])
                else:
                    raise AssertionError(k)
            except (ValueError, KeyError, IndexError) as e:
                steps.append({"raised": _ERR[[t for t in _ERR if isinstance(e, t)][0]], "what": repr(e)[:80]})
                break
            except Exception as e:  # any other exception is its own observable
                steps.append({"raised": "Other", "what": type(e).__name__ + ": " + str(e)[:80]})
                break
            # the data handed to the model must describe the real objects: check the reference functions
            for i, f in enumerate(flows):
                for n, flt in enumerate(filters):
                    real = bool(flt(f)) if flt else True
                    assert real == ref_match(n, cur[i]), ("ref_match", n, cur[i])
            steps.append({"visible": [idx_of[f.id] for f in v],
                          "focus": None if v.focus.flow is None else idx_of[v.focus.flow.id],
                          "settings": sorted(idx_of[x] for x in v.settings._values),
                          "store": [idx_of[x] for x in v._store],
                          "log": [list(x) for x in log],
                          "flt": FILTERS.index(None) if v.filter is flowfilter.match_all else filters.index(v.filter),
                          "order": v.get_order() or "time", "rev": v.order_reversed, "sm": v.show_marked})
    return {"steps": steps}


# ---------------------------------------------------------------- Coq printing
def _ranks(case):
    """order-preserving encoding of every sort key that occurs in the case as a small number"""
    specs = list(case["pool"])
    for op in case["ops"]:
        if op[0] in ("upd", "mut"):
            specs.append(op[2])
        elif op[0] == "updm":
            specs += [s for _, s in op[1]]
    r = {}
    for o in ORDERS:
        vals = sorted(set(ref_key(s, o) for s in specs))
        r[o] = {val: i for i, val in enumerate(vals)}
    return r


def _cflow(i, spec, ranks):
    ks = " ".join(str(ranks[o][ref_key(spec, o)]) for o in ORDERS)
    ms = clist([cbool(ref_match(n, spec)) for n in range(1, len(FILTERS))], "bool")
    return f"(mkFlow {i} {ks} {ms} {cbool(spec['mk'])})"


def _cids(l):
    return clist([str(i) for i in l], "N")


def _csig(e):
    k = e[0]
    if k == "add":
        return f"ViewAdd {e[1]}"
    if k == "remove":
        return f"ViewRemove {e[1]} {e[2]}"
    if k == "update":
        return f"ViewUpdate {e[1]}"
    if k == "refresh":
        return "ViewRefresh"
    if k == "sremove":
        return f"StoreRemove {e[1]}"
    return "StoreRefresh"


def coq_case(case, obs):
    ranks = _ranks(case)
    cur = [dict(s) for s in case["pool"]]
    items = []
    for op, st in zip(case["ops"], obs["steps"]):
        k = op[0]
        if k == "add":
            c = f"Single (Add {_cflow(op[1], cur[op[1]], ranks)})"
        elif k == "upd":
            cur[op[1]] = op[2]
            c = f"Single (Update {_cflow(op[1], op[2], ranks)})"
        elif k == "mut":
            cur[op[1]] = op[2]
            c = "MutateOnly " + clist([_cflow(op[1], op[2], ranks)], "flow")
        elif k == "rm":
            c = f"Single (Remove {op[1]})"
        elif k == "flt":
            c = f"Single (SetFilter {op[1]})"
        elif k == "ord":
            c = f"Single (SetOrder {ORD_COQ[op[1]]})"
        elif k == "rev":
            c = f"Single (SetReversed {cbool(op[1])})"
        elif k == "tm":
            c = "Single ToggleMarked"
        elif k == "clr":
            c = "Single Clear"
        elif k == "cnm":
            c = "Single ClearNotMarked"
        elif k == "ff":
            c = f"Single (SetFocusFollow {cbool(op[1])})"
        elif k == "addm":
            c = "AddMany " + clist([_cflow(i, cur[i], ranks) for i in op[1]], "flow")
        elif k == "rmm":
            c = "RemoveMany " + _cids(op[1])
        else:
            for i, s in op[1]:
                cur[i] = s
            c = "UpdateMany " + clist([_cflow(i, s, ranks) for i, s in op[1]], "flow")
        if "raised" in st:
            o = f"Raised {st['raised'] if st['raised'] != 'Other' else 'EValue'}"
        else:
            o = (f"Obs {_cids(st['visible'])} {copt(st['focus'], str, 'N')} {_cids(st['settings'])} "
                 f"{_cids(st['store'])} {clist([_csig(e) for e in st['log']], 'sig')}")
        items.append(f"({c}, {o})")
    return "Hist " + clist(items, "(cop * obs)%type")


# ---------------------------------------------------------------- oracle: the property on the implementation
def _walk(case, obs):
    """yield (op, step, state-before, state-after) with the harness' own bookkeeping of what was asked"""
    cur = [dict(s) for s in case["pool"]]
    stored = []                 # ids the caller has added and not removed, in order
    hist = {}                   # (id, order) -> set of key values since the flow was stored
    dirty = set()               # flows changed without the view having been told yet
    prev = {"visible": [], "rev": False}
    for op, st in zip(case["ops"], obs["steps"]):
        k = op[0]
        if "raised" in st:
            yield op, st, None, None, None, None, None
            return
        if k == "upd":
            cur[op[1]] = op[2]
            dirty.discard(op[1])
        elif k == "mut":
            cur[op[1]] = op[2]
            if op[1] in stored:
                dirty.add(op[1])
        elif k == "updm":
            for i, s in op[1]:
                cur[i] = s
                dirty.discard(i)
        elif k in ("flt", "tm", "cnm", "clr"):
            dirty.clear()               # every stored flow is re-evaluated and re-keyed
        if k in ("add", "addm"):
            for i in ([op[1]] if k == "add" else op[1]):
                if i not in stored:
                    stored.append(i)
        elif k in ("rm", "rmm"):
            for i in ([op[1]] if k == "rm" else op[1]):
                if i in stored:
                    stored.remove(i)
                    dirty.discard(i)
                    for o in ORDERS:
                        hist.pop((i, o), None)
        elif k == "clr":
            stored = []
            hist = {}
        elif k == "cnm":
            stored = [i for i in stored if cur[i]["mk"]]
            hist = {key: val for key, val in hist.items() if key[0] in stored}
        for i in stored:
            for o in ORDERS:
                hist.setdefault((i, o), set()).add(ref_key(cur[i], o))
        yield op, st, prev, cur, list(stored), hist, set(dirty)
        prev = st


def oracle(case, obs):
    out = []

    def bad(key, what):
        if not any(x["key"] == key for x in out):
            out.append({"key": key, "what": what})
    n = 0
    for op, st, prev, cur, stored, hist, dirty in _walk(case, obs):
        n += 1
        at = f"after call {n} {op[0]}"
        if "raised" in st:
            bad("exception", f"{at}: {st['raised']} {st.get('what', '')}")
            break
        vis = st["visible"]
        if st["store"] != stored:
            bad("store-content", f"{at}: store {st['store']} but the caller added/removed to {stored}")
        want = [i for i in stored if ref_match(st["flt"], cur[i]) and (not st["sm"] or cur[i]["mk"])]
        if len(set(vis)) != len(vis):
            bad("view-duplicate", f"{at}: a flow is listed twice: {vis}")
        extra = [i for i in vis if i not in want and not (i in dirty and i in stored)]
        missing = [i for i in want if i not in vis and i not in dirty]
        if missing:
            bad("view-missing", f"{at}: matching stored flows {missing} are not shown ({vis})")
        if extra:
            if st["sm"] and all(i in stored and ref_match(st["flt"], cur[i]) and not cur[i]["mk"] for i in extra):
                bad("marked-only-ignored-by-add-update",
                    f"{at}: marked-only mode is on but unmarked flows {extra} are shown")
            else:
                bad("view-extra", f"{at}: flows {extra} are shown but do not match / are not stored")
        keys = [ref_key(cur[i], st["order"]) for i in vis]
        asc = list(reversed(keys)) if st["rev"] else keys
        ids = list(reversed(vis)) if st["rev"] else vis
        clean = [j for j in range(len(ids)) if ids[j] not in dirty]      # order is promised among notified flows
        asc, ids = [asc[j] for j in clean], [ids[j] for j in clean]
        inv = [j for j in range(len(asc) - 1) if asc[j] > asc[j + 1]]
        if inv:
            stale = all(len(hist.get((ids[j], st["order"]), ())) > 1 or len(hist.get((ids[j + 1], st["order"]), ())) > 1
                        for j in inv)
            if stale:
                bad("stale-order-key", f"{at}: order {st['order']} rev={st['rev']}: keys {keys} of {vis} are out of order "
                                       f"(a flow whose key changed is placed by an old cached key)")
            else:
                bad("view-order", f"{at}: order {st['order']} rev={st['rev']}: keys {keys} of {vis} are out of order")
        if st["focus"] is None:
            if vis:
                bad("focus", f"{at}: no focus although the view shows {vis}")
        elif st["focus"] not in vis:
            bad("focus", f"{at}: focus {st['focus']} is not in the view {vis}")
        leaked = [i for i in st["settings"] if i not in st["store"]]
        if leaked:
            bad("settings-leak", f"{at}: settings kept for flows {leaked} that are not stored")
        # notifications replayed on the previous raw view
        raw = list(reversed(prev["visible"])) if prev["rev"] else list(prev["visible"])
        exact = True
        refreshed = False
        for e in st["log"]:
            if e[0] == "refresh":
                refreshed = True
            elif e[0] == "add":
                if e[1] in raw and not refreshed:
                    bad("signals", f"{at}: sig_view_add for flow {e[1]} that was already shown")
                raw.append(e[1])
                exact = False
            elif e[0] == "remove":
                if e[1] not in raw:
                    if not refreshed:
                        bad("signals", f"{at}: sig_view_remove for flow {e[1]} that was not shown")
                    continue
                if exact and not refreshed and (e[2] >= len(raw) or raw[e[2]] != e[1]):
                    bad("signals", f"{at}: sig_view_remove index {e[2]} is not the position of flow {e[1]} in {raw}")
                raw.remove(e[1])
            elif e[0] == "update":
                if e[1] not in raw and not refreshed:
                    bad("signals", f"{at}: sig_view_update for flow {e[1]} that is not shown")
        if not refreshed and sorted(raw) != sorted(vis):
            bad("signals", f"{at}: view went from {prev['visible']} to {vis} but the notifications were {st['log']}")
        if op[0] in ("upd",) and not refreshed and op[1] in vis and op[1] in prev["visible"] and ["update", op[1]] not in st["log"]:
            bad("signals", f"{at}: shown flow {op[1]} updated without sig_view_update")
    return out


def nontrivial(case, obs):
    steps = [s for s in obs["steps"] if "raised" not in s]
    changes = sum(1 for a, b in zip([{"visible": []}] + steps, steps) if a["visible"] != b["visible"])
    return any(len(s["visible"]) >= 2 for s in steps) and changes >= 3


def classify(case, obs):
    tags = set()
    for op in case["ops"]:
        tags.add("op:" + op[0])
    steps = [s for s in obs["steps"] if "raised" not in s]
    m = max([len(s["visible"]) for s in steps] or [0])
    tags.add("maxview:" + ("0" if m == 0 else "1" if m == 1 else "2-3" if m <= 3 else "4+"))
    if any(s["rev"] and len(s["visible"]) >= 2 for s in steps):
        tags.add("reversed-with-2+")
    if any(s["sm"] for s in steps):
        tags.add("marked-only-mode")
    if any(s["flt"] != 0 for s in steps):
        tags.add("filtered")
    if any(["refresh"] in s["log"] and ["update", op[1]] in s["log"] for op, s in zip(case["ops"], steps) if op[0] == "upd"):
        tags.add("key-refresh-on-update")
    if any(len(s["visible"]) != len(s["store"]) for s in steps):
        tags.add("hidden-flows")
    for t in set(s["ty"] for s in case["pool"]):
        tags.add("type:" + t)
    tags.add("len:" + ("1-5" if len(case["ops"]) <= 5 else "6-15" if len(case["ops"]) <= 15 else "16-30"))
    if len(obs["steps"]) and "raised" in obs["steps"][-1]:
        tags.add("raised")
    return sorted(tags)
