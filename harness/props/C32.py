"""C32 -- Message text round-trips for every content type
(mitmproxy/http.py Message.set_text/get_text; mitmproxy/net/http/headers.py infer_content_encoding,
parse_content_type, assemble_content_type; name resolution of mitmproxy/net/encoding.py)."""
import codecs

from lib.coqterm import cbytes, cbool, copt, clist, cpair, hx, unhx

ID = "C32"
QUICK_N = 3000
THOROUGH_N = 24000
SHARD = 420
COQ_PRELUDE = "From MV Require Import Model.MsgText.\n"
RULE = ("50% set_text/get_text on a real Response: content type = base type (html/xml/css/json/javascript/plain/"
        "unparseable/none, mixed case) x parameter clauses (charset spelled in ~60 ways incl. aliases, unknown, empty, "
        "quoted, non-text codecs, duplicates, other parameters) x text built from a token dictionary (ASCII, Latin-1, "
        "BMP, astral, U+FEFF, strings whose Latin-1/UTF-8 bytes look like a BOM, surrogate-escaped bytes, lone surrogates, "
        "<meta charset>, <?xml encoding?>, @charset declarations); 22% infer_content_encoding on adversarial bodies "
        "for the three declaration scanners (tag/key/quote/terminator fragments, several candidates, BOMs); 10% "
        "get_text on arbitrary stored bytes (invalid UTF-8/16/32, truncations), strict and lenient; 8% "
        "parse/assemble_content_type; 10% direct encoding.encode/decode and utf8+surrogateescape on boundary inputs. "
        "Thorough adds every byte string of length <= 3 over 19 UTF-8 boundary bytes for the strict and the "
        "surrogateescape decoder. Non-trivial = the case leaves the ASCII/no-parameter default path; distinct by JSON.")
TRUSTED = ["Coq 8.16.1 kernel (coqc), vm_compute for case evaluation and witnesses",
           "harness/props/C32.py generator, runner and comparison glue (Corr/C32.v)",
           "hand model coq/Model/MsgText.v of headers.py, of set_text/get_text, of CPython's codec-name normalisation "
           "and alias table, of the regex engine on the three fixed patterns, and of the ascii/latin-1/utf-8(-sig)/"
           "utf-16/utf-32 codecs incl. surrogateescape -- tied by correspondence only",
           "CONTRACT for every other codec name (gb18030, cp1252, ...): the theorems take decode(encode s) = s as a "
           "hypothesis for that name and text; the oracle checks it with codecs.encode/decode on every generated case"]
ASSUMPTIONS = ["the message has no Content-Encoding header, so content == raw_content (Content-Encoding is C31)",
               "one Content-Type field at most; header strings are represented by their UTF-8/surrogateescape bytes",
               "non-ASCII characters in a Content-Type value are caseless and not white space (str.lower/str.strip are "
               "modelled on ASCII); code points are <= U+10FFFF"]

BASES = ["text/plain", "text/html", "text/html", "TEXT/HTML", "Text/Html", "application/json", "application/xhtml+xml",
         "text/xml", "application/xml", "text/css", "text/css", "application/javascript", "text/ecmascript",
         "image/svg+xml", "application/ld+json", "gibberish", "", "/", "text/html/x", "application/octet-stream",
         "text/htm", "text/json+html", "text/xml+css", "a/b", "text/css; html", " text/html ", "text\xe9/html"]
CHARSETS = ["utf-8", "UTF-8", "utf8", "Utf_8", "u8", "utf", "utf--8", "UTF 8", "cp65001", "latin-1", "latin1", "Latin_1",
            "iso-8859-1", "ISO_8859-1", "iso8859-1", "l1", "cp819", "8859", "ascii", "us-ascii", "US_ASCII", "646",
            "ansi_x3.4-1968", "utf-16", "utf16", "u16", "utf-16le", "utf-16-le", "UTF-16BE", "utf_16_be", "utf16le",
            "utf-32", "u32", "utf-32le", "utf-32-be", "utf_32_le", "utf-8-sig", "utf_8_sig", "utf8sig", "gb2312", "GBK",
            "Gb2312", "gb18030", "cp1252", "shift_jis", "big5", "koi8-r", "cp437", "wtf", "unknown", "x", "identity", "none",
            "gzip", "br", "rot13", "base64", "hex", "unicode_escape", "raw_unicode_escape", "utf-7", "idna", "punycode",
            "undefined", "", "utf.8", "utf8.ucs2", "a\x00b", "utf\udcff8", "\xe9utf8", "'utf-8'", '"latin-1"', ".utf8",
            "_ascii_", "utf-8 ", "mbcs"]
PARAM_FORMS = ["; charset=%s", ";charset=%s", "; charset=%s", "; charset = %s ", "; Charset=%s", "; CHARSET=%s",
               ";\tcharset=%s\x1f", "; charset=\"%s\"", "; x=y; charset=%s", "; charset=%s; foo=bar",
               "; charset=zzz; charset=%s", "; charset=%s; charset=", ";charset=%s;", "; charset==%s"]
OTHER_PARAMS = ["", "", "", "; foo=bar", ";", "; =", "; boundary=a=b", "; a", ";; q=1 ;", "; json=html"]

T_PLAIN = ["a", "abc", "hello", " ", "\n", "0", "\x00", "\x00\x00", "\x7f", "\x80", "\xe9", "\xff", "\xfc", "\u0100", "\u20ac",
           "\u2603", "\ufeff", "\ufffe", "\U00010348", "\U0010ffff", "\u93c4\u5e9d", "\ud7ff", "\ue000", "\\u00e9", "\\", "+",
           "A"]
T_BOMISH = ["\xff\xfe", "\xfe\xff", "\xef\xbb\xbf", "\xff\xfe\x00\x00", "\x00\x00\xfe\xff", "\ufeff", "\xef\xbb", "\xff"]
T_ESC = ["\udcff", "\udc80", "\udcc3\udca9", "\udcff\udcfe", "\udcef\udcbb\udcbf", "\udce2\udc82"]
T_LONE = ["\ud800", "\udc00", "\udfff", "\udc7f", "\U0010fc00"]
T_DECL = ['<meta charset="latin-1">', "<meta charset=utf-8>", '<META http-equiv="content-type" content="text/html;charset=gb2312">',
          "<meta charset='ascii'>", "<meta charset=foo>", '<meta charset="">', "<meta  charset=\xe9>", "<meta charset=utf-16>",
          '<?xml version="1.0" encoding="latin-1"?>', "<?xml version='1.0' encoding='UTF-8'?>", '<?XML encoding="ascii"?>',
          '<?xml version="1.0" encoding=latin-1?>', '@charset "latin-1";', '@charset "utf-8";', '@CHARSET "ascii";',
          '@charset "x"', "@charset 'latin-1';", '<meta name=x><meta charset="cp1252">', '@charset "gbk";']
FRAG = [b"<meta", b"<META", b"<mEta", b" ", b"  ", b"charset=", b"CHARSET=", b"Charset=", b"charset", b"=", b"'", b'"', b">",
        b"x", b"utf-8", b"latin-1", b"ascii", b"<?xml", b"<?XML", b"?", b"?>", b"encoding=", b"ENCODING=", b' version="1.0"',
        b"@charset \"", b"@CHARSET \"", b"@charset ", b"\";", b"\"", b";", b"\xe9", b"\xc3\xa9", b"<", b"\n", b"a", b"gb2312",
        b"\x00", b"<meta ", b" charset=", b" encoding=\"", b"\xff"]
BOMS = [b"\x00\x00\xfe\xff", b"\xff\xfe\x00\x00", b"\xfe\xff", b"\xff\xfe", b"\xef\xbb\xbf", b"\xef\xbb", b"\xff", b"\x00\x00\xfe"]
U8B = [0x00, 0x7f, 0x80, 0x8f, 0x90, 0x9f, 0xa0, 0xbf, 0xc0, 0xc1, 0xc2, 0xdf, 0xe0, 0xed, 0xef, 0xf0, 0xf4, 0xf5, 0xff]
RAW = [b"", b"abc", b"\xe9", b"\xc3\xa9", b"\xc3", b"\xe2\x82\xac", b"\xe2\x82", b"\xed\xa0\x80", b"\xf0\x90\x8d\x88", b"\xf4\x90\x80\x80",
       b"\xc0\x80", b"\xe0\x80\x80", b"\xff", b"a\x00", b"a\x00b", b"\x00\xd8", b"\x00\xd8\x00\xdc", b"\x00\xdc", b"\xd8\x00\xdc\x00",
       b"a\x00\x00\x00", b"\x00\x00\x00a", b"\x00\xd8\x00\x00", b"\x00\x00\x11\x00", b"\xff\xff\x10\x00", b"a\x00\x00", b"\x80", b"\xbf"]
EXACT_NAMES = ["ascii", "latin-1", "utf-8", "utf8", "utf-8-sig", "utf-16", "utf-16le", "utf-16be", "utf-32", "utf-32le", "utf-32be",
               "UTF-16-LE", "iso-8859-1", "us-ascii", "utf_32_be", "u16", "u32"]


def _ct(rng):
    base = rng.choice(BASES)
    r = rng.random()
    if r < 0.30:
        par = ""
    else:
        par = rng.choice(PARAM_FORMS) % rng.choice(CHARSETS)
    par += rng.choice(OTHER_PARAMS)
    if rng.chance(0.15):
        par = rng.choice(OTHER_PARAMS) + par
    s = base + par
    if rng.chance(0.06):
        i = rng.randint(0, len(s))
        s = s[:i] + rng.choice([";", "/", "=", " ", "\udcff", "\u20ac", "json", "html", "xml", "text/css", "\x1c", "\t"]) + s[i:]
    return s


def _text(rng):
    parts = []
    r = rng.random()
    if r < 0.22:
        parts.append(rng.choice(T_BOMISH))
    elif r < 0.50:
        parts.append(rng.choice(T_DECL))
    for _ in range(rng.randint(0, 4)):
        q = rng.random()
        if q < 0.70:
            parts.append(rng.choice(T_PLAIN))
        elif q < 0.80:
            parts.append(rng.choice(T_DECL))
        elif q < 0.88:
            parts.append(rng.choice(T_BOMISH))
        elif q < 0.97:
            parts.append(rng.choice(T_ESC))
        else:
            parts.append(rng.choice(T_LONE))
    if rng.chance(0.08):
        rng.shuffle(parts)
    return "".join(parts)


DECL_NAMES = ["latin-1", "utf-8", "gb2312", "GBK", "ascii", "koi8-r", "x", "\xe9", "utf-16", "", "cp1252", "a b", "utf-8\xe9"]


def _pick(rng, good, bad):
    return rng.choice(good) if rng.chance(0.85) else rng.choice(bad)


def _decl(rng, kind):
    """one near-valid in-body declaration: every piece is wrong with probability 0.15"""
    name = rng.choice(DECL_NAMES)
    if kind == "meta":
        tag = _pick(rng, ["<meta", "<META", "<Meta"], ["< meta", "<met", "<metaa", "meta"])
        fill = _pick(rng, [" ", "  ", ' http-equiv="content-type" content="text/html;', " a=b ", "\n", " charset=zz ", " x "],
                     ["", ">", " x> <meta ", " charset='' ", " charset=\"\" x"])
        key = _pick(rng, ["charset=", "CHARSET=", "Charset="], ["charset =", "charset", "charse="])
        q = _pick(rng, ["", '"', "'"], ['""', "'\"", ">"])
        end = rng.choice([">", '">', "'>", "", " >", '" />', "'"])
        return tag + fill + key + q + name + end
    if kind == "xml":
        tag = _pick(rng, ["<?xml", "<?XML", "<?Xml"], ["<? xml", "<?xm", "<xml"])
        fill = _pick(rng, [" ", ' version="1.0" ', " version='1.0' ", "\n", ' encoding="" ', " x "], ["", "?", ">", " a?> <?xml "])
        key = _pick(rng, ["encoding=", "ENCODING=", "Encoding="], ["encoding =", "encoding", "encodin="])
        q = _pick(rng, ['"', "'"], ["", '""', "?"])
        end = rng.choice(['"?>', "'?>", "?>", "", '"', ">"])
        return tag + fill + key + q + name + end
    tag = _pick(rng, ['@charset "', '@CHARSET "', '@Charset "'], ["@charset '", '@charset  "', '@charset"', ' @charset "'])
    end = _pick(rng, ['";'], ['"', "';", '" ;', ";", '"";', '";;'])
    return tag + name + end


def _body(rng, kind=None):
    kind = kind or rng.choice(["meta", "xml", "css"])
    if rng.chance(0.7):
        parts = [_decl(rng, kind).encode("latin-1")]
        for _ in range(rng.randint(0, 3)):
            extra = rng.choice(FRAG) if rng.chance(0.7) else _decl(rng, rng.choice([kind, "meta", "xml", "css"])).encode("latin-1")
            if kind == "css" and rng.chance(0.7):
                parts.append(extra)
            else:
                parts.insert(rng.randint(0, len(parts)), extra)
    else:
        parts = [rng.choice(FRAG) for _ in range(rng.randint(0, 10))]
        if rng.chance(0.3):
            parts.insert(rng.randint(0, len(parts)), rng.choice(T_DECL).encode("latin-1"))
    if rng.chance(0.12):
        parts.insert(0, rng.choice(BOMS))
    return b"".join(parts)


CONSULT_CTS = {"meta": ["text/html", "text/html", "application/xhtml+xml", "text/html; charset=", "text/html; Charset=utf-8",
                        "text/css+html", "text/html;charset", "html", "text/html; x=y"],
               "xml": ["text/xml", "application/xml", "image/svg+xml", "text/xml+css", "xml", "text/xml; charset=", "application/xhtml+xml"],
               "css": ["text/css", "text/css", "text/css; x=y", "text/css; charset=", "xtext/css"]}


def _b(s: str) -> bytes:
    return s.encode("utf-8", "surrogateescape")


def gen(rng, n, tier):
    out = []
    if tier == "thorough":
        def rec(prefix, depth):
            yield bytes(prefix)
            if depth:
                for a in U8B:
                    yield from rec(prefix + [a], depth - 1)
        for s in rec([], 3):
            out.append({"k": "decse", "b": hx(s)})
            out.append({"k": "dec", "name": hx(b"utf-8"), "b": hx(s)})
    for _ in range(n):
        r = rng.random()
        if r < 0.50:
            if rng.chance(0.2):
                # a consulted content type whose text carries a declaration of the matching kind
                kind = rng.choice(["meta", "xml", "css"])
                ct = rng.choice(CONSULT_CTS[kind])
                text = _decl(rng, kind) + rng.choice(T_PLAIN) + rng.choice(T_PLAIN)
                if kind != "css" and rng.chance(0.4):
                    text = rng.choice(T_PLAIN) + text
            else:
                ct = None if rng.chance(0.06) else _ct(rng)
                text = _text(rng)
            q = rng.random()
            init = "" if q < 0.5 else None if q < 0.6 else hx(rng.choice(BOMS) + b"x") if q < 0.8 else hx(_body(rng))
            out.append({"k": "setget", "ct": None if ct is None else hx(_b(ct)), "init": init, "text": [ord(c) for c in text],
                        "strict": not rng.chance(0.2)})
        elif r < 0.72:
            kind = rng.choice(["meta", "meta", "xml", "css"])
            ct = _ct(rng) if rng.chance(0.25) else rng.choice(CONSULT_CTS[kind])
            out.append({"k": "infer", "ct": hx(_b(ct)), "b": hx(_body(rng, kind))})
        elif r < 0.82:
            ct = None if rng.chance(0.1) else _ct(rng)
            q = rng.random()
            if q < 0.5:
                body = b"".join(rng.choice(RAW) for _ in range(rng.randint(0, 4)))
            elif q < 0.75:
                body = _body(rng)
            else:
                body = rng.choice(BOMS) + rng.bytes(rng.randint(0, 8), U8B)
            out.append({"k": "get", "ct": None if ct is None else hx(_b(ct)), "b": hx(body), "strict": rng.chance(0.5)})
        elif r < 0.90:
            out.append({"k": "parse", "ct": hx(_b(_ct(rng)))})
        else:
            q = rng.random()
            if q < 0.3:
                out.append({"k": "enc", "name": hx(_b(rng.choice(EXACT_NAMES + CHARSETS[:40]))), "text": [ord(c) for c in _text(rng)]})
            elif q < 0.6:
                body = b"".join(rng.choice(RAW) for _ in range(rng.randint(0, 4)))
                out.append({"k": "dec", "name": hx(_b(rng.choice(EXACT_NAMES + CHARSETS[:40]))), "b": hx(body)})
            elif q < 0.85:
                body = rng.bytes(rng.randint(0, 6), U8B) if rng.chance(0.6) else b"".join(rng.choice(RAW) for _ in range(rng.randint(0, 4)))
                out.append({"k": "decse", "b": hx(body)})
            else:
                out.append({"k": "encse", "text": [ord(c) for c in _text(rng)]})
    return out


def setup_impl():
    global http, headers_mod, encoding
    from mitmproxy import http  # noqa
    from mitmproxy.net.http import headers as headers_mod  # noqa
    from mitmproxy.net import encoding  # noqa


def _s(h) -> str:
    return unhx(h).decode("utf-8", "surrogateescape")


def _obs_enc(text, name):
    """-> ['b', hex] | ['s'] | ['v'] | ['t'] | ['o', cls]"""
    try:
        r = encoding.encode(text, name)
    except TypeError:
        return ["t"]
    except ValueError as e:
        return ["v"] if type(e) is ValueError else ["o", type(e).__name__]
    except Exception as e:  # noqa
        return ["o", type(e).__name__]
    if isinstance(r, bytes):
        return ["b", hx(r)]
    return ["s"] if isinstance(r, str) else ["o", type(r).__name__]


def _obs_dec(body, name):
    """-> ['s', cps] | ['b', hex] | ['v'] | ['t'] | ['o', cls]"""
    try:
        r = encoding.decode(body, name)
    except TypeError:
        return ["t"]
    except ValueError as e:
        return ["v"] if type(e) is ValueError else ["o", type(e).__name__]
    except Exception as e:  # noqa
        return ["o", type(e).__name__]
    if isinstance(r, str):
        return ["s", [ord(c) for c in r]]
    return ["b", hx(bytes(r))] if isinstance(r, (bytes, bytearray)) else ["o", type(r).__name__]


def _mk(ct_hex, body):
    hs = [] if ct_hex is None else [(b"content-type", unhx(ct_hex))]
    return http.Response(b"HTTP/1.1", 200, b"OK", http.Headers(hs), body, None, 0.0, 0.0)


def _ct_of(r):
    vals = [v for k, v in r.headers.fields if k.lower() == b"content-type"]
    if not vals:
        return None
    return hx(b", ".join(vals))


def _get(r, strict):
    """-> ['n'] | ['s', cps] | ['b', hex] | ['v'] | ['t'] | ['o', cls]"""
    try:
        t = r.get_text(strict)
    except TypeError:
        return ["t"]
    except ValueError as e:
        # decode errors are wrapped into plain ValueError by encoding.decode
        return ["v"] if type(e) is ValueError else ["o", type(e).__name__]
    except Exception as e:  # noqa
        return ["o", type(e).__name__]
    if t is None:
        return ["n"]
    if isinstance(t, str):
        return ["s", [ord(c) for c in t]]
    return ["b", hx(bytes(t))]


def run_impl(case):
    k = case["k"]
    if k == "parse":
        p = headers_mod.parse_content_type(_s(case["ct"]))
        if p is None:
            return {"p": None, "asm": None}
        return {"p": [hx(_b(p[0])), hx(_b(p[1])), [[hx(_b(a)), hx(_b(b))] for a, b in p[2].items()]],
                "asm": hx(_b(headers_mod.assemble_content_type(*p))),
                "reparse_same": headers_mod.parse_content_type(headers_mod.assemble_content_type(*p)) == p}
    if k == "infer":
        return {"enc": hx(_b(headers_mod.infer_content_encoding(_s(case["ct"]), unhx(case["b"])))),
                "nobody": hx(_b(headers_mod.infer_content_encoding(_s(case["ct"]))))}
    if k == "enc":
        return {"r": _obs_enc("".join(map(chr, case["text"])), _s(case["name"]))}
    if k == "dec":
        return {"r": _obs_dec(unhx(case["b"]), _s(case["name"]))}
    if k == "decse":
        return {"r": [ord(c) for c in unhx(case["b"]).decode("utf8", "surrogateescape")]}
    if k == "encse":
        try:
            return {"r": hx("".join(map(chr, case["text"])).encode("utf8", "surrogateescape"))}
        except UnicodeEncodeError:
            return {"r": None}
    if k == "get":
        r = _mk(case["ct"], unhx(case["b"]))
        dn = headers_mod.infer_content_encoding(r.headers.get("content-type", ""), unhx(case["b"]))
        return {"dn": hx(_b(dn.lower())), "od": _obs_dec(unhx(case["b"]), dn), "get": _get(r, case["strict"])}
    # setget
    text = "".join(map(chr, case["text"]))
    init = case.get("init", "")
    r = _mk(case["ct"], None if init is None else unhx(init))
    en = headers_mod.infer_content_encoding(r.headers.get("content-type", ""))
    obs = {"en": hx(_b(en.lower())), "oe": _obs_enc(text, en), "dn": "", "od": ["v"], "get": None, "set": None}
    try:
        r.set_text(text)
    except TypeError:
        obs["set"] = ["t"]
        return obs
    except UnicodeEncodeError:
        obs["set"] = ["u"]
        return obs
    except Exception as e:  # noqa
        obs["set"] = ["o", type(e).__name__]
        return obs
    body = r.raw_content
    obs["set"] = ["ok", _ct_of(r), hx(body)]
    ct2 = r.headers.get("content-type", "")
    dn = headers_mod.infer_content_encoding(ct2, body)
    obs["dn"] = hx(_b(dn.lower()))
    obs["od"] = _obs_dec(body, dn)
    obs["get"] = _get(r, case["strict"])
    # facts for the oracle, all from the implementation / the standard library
    obs["enc_get_nobody"] = hx(_b(headers_mod.infer_content_encoding(ct2)))
    p2 = headers_mod.parse_content_type(ct2)
    obs["ct2_utf8"] = p2 is not None and p2[2].get("charset") == "utf-8"
    try:
        obs["codec_rt"] = codecs.decode(codecs.encode(text, en), en) == text
    except Exception:  # noqa
        obs["codec_rt"] = None
    return obs


# ---------- Coq printers ----------
def _eres(o):
    return {"b": lambda: f"(EBytes {cbytes(unhx(o[1]))})", "s": lambda: "EStr", "v": lambda: "EValueErr",
            "t": lambda: "ETypeErr", "o": lambda: "EMissing"}[o[0]]()


def _cps(l):
    return clist((f"{c}%N" for c in l), "N")


def _dres(o):
    return {"s": lambda: f"(DStr {_cps(o[1])})", "b": lambda: f"(DBytes {cbytes(unhx(o[1]))})", "v": lambda: "DValueErr",
            "t": lambda: "DTypeErr", "o": lambda: "DMissing"}[o[0]]()


def _getres(o):
    if o is None:
        return "(Some GNone)"   # unused: set failed
    if o[0] == "o":
        return "(@None getres)"
    return "(Some " + {"n": lambda: "GNone", "s": lambda: f"(GStr {_cps(o[1])})", "b": lambda: f"(GBytes {cbytes(unhx(o[1]))})",
                       "v": lambda: "GValueErr", "t": lambda: "GTypeErr"}[o[0]]() + ")"


def _optb(h):
    return copt(h, lambda x: cbytes(unhx(x)), "bytes")


def coq_case(case, obs):
    k = case["k"]
    if k == "parse":
        if obs["p"] is None:
            return f"Parse {cbytes(unhx(case['ct']))} None (@None bytes)"
        t, st, d = obs["p"]
        dd = clist((cpair(cbytes(unhx(a)), cbytes(unhx(b))) for a, b in d), "(bytes * bytes)%type")
        return f"Parse {cbytes(unhx(case['ct']))} (Some ({cbytes(unhx(t))}, {cbytes(unhx(st))}, {dd})) {_optb(obs['asm'])}"
    if k == "infer":
        return f"Infer {cbytes(unhx(case['ct']))} {cbytes(unhx(case['b']))} {cbytes(unhx(obs['enc']))}"
    if k == "enc":
        if obs["r"][0] == "o":
            return None
        return f"Enc {cbytes(unhx(case['name']))} {_cps(case['text'])} {_eres(obs['r'])}"
    if k == "dec":
        if obs["r"][0] == "o":
            return None
        return f"Dec {cbytes(unhx(case['name']))} {cbytes(unhx(case['b']))} {_dres(obs['r'])}"
    if k == "decse":
        return f"DecSE {cbytes(unhx(case['b']))} {_cps(obs['r'])}"
    if k == "encse":
        return f"EncSE {_cps(case['text'])} {_optb(obs['r'])}"
    if k == "get":
        return (f"Get {_optb(case['ct'])} {cbytes(unhx(case['b']))} {cbool(case['strict'])} {cbytes(unhx(obs['dn']))} "
                f"{_dres(obs['od'])} {_getres(obs['get'])}")
    s = obs["set"]
    if s[0] == "ok":
        sr = f"(Some (SetOk {{| ctype := {_optb(s[1])}; content := Some {cbytes(unhx(s[2]))} |}}))"
    elif s[0] == "t":
        sr = "(Some SetTypeErr)"
    elif s[0] == "u":
        sr = "(Some SetUnicodeErr)"
    else:
        sr = "(@None setres)"
    return (f"SetGet {_optb(case['ct'])} {_optb(case.get('init', ''))} {_cps(case['text'])} {cbool(case['strict'])} {cbytes(unhx(obs['en']))} {_eres(obs['oe'])} "
            f"{cbytes(unhx(obs['dn']))} {_dres(obs['od'])} {sr} {_getres(obs['get'])}")


# ---------- the property on the implementation ----------
BOM_PREFIXES = [b"\x00\x00\xfe\xff", b"\xff\xfe", b"\xfe\xff", b"\xef\xbb\xbf"]


def _in_domain(cps):
    """Unicode scalar values or surrogate-escaped bytes (U+DC80..U+DCFF)."""
    return all(not (0xD800 <= c <= 0xDFFF) or 0xDC80 <= c <= 0xDCFF for c in cps)


def oracle(case, obs):
    k = case["k"]
    if k == "parse":
        if obs["p"] is not None and not obs["reparse_same"]:
            return [{"key": "parse-assemble", "what": f"parse(assemble(parse(ct))) != parse(ct) for ct={case['ct']}"}]
        return []
    if k != "setget" or not _in_domain(case["text"]):
        return []
    s = obs["set"]
    desc = f"ct={case['ct']} text={case['text'][:24]}"
    if s[0] != "ok":
        if s[0] == "t":
            return [{"key": "non-text-charset", "what": f"set_text raises TypeError ({desc})"}]
        return [{"key": "set-raises", "what": f"set_text raises {s} ({desc})"}]
    v = []
    # declared charset is updated exactly when the text cannot be represented otherwise
    changed = s[1] != case["ct"]
    if obs["oe"][0] == "b":
        if changed:
            v.append({"key": "charset-update", "what": f"content-type rewritten to {s[1]} although the text was encodable ({desc})"})
    elif not obs["ct2_utf8"]:
        v.append({"key": "charset-update", "what": f"encode gave {obs['oe'][0]} but content-type is {s[1]} ({desc})"})
    g = obs["get"]
    if g == ["s", case["text"]]:
        return v
    body = unhx(s[2])
    escaped = any(0xDC80 <= c <= 0xDCFF for c in case["text"])
    if any(body.startswith(b) for b in BOM_PREFIXES):
        key = "bom-prefix"
    elif escaped:
        key = "surrogate-escape"
    elif obs["enc_get_nobody"] != obs["dn"] and obs["enc_get_nobody"].lower() != obs["dn"]:
        key = "body-declared-charset"
    elif not changed and obs["codec_rt"] is False:
        key = "non-injective-codec"
    else:
        key = "roundtrip"
    v.append({"key": key, "what": f"text reads back as {str(g)[:60]} (stored {s[2][:40]}, ct {s[1]}; {desc})"})
    return v


def nontrivial(case, obs):
    k = case["k"]
    if k == "setget":
        return case["ct"] is not None and (b";" in unhx(case["ct"]) or any(c > 127 for c in case["text"]))
    if k in ("infer", "get"):
        return len(case["b"]) > 0
    if k == "parse":
        return obs["p"] is not None
    return True


def classify(case, obs):
    k = case["k"]
    tags = [k]
    if k == "setget":
        s = obs["set"]
        tags.append("set:" + s[0])
        if s[0] == "ok":
            tags.append("fallback" if s[1] != case["ct"] else "kept")
            g = obs["get"]
            tags.append("get:" + ("same" if g == ["s", case["text"]] else g[0]))
            tags.append("enc:" + _s(obs["dn"])[:12])
        if not _in_domain(case["text"]):
            tags.append("out-of-domain")
    elif k == "infer":
        tags.append("infer:" + _s(obs["enc"])[:12])
        tags.append("infer:body-decides" if obs["enc"] != obs["nobody"] else "infer:body-ignored")
    elif k == "get":
        tags.append("get:" + obs["get"][0] + ("/strict" if case["strict"] else "/lenient"))
    elif k == "parse":
        tags.append("parse:" + ("none" if obs["p"] is None else f"{min(len(obs['p'][2]), 3)}params"))
    elif k in ("enc", "dec"):
        tags.append(k + ":" + obs["r"][0])
    return tags
