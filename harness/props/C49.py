"""C49 -- mitmdump output cannot inject terminal control sequences
(mitmproxy/addons/dumper.py, utils/strutils.escape_control_characters, contentviews.prettify_message)."""
import io
import json
import re
import shutil
import sys

from lib.coqterm import cbool, cbytes, clist, copt, hx, unhx

ID = "C49"
QUICK_N = 1500
THOROUGH_N = 7500
SHARD = 130
RULE = ("Flows of every type the dumper prints (HTTP response/error, WebSocket message/end, TCP/UDP message/error incl. "
        "QUIC labelling, DNS response/error) built with mitmproxy.test.tflow; every attacker-controlled text field "
        "(method, path, http versions, reason, header and trailer names/values, bodies, message contents, close reason, "
        "server host name, peer name, DNS names/records, error messages) is filled from a token dictionary of ESC/CSI/OSC "
        "sequences, C0, DEL, C1 (U+0080-9F), line separators of every kind, Unicode spaces, quotes, backslashes, surrogates "
        "and benign text (70% mostly-valid, 30% dense in controls); flow_detail 0-4, styling on/off, showhost, line cutoff "
        "1-6, several content views, all drawn from rng. 15% of cases exercise the sanitizers alone "
        "(escape_control_characters, indent, cut_after_n_lines) on random code point lists. Non-trivial = some input "
        "field contains a control character (category Cc other than TAB/LF/CR) and the dumper printed something.")
TRUSTED = ["Coq 8.16.1 kernel (coqc), vm_compute for case evaluation",
           "harness/props/C49.py: construction of flows, reading of the model inputs through the accessors the dumper uses, "
           "recording wrappers around contentviews.prettify_message / strutils.escape_control_characters / "
           "mitmproxy_rs.syntax_highlight.highlight (they call the real functions and only record)",
           "harness/translators/dumper_paths.py: extraction of the echo-path table from the Python ast (fails closed)",
           "mitmproxy_rs.syntax_highlight.highlight returns chunks that concatenate to its input (contract, checked on every case)",
           "human.pretty_size, dns.op_codes/types/response_codes.to_str print integers and fixed table entries only "
           "(contract: no control characters; checked on every case)"]
ASSUMPTIONS = ["content views are arbitrary functions: the model starts from the text handed to prettify_message's final filter",
               "no non-ASCII character has a str.upper() that is a substring of GET or DELETE (checked against the running interpreter in setup_impl)",
               "U+E000/U+E001 never occur in generated inputs (used by the oracle to mark the dumper's own styling sequences)"]
TRANSLATORS = ["dumper_paths"]
ALLOWED_AXIOMS = []
COQ_PRELUDE = "From MV Require Import Model.Dumper.\nLocal Open Scope N_scope.\n"

CTRL = ["\x1b", "\x1b[2J", "\x1b[31m", "\x1b]0;pwn\x07", "\x1b[0m", "\x9b", "\x9b2J", "\x90", "\x9d", "\x85", "\x80", "\x9f",
        "\x00", "\x07", "\x08", "\x7f", "\x0b", "\x0c", "\x1c", "\x1d", "\x1e", "\x1f", "\x01", "\x0e"]
SPACING = ["\t", "\n", "\r", "\r\n", "\n\n", " ", "  ", "\xa0", "\u2028", "\u2029", "\u3000", "\u2003"]
BENIGN = ["a", "GET", "get", "DELETE", "delete", "x", "/", "?q=1", ":", "'", "\"", "\\", "\\x1b", "é", "…", "\U0001f600",
          "\udcff", "\udc9b", ".", "[", "m", "0", "{\"a\": 1}", "<b>", "k=v", "HTTP/1.1", "HTTP/2.0", "\xa1", "ı"]
TAGS = ["name", "string", "number", "boolean", "comment", "error"]
VIEWS = ["auto", "auto", "auto", "raw", "hex dump", "json", "xml/html", "url-encoded", "javascript", "viewcss"]
CTYPES = [None, "text/plain", "application/json", "text/html", "application/x-www-form-urlencoded", "image/png",
          "application/javascript", "text/css", "application/octet-stream"]
VERSIONS = ["HTTP/1.1", "HTTP/1.1", "HTTP/1.0", "HTTP/2.0", "HTTP/3"]


def _text(rng, dense=False, maxtok=6):
    n = rng.randint(0, maxtok)
    out = []
    for _ in range(n):
        r = rng.random()
        if r < (0.6 if dense else 0.2):
            out.append(rng.choice(CTRL))
        elif r < (0.75 if dense else 0.35):
            out.append(rng.choice(SPACING))
        else:
            out.append(rng.choice(BENIGN))
    return "".join(out)


def _bytes(rng, dense):
    r = rng.random()
    if r < 0.6:
        return _text(rng, dense, 8).encode("utf-8", "surrogateescape")
    if r < 0.8:
        return rng.bytes(rng.randint(0, 24))
    return rng.choice([b'{"k": "v\\u001b[2J", "n": [1, true, null]}', b"<html><b>x\x1b[2J</b><!-- c --></html>",
                       b"a=1&b=%1b%5b2J", b"body { color: red; /* \x1b */ }", b"var x = '\xc2\x9b';\n// c\n", b"", b"\xff\xfe\x9b"])


def _hdrs(rng, dense):
    out = []
    for _ in range(rng.randint(0, 3)):
        k = rng.choice([b"x-a", b" lead", b"Set-Cookie", b"\x1b[2J", b"n\x9b", b"k\r\n", b"\xc2\x9b", b"'q'", b"b\\"])
        if rng.chance(0.3):
            k = _text(rng, dense, 3).encode("utf-8", "surrogateescape")
        v = _text(rng, dense, 4).encode("utf-8", "surrogateescape") if rng.chance(0.7) else rng.bytes(rng.randint(0, 8))
        out.append([hx(k), hx(v)])
    return out


def _addr(rng, dense):
    r = rng.random()
    if r < 0.5:
        return [rng.choice(["127.0.0.1", "::1", "0.0.0.0", "::ffff:10.0.0.1", "2001:db8::1", "example.com"]), rng.randint(1, 65535)]
    return ["h" + _text(rng, dense, 3), rng.randint(1, 65535)]


def _msg(rng, dense):
    return {"content": hx(_bytes(rng, dense)), "from_client": rng.chance(0.5), "text": rng.chance(0.5)}


def _base(rng):
    return {"detail": rng.weighted([(1, 0), (5, 1), (4, 2), (6, 3), (5, 4)]), "vt": rng.chance(0.5),
            "cutoff": rng.randint(1, 6), "showhost": rng.chance(0.3), "view": rng.choice(VIEWS)}


def _http(rng, dense):
    c = _base(rng)
    c["k"] = "http"
    c["hook"] = rng.choice(["response", "error", "http_connect_error"])
    c["replay"] = rng.weighted([(8, None), (1, "request"), (1, "response")])
    c["peer"] = _addr(rng, dense) if rng.chance(0.9) else None
    c["pushed"] = rng.chance(0.1)
    c["method"] = rng.choice(["GET", "get", "DELETE", "POST", "Delete"]) if rng.chance(0.5) else _text(rng, dense, 3)
    c["path"] = "/" + _text(rng, dense, 5) + ("y" * rng.randint(40, 90) if rng.chance(0.2) else "")
    c["host"] = rng.choice(["example.com", "address", "10.0.0.1"])
    c["hosthdr"] = _text(rng, dense, 3) if rng.chance(0.3) else None
    c["req_ver"] = rng.choice(VERSIONS) if rng.chance(0.8) else "HTTP/" + _text(rng, dense, 2)
    c["req_headers"] = _hdrs(rng, dense)
    c["req_ctype"] = rng.choice(CTYPES)
    c["req_content"] = hx(_bytes(rng, dense)) if rng.chance(0.85) else None
    c["req_trailers"] = _hdrs(rng, dense) if rng.chance(0.25) else None
    if rng.chance(0.75):
        c["resp"] = {"code": rng.choice([200, 204, 301, 404, 418, 500, 99, 600, 999, 0, rng.randint(0, 999)]),
                     "reason": rng.choice(["OK", "Not Found", ""]) if rng.chance(0.4)
                     else _text(rng, dense, 3).encode("latin-1", "ignore").decode("latin-1"),
                     "ver": rng.choice(VERSIONS) if rng.chance(0.8) else "HTTP/" + _text(rng, dense, 2),
                     "headers": _hdrs(rng, dense), "ctype": rng.choice(CTYPES),
                     "content": hx(_bytes(rng, dense)) if rng.chance(0.85) else None,
                     "trailers": _hdrs(rng, dense) if rng.chance(0.25) else None}
    else:
        c["resp"] = None
    c["err"] = _text(rng, dense, 4) if (c["resp"] is None or rng.chance(0.2)) else None
    return c


def _ws(rng, dense):
    c = _base(rng)
    if rng.chance(0.5):
        c.update(k="wsmsg", peer=_addr(rng, dense), server=_addr(rng, dense), path="/" + _text(rng, dense, 4), msg=_msg(rng, dense))
    else:
        c.update(k="wsend", server=_addr(rng, dense), by_client=rng.chance(0.5),
                 code=rng.choice([1000, 1001, 1005, 1002, 1006, 1011, 4000, 999, 1015, rng.randint(0, 5000)]),
                 reason=_text(rng, dense, 4))
    return c


def _proto(rng, dense):
    c = _base(rng)
    tcp = rng.chance(0.5)
    if rng.chance(0.7):
        c.update(k="protomsg", tcp=tcp, peer=_addr(rng, dense), server=_addr(rng, dense), msg=_msg(rng, dense),
                 quic=[rng.randint(0, 99), rng.randint(0, 99)] if rng.chance(0.3) else None)
        if c["quic"] and rng.chance(0.3):
            c["quic"][rng.below(2)] = None
    else:
        c.update(k="protoerr", tcp=tcp, server=_addr(rng, dense), err=_text(rng, dense, 4))
    return c


def _dns(rng, dense):
    c = _base(rng)
    c.update(replay=rng.weighted([(9, None), (1, "request")]), peer=_addr(rng, dense) if rng.chance(0.9) else None,
             opcode=rng.choice([0, 0, 1, 2, 5, 9]), qtype=rng.choice([1, 1, 28, 16, 5, 65, 999]),
             qname=rng.choice(["dns.google", "example.com"]) if rng.chance(0.3) else "n" + _text(rng, dense, 4))
    if rng.chance(0.7):
        ans = []
        for _ in range(rng.weighted([(2, 0), (4, 1), (3, 2), (1, 3)])):
            t = rng.choice([1, 28, 5, 16, 16, 16, 2, 12, 65, 99])
            if t == 16:
                data = _text(rng, dense, 4).encode("utf-8", "surrogateescape")
            elif t == 1:
                data = rng.bytes(rng.choice([4, 4, 3]))
            elif t == 28:
                data = rng.bytes(rng.choice([16, 16, 5]))
            elif t in (5, 2, 12):
                lab = _text(rng, dense, 2).encode("utf-8", "surrogateescape")[:60]
                data = bytes([len(lab)]) + lab + b"\x03com\x00" if rng.chance(0.8) else rng.bytes(rng.randint(0, 6))
            else:
                data = rng.bytes(rng.randint(0, 10))
            ans.append({"name": "a" + _text(rng, dense, 2), "type": t, "data": hx(data)})
        c.update(k="dnsresp", answers=ans, rcode=rng.choice([0, 2, 3, 5, 23, 4000]))
    else:
        c.update(k="dnserr", err=_text(rng, dense, 4))
    return c


def _unit(rng):
    r = rng.random()
    cps = []
    for _ in range(rng.randint(0, 14)):
        q = rng.random()
        if q < 0.35:
            cps.append(rng.choice([9, 10, 11, 12, 13, 27, 28, 29, 30, 31, 32, 127, 128, 133, 155, 159, 160, 0x1680, 0x2000, 0x200a,
                                   0x200b, 0x2028, 0x2029, 0x202f, 0x205f, 0x3000, 0xfeff, 0]))
        elif q < 0.5:
            cps.append(rng.randint(0, 0xa0))
        elif q < 0.55:
            cps.append(rng.choice([0xd7ff, 0xe002, 0xffff, 0x10000, 0x10ffff, 0xdc80]))
        else:
            cps.append(rng.choice([65, 97, 46, 48, 0xe9]))
    if r < 0.4:
        return {"k": "esc", "t": cps, "ks": rng.chance(0.5)}
    if r < 0.8:
        if rng.chance(0.3):
            cps = [13, 10] * rng.randint(0, 2) + cps + rng.choice([[13], [13, 10], [10, 13], [32], []])
        return {"k": "ind", "t": cps, "n": rng.choice([1, 4, 4, 7])}
    return {"k": "cut", "t": cps + [10] * rng.randint(0, 2), "n": rng.randint(1, 4)}


def gen(rng, n, tier):
    # loading the model's .vo files dominates the cost of a small shard: cut the run into 12 shards (one per worker)
    global SHARD
    SHARD = max(130, -(-int(n * 1.02) // 12))
    out = []
    for _ in range(n):
        r = rng.random()
        dense = rng.chance(0.3)
        if r < 0.15:
            out.append(_unit(rng))
        elif r < 0.55:
            out.append(_http(rng, dense))
        elif r < 0.70:
            out.append(_ws(rng, dense))
        elif r < 0.85:
            out.append(_proto(rng, dense))
        else:
            out.append(_dns(rng, dense))
    return out


# ------------------------------------------------------------------ implementation side
_S = {}
MARK_A, MARK_B = "\ue000", "\ue001"


def setup_impl():
    if _S:
        return
    import mitmproxy_rs
    from mitmproxy import contentviews, dns, http
    from mitmproxy.addons import dumper
    from mitmproxy.contrib import click as miniclick
    from mitmproxy.net.dns import response_codes
    from mitmproxy.net.http import status_codes
    from mitmproxy.test import taddons, tflow
    from mitmproxy.utils import human, strutils
    from mitmproxy.websocket import WebSocketMessage
    from wsproto.frame_protocol import CloseReason, Opcode

    for cp in range(0x110000):
        up = chr(cp).upper()
        if cp >= 128 and up and (up in "GET" or up in "DELETE"):
            raise AssertionError(f"str.upper assumption broken by U+{cp:04X}")
    _S.update(dumper=dumper, dns=dns, http=http, tflow=tflow, human=human, strutils=strutils, contentviews=contentviews,
              status_codes=status_codes, response_codes=response_codes, WebSocketMessage=WebSocketMessage,
              CloseReason=CloseReason, Opcode=Opcode, miniclick=miniclick, log=[], mark=False)
    d = dumper.Dumper(io.StringIO())
    tctx = taddons.context(d)
    tctx.__enter__()
    _S.update(d=d, tctx=tctx)

    real_esc = strutils.escape_control_characters
    real_pm = contentviews.prettify_message
    real_hl = mitmproxy_rs.syntax_highlight.highlight
    real_style = miniclick.style

    def esc(text, keep_spacing=True):
        r = real_esc(text, keep_spacing)
        if sys._getframe(1).f_code.co_name == "prettify_message":
            _S["last_filter"] = text
        return r

    def pm(*a, **kw):
        _S["last_filter"] = None
        r = real_pm(*a, **kw)
        _S["log"].append({"raw": _S["last_filter"], "text": r.text, "chunks": []})
        return r

    def hl(text, language):
        r = real_hl(text, language)
        _S["log"][-1]["chunks"] = [[t, c] for t, c in r]
        return r

    def style(text, **kw):
        r = real_style(text, **kw)
        if not _S["mark"]:
            return r
        t = text if isinstance(text, str) else str(text)
        i = len(r) - 4 - len(t)
        m = re.fullmatch(r"((?:\x1b\[\d+m)*)", r[:i]) if i >= 0 else None
        if m is None or r[i:] != t + "\x1b[0m":
            return r  # cannot attribute: leave unmarked, the oracle will then see the raw ESC
        return MARK_A + r[:i] + MARK_B + t + MARK_A + r[i + len(t):] + MARK_B

    strutils.escape_control_characters = esc
    contentviews.prettify_message = pm
    mitmproxy_rs.syntax_highlight.highlight = hl
    miniclick.style = style


def _mk_headers(pairs):
    return _S["http"].Headers([(unhx(k), unhx(v)) for k, v in pairs])


def _build(case):
    """-> (flow, hook name)"""
    tflow, k = _S["tflow"], case["k"]
    if k == "http":
        f = tflow.tflow(resp=case["resp"] is not None, err=case["err"] is not None)
        rq = f.request
        rq.method = case["method"]
        rq.host = case["host"]
        rq.path = case["path"]
        rq.http_version = case["req_ver"]
        rq.headers = _mk_headers(case["req_headers"])
        if case["hosthdr"] is not None:
            rq.headers.fields = rq.headers.fields + ((b"Host", case["hosthdr"].encode("utf-8", "surrogateescape")),)
        if case["req_ctype"]:
            rq.headers.fields = rq.headers.fields + ((b"content-type", case["req_ctype"].encode()),)
        rq.raw_content = None if case["req_content"] is None else unhx(case["req_content"])
        rq.trailers = None if case["req_trailers"] is None else _mk_headers(case["req_trailers"])
        if case["pushed"]:
            f.metadata["h2-pushed-stream"] = True
        if case["resp"] is not None:
            r, rs = case["resp"], f.response
            rs.status_code = r["code"]
            rs.reason = r["reason"]
            rs.http_version = r["ver"]
            rs.headers = _mk_headers(r["headers"])
            if r["ctype"]:
                rs.headers.fields = rs.headers.fields + ((b"content-type", r["ctype"].encode()),)
            rs.raw_content = None if r["content"] is None else unhx(r["content"])
            rs.trailers = None if r["trailers"] is None else _mk_headers(r["trailers"])
        if case["err"] is not None:
            f.error.msg = case["err"]
        f.is_replay = case["replay"]
        f.client_conn.peername = tuple(case["peer"]) if case["peer"] else None
        return f, case["hook"]
    if k in ("wsmsg", "wsend"):
        f = tflow.twebsocketflow()
        f.server_conn.address = tuple(case["server"])
        if k == "wsmsg":
            f.client_conn.peername = tuple(case["peer"])
            f.request.path = case["path"]
            m = case["msg"]
            f.websocket.messages.append(_S["WebSocketMessage"](_S["Opcode"].TEXT if m["text"] else _S["Opcode"].BINARY,
                                                              m["from_client"], unhx(m["content"])))
            return f, "websocket_message"
        f.websocket.close_code = case["code"]
        f.websocket.close_reason = case["reason"]
        f.websocket.closed_by_client = case["by_client"]
        return f, "websocket_end"
    if k in ("protomsg", "protoerr"):
        f = (tflow.ttcpflow if case["tcp"] else tflow.tudpflow)(err=(k == "protoerr"))
        f.server_conn.address = tuple(case["server"])
        if k == "protoerr":
            f.error.msg = case["err"]
            return f, "tcp_error" if case["tcp"] else "udp_error"
        f.client_conn.peername = tuple(case["peer"])
        m = case["msg"]
        f.messages[-1].content = unhx(m["content"])
        f.messages[-1].from_client = m["from_client"]
        if case["quic"]:
            f.client_conn.tls_version = "QUICv1"
            for key, v in zip(("quic_stream_id_client", "quic_stream_id_server"), case["quic"]):
                if v is not None:
                    f.metadata[key] = v
        return f, "tcp_message" if case["tcp"] else "udp_message"
    dns = _S["dns"]
    f = tflow.tdnsflow(resp=(k == "dnsresp"), err=(k == "dnserr"))
    f.is_replay = case["replay"]
    f.client_conn.peername = tuple(case["peer"]) if case["peer"] else None
    f.request.op_code = case["opcode"]
    f.request.questions[0].type = case["qtype"]
    f.request.questions[0].name = case["qname"]
    if k == "dnsresp":
        f.response.response_code = case["rcode"]
        f.response.answers = [dns.ResourceRecord(a["name"], a["type"], 1, 60, unhx(a["data"])) for a in case["answers"]]
        return f, "dns_response"
    f.error.msg = case["err"]
    return f, "dns_error"


def _run_hook(case, vt, mark):
    d, tctx = _S["d"], _S["tctx"]
    f, hook = _build(case)
    tctx.configure(d, flow_detail=case["detail"], showhost=case["showhost"], content_view_lines_cutoff=case["cutoff"],
                   dumper_default_contentview=case["view"])
    d.outfp = io.StringIO()
    d.out_has_vt_codes = vt
    _S["log"] = []
    _S["mark"] = mark
    raised = None
    try:
        getattr(d, hook)(f)
    except UnicodeEncodeError as e:
        # mitmproxy_rs.syntax_highlight.highlight rejects lone surrogates (css view decodes with surrogateescape):
        # the hook raises after having printed part of its output. Not a C49 matter; recorded and excluded from
        # the correspondence, the oracle still inspects what was written.
        raised = type(e).__name__
    finally:
        _S["mark"] = False
    return f, d.outfp.getvalue(), raised


def _cps(s):
    return [ord(c) for c in s]


def _client(f):
    if f.is_replay == "request":
        return {"c": "replay"}
    if f.client_conn.peername:
        return {"c": "peer", "addr": _cps(_S["human"].format_address(f.client_conn.peername))}
    return {"c": "none"}


def _pmsgs():
    out = []
    for e in _S["log"]:
        out.append({"raw": None if e["raw"] is None else _cps(e["raw"]), "text": _cps(e["text"]),
                    "chunks": [[t, _cps(c)] for t, c in e["chunks"]]})
    return out


def _inputs(case, f):
    """Read the model inputs from the flow with the accessors the dumper uses."""
    human, k = _S["human"], case["k"]
    fa = human.format_address
    pm = _pmsgs()
    nopm = {"raw": [], "text": [], "chunks": []}
    if k == "http":
        rq = f.request
        inp = {"client": _client(f), "method": _cps(rq.method), "url": _cps(rq.pretty_url if case["showhost"] else rq.url),
               "req_ver": _cps(rq.http_version), "req_headers": [[hx(a), hx(b)] for a, b in rq.headers.fields],
               "req_trailers": None if rq.trailers is None else [[hx(a), hx(b)] for a, b in rq.trailers.fields],
               "term_limit": max(shutil.get_terminal_size()[0] - 25, 50)}
        want = case["detail"] >= 3
        inp["req_msg"] = pm.pop(0) if (want and pm) else nopm
        if f.response:
            rs = f.response
            inp["resp"] = {"code": rs.status_code, "reason": _cps(rs.reason),
                           "reason_tbl": _cps(_S["status_codes"].RESPONSES.get(rs.status_code, "")),
                           "size": None if rs.raw_content is None else _cps(human.pretty_size(len(rs.raw_content))),
                           "ver": _cps(rs.http_version), "headers": [[hx(a), hx(b)] for a, b in rs.headers.fields],
                           "trailers": None if rs.trailers is None else [[hx(a), hx(b)] for a, b in rs.trailers.fields],
                           "addr_len": len(fa(f.client_conn.peername)), "msg": pm.pop(0) if (want and pm) else nopm}
        else:
            inp["resp"] = None
        inp["err"] = _cps(f.error.msg) if f.error else None
        return inp
    if k == "wsmsg":
        m = f.websocket.messages[-1]
        return {"client": _cps(fa(f.client_conn.peername)), "server": _cps(fa(f.server_conn.address)), "path": _cps(f.request.path),
                "from_client": m.from_client, "is_text": m.type.name.lower() == "text", "msg": pm.pop(0) if pm else nopm}
    if k == "wsend":
        try:
            name = _cps(_S["CloseReason"](f.websocket.close_code).name)
        except ValueError:
            name = None
        return {"code": f.websocket.close_code, "name": name, "by_client": bool(f.websocket.closed_by_client),
                "reason": _cps(f.websocket.close_reason), "server": _cps(fa(f.server_conn.address))}
    if k == "protoerr":
        return {"server": _cps(fa(f.server_conn.address)), "msg": _cps(str(f.error))}
    if k == "protomsg":
        q = None
        if f.client_conn.tls_version == "QUICv1":
            q = [_cps(str(f.metadata.get("quic_stream_id_client", ""))), _cps(str(f.metadata.get("quic_stream_id_server", "")))]
        return {"client": _cps(fa(f.client_conn.peername)), "server": _cps(fa(f.server_conn.address)),
                "from_client": f.messages[-1].from_client, "quic": q, "msg": pm.pop(0) if pm else nopm}
    dns = _S["dns"]
    inp = {"client": _client(f), "opcode": _cps(dns.op_codes.to_str(f.request.op_code)),
           "qtype": _cps(dns.types.to_str(f.request.questions[0].type)), "qname": _cps(f.request.questions[0].name)}
    if k == "dnsresp":
        inp["answers"] = [_cps(str(x)) for x in f.response.answers]
        inp["rcode"] = _cps(_S["response_codes"].to_str(f.response.response_code))
    else:
        inp["msg"] = _cps(f.error.msg)
    return inp


def run_impl(case):
    k = case["k"]
    st = _S["strutils"]
    if k == "esc":
        return {"out": _cps(st.escape_control_characters("".join(map(chr, case["t"])), case["ks"]))}
    if k == "ind":
        return {"out": _cps(_S["dumper"].indent(case["n"], "".join(map(chr, case["t"]))))}
    if k == "cut":
        return {"out": _cps(st.cut_after_n_lines("".join(map(chr, case["t"])), case["n"]))}
    f, out, raised = _run_hook(case, case["vt"], False)
    obs = {"out": _cps(out), "inp": None if raised else _inputs(case, f), "raised": raised}
    if case["vt"]:
        _, marked, _r = _run_hook(case, True, True)
        obs["marked"] = _cps(marked)
    return obs


# ------------------------------------------------------------------ Coq printing
def ctext(cps):
    if not cps:
        return "(@nil N)"
    return "[" + ";".join(str(c) for c in cps) + "]"


def chdrs(hs):
    return clist((f"({cbytes(unhx(a))}, {cbytes(unhx(b))})" for a, b in hs), "hdr")


def cpm(m):
    raw = copt(m["raw"], ctext, "text")
    chunks = clist((f"({(TAGS.index(t) + 1) if t in TAGS else 0}, {ctext(c)})" for t, c in m["chunks"]), "(N * text)")
    return f"(Build_pmsg {raw} {chunks})"


def cclient(c):
    return {"replay": "CReplay", "none": "CNone"}.get(c["c"]) or f"(CPeer {ctext(c['addr'])})"


def copts(case, inp=None):
    tl = (inp or {}).get("term_limit", 55)
    return f"(Build_opts {case['detail']} {cbool(case['vt'])} {case['cutoff']}%nat {tl})"


def coq_case(case, obs):
    if obs is None or "out" not in obs:
        return None
    k, out = case["k"], ctext(obs["out"])
    if k == "esc":
        return f"KEsc {ctext(case['t'])} {cbool(case['ks'])} {out}"
    if k == "ind":
        return f"KInd {case['n']}%nat {ctext(case['t'])} {out}"
    if k == "cut":
        return f"KCut {ctext(case['t'])} {case['n']}%nat {out}"
    if obs["raised"]:
        return None
    i, o = obs["inp"], copts(case, obs["inp"])
    if k == "http":
        rq = (f"(Build_req {cclient(i['client'])} {cbool(case['pushed'])} {ctext(i['method'])} {ctext(i['url'])} {ctext(i['req_ver'])} "
              f"{chdrs(i['req_headers'])} {cpm(i['req_msg'])} {copt(i['req_trailers'], chdrs, '(list hdr)')})")
        r = i["resp"]
        rs = "(@None resp)"
        if r is not None:
            rs = (f"(Some (Build_resp {cbool(case['replay'] == 'response')} {r['code']} {ctext(r['reason'])} {ctext(r['reason_tbl'])} "
                  f"{copt(r['size'], ctext, 'text')} {ctext(r['ver'])} {chdrs(r['headers'])} {cpm(r['msg'])} "
                  f"{copt(r['trailers'], chdrs, '(list hdr)')} {r['addr_len']}))")
        return f"KHttp {o} {rq} {rs} {copt(i['err'], ctext, 'text')} {out}"
    if k == "wsmsg":
        return (f"KWsMsg {o} {ctext(i['client'])} {ctext(i['server'])} {ctext(i['path'])} {cbool(i['from_client'])} "
                f"{cbool(i['is_text'])} {cpm(i['msg'])} {out}")
    if k == "wsend":
        return (f"KWsEnd {o} {i['code']} {copt(i['name'], ctext, 'text')} {cbool(i['by_client'])} {ctext(i['reason'])} "
                f"{ctext(i['server'])} {out}")
    if k == "protoerr":
        return f"KProtoErr {o} {cbool(case['tcp'])} {ctext(i['server'])} {ctext(i['msg'])} {out}"
    if k == "protomsg":
        q = copt(i["quic"], lambda q: f"({ctext(q[0])}, {ctext(q[1])})", "(text * text)")
        return (f"KProtoMsg {o} {cbool(case['tcp'])} {cbool(i['from_client'])} {ctext(i['client'])} {ctext(i['server'])} {q} "
                f"{cpm(i['msg'])} {out}")
    if k == "dnsresp":
        return (f"KDnsResp {o} {cclient(i['client'])} {ctext(i['opcode'])} {ctext(i['qtype'])} {ctext(i['qname'])} "
                f"{clist((ctext(a) for a in i['answers']), 'text')} {ctext(i['rcode'])} {out}")
    return (f"KDnsErr {o} {cclient(i['client'])} {ctext(i['opcode'])} {ctext(i['qtype'])} {ctext(i['qname'])} "
            f"{ctext(i['msg'])} {out}")


# ------------------------------------------------------------------ oracle
def _is_cc(o):
    return o < 32 or o == 127 or 128 <= o <= 159


def _bad(cps, keep=(9, 10, 13)):
    return [o for o in cps if _is_cc(o) and o not in keep]


_OWN = re.compile(r"(?:\x1b\[\d+m)*\Z")


def oracle(case, obs):
    """The property on the text the real Dumper wrote: no Cc character other than TAB/LF/CR, apart from the
    styling sequences it added itself (delimited by the marking wrapper around click's style())."""
    if obs is None or "out" not in obs:
        return [{"key": "harness-error", "what": f"implementation raised: {obs}"}]
    k = case["k"]
    if k == "esc":
        b = _bad(obs["out"], (9, 10, 13) if case["ks"] else ())
        if b:
            c1 = all(128 <= o <= 159 for o in b)
            return [{"key": "c1-controls" if c1 else "escape-control-characters",
                     "what": f"escape_control_characters({case['t']}, {case['ks']}) keeps U+{b[0]:04X}"}]
        return []
    if k in ("ind", "cut"):
        return []
    out = "".join(map(chr, obs["out"]))
    v = []
    if case["vt"]:
        marked = "".join(map(chr, obs["marked"]))
        if marked.replace(MARK_A, "").replace(MARK_B, "") != out:
            return [{"key": "marking-run-differs", "what": "second run with marked styling sequences printed different text"}]
        data, pos = [], 0
        for m in re.finditer(MARK_A + "(.*?)" + MARK_B, marked, re.S):
            data.append(marked[pos:m.start()])
            if not _OWN.match(m.group(1)):
                v.append({"key": "style-sequence", "what": f"styling added {m.group(1)!r}"})
            pos = m.end()
        data.append(marked[pos:])
        text = "".join(data)
    else:
        text = out
    b = _bad(_cps(text))
    if b:
        only_c1 = all(128 <= o <= 159 for o in b)
        line = next(l for l in text.split("\n") if _bad(_cps(l)))
        key = "c1-controls" if only_c1 else f"unescaped-{k}"
        v.append({"key": key, "what": f"{k} flow, flow_detail={case['detail']}, styled={case['vt']}: output line {line[:80]!r} "
                                      f"contains U+{b[0]:04X}"})
    return v


def _has_cc(case):
    def walk(x):
        if isinstance(x, str):
            if any(_is_cc(ord(c)) and c not in "\t\n\r" for c in x):
                return True
            if len(x) % 2 == 0 and re.fullmatch(r"(?:[0-9a-f]{2})+", x):
                return any(_is_cc(b) and b not in (9, 10, 13) for b in unhx(x))
            return False
        if isinstance(x, dict):
            return any(walk(v) for v in x.values())
        if isinstance(x, list):
            return any(walk(v) if not isinstance(v, int) else False for v in x)
        return False
    if case["k"] in ("esc", "ind", "cut"):
        return any(_is_cc(o) and o not in (9, 10, 13) for o in case["t"])
    return walk(case)


def nontrivial(case, obs):
    return bool(obs and obs.get("out")) and _has_cc(case)


def classify(case, obs):
    k = case["k"]
    tags = [k]
    if k in ("esc", "ind", "cut"):
        return tags
    tags += [f"detail={case['detail']}", "styled" if case["vt"] else "plain", "cc-in-input" if _has_cc(case) else "benign"]
    if obs and obs.get("raised"):
        tags.append("hook-raised-" + obs["raised"])
    if obs and obs.get("inp"):
        i = obs["inp"]
        if k == "http":
            tags.append("resp" if i["resp"] else "no-resp")
            if i["err"] is not None:
                tags.append("err")
            ms = [i["req_msg"]] + ([i["resp"]["msg"]] if i["resp"] else [])
        else:
            ms = [i["msg"]] if isinstance(i.get("msg"), dict) else []
        for m in ms:
            if m["chunks"]:
                tags.append("highlighted")
                if any(t in TAGS for t, _ in m["chunks"]):
                    tags.append("styled-chunks")
            if m["raw"] is None and m["text"]:
                tags.append("content-missing")
        if obs["out"] and len(obs["out"]) == 0:
            tags.append("silent")
    return sorted(set(tags))
