"""C39 — Stream saving writes each completed flow once and keeps open flows at shutdown
(mitmproxy/addons/save.py: Save; mitmproxy/io/io.py: FilteredFlowWriter)."""
import logging
import os
import shutil

from lib.coqterm import cbool, clist, cN, copt

ID = "C39"
QUICK_N = 1200
THOROUGH_N = 6000
SHARD = 125
TRANSLATORS = ["save_hooks"]
COQ_PRELUDE = "From MV Require Import Model.SavePrelude Model.Save.\nOpen Scope N_scope.\n"
RULE = ("1-5 concurrent flows (HTTP, HTTP+WebSocket, TCP, UDP, DNS; marked or not). 70% structured: per-flow lifecycle "
        "scripts (start, completion by response/end or by error, sometimes both, sometimes left open, sometimes replayed) "
        "randomly interleaved, with save_stream_file set at or near the start (overwrite or + append, two files), 0-3 later "
        "option changes (filter trees over ~http ~tcp ~udp ~dns ~websocket ~marked ~e ~s ~q with ! & |, switch file, unset, "
        "re-set, invalid filter, a directory as path, empty strings) and shutdown (done), unset or nothing at the end. 30% "
        "adversarial: hooks of the flow's type in arbitrary order (completion before start, repeated completions), option "
        "changes and done anywhere. Thorough adds every sequence of 4 events over 7 (request/response of an HTTP flow, "
        "start/error of a TCP flow, unset, re-set in append mode, filter change) between setting the file and shutdown. Non-trivial = at least one record was written and at least two flows took part; "
        "distinct by canonical JSON.")
TRUSTED = ["Coq 8.16.1 kernel (coqc), vm_compute for case evaluation",
           "translator harness/translators/save_hooks.py (fail-closed ast walk of class Save; exact shape check of configure, "
           "__init__, the non-translated statements of save_flow / maybe_rotate_to_new_file and of FilteredFlowWriter)",
           "hand model (coq/Model/Save.v) of configure / optmanager rollback / maybe_rotate_to_new_file / FilteredFlowWriter.add "
           "and of the nine flowfilter atoms used, tied by correspondence after every event",
           "io.FlowReader and flow.get_state/from_state are used to read the files back (flow ids identify records)",
           "harness/props/C39.py generator, environment (sets flow.response / flow.error before the hook) and comparison glue"]
ASSUMPTIONS = ["save_stream_file contains no strftime directives and no ~: the formatted path equals the option value, so the "
               "time-based rotation inside save_flow never fires",
               "hooks are invoked with flows of their declared type; no OSError while writing (save_flow would sys.exit)",
               "the set active_flows is iterated in unspecified order: records appended by one stop are compared as a sorted list",
               "options are changed through optmanager.update (taddons.context.configure), including its rollback on OptionsError"]

KINDS = ["http", "tcp", "udp", "dns"]
HOOKS = {"request": "HRequest", "response": "HResponse", "error": "HError", "websocket_end": "HWebsocketEnd",
         "tcp_start": "HTcpStart", "tcp_end": "HTcpEnd", "tcp_error": "HTcpError",
         "udp_start": "HUdpStart", "udp_end": "HUdpEnd", "udp_error": "HUdpError",
         "dns_request": "HDnsRequest", "dns_response": "HDnsResponse", "dns_error": "HDnsError"}
KIND_HOOKS = {"http": ["request", "response", "error", "websocket_end"],
              "tcp": ["tcp_start", "tcp_end", "tcp_error"],
              "udp": ["udp_start", "udp_end", "udp_error"],
              "dns": ["dns_request", "dns_response", "dns_error"]}
STARTS = {"request", "tcp_start", "udp_start", "dns_request"}
SETS_RESP = {"response", "dns_response"}
SETS_ERR = {"error", "tcp_error", "udp_error", "dns_error"}
ATOMS = {"http": "FHttp", "tcp": "FTcp", "udp": "FUdp", "dns": "FDns", "websocket": "FWebsocket", "marked": "FMarked",
         "e": "FErr", "s": "FResp", "q": "FReq"}
BAD = 2  # path index of the directory


# ------------------------------------------------------------------ generator
def gen_filter(rng, depth=2):
    """mostly or-of-ands-of-literals (needs no parentheses: pyparsing's infix grammar takes ~0.1-0.4 s per
    parenthesised group); 8% arbitrary trees"""
    if rng.chance(0.08):
        return gen_tree(rng, depth)
    lit = lambda: [rng.choice(list(ATOMS))] if rng.chance(0.7) else ["not", [rng.choice(list(ATOMS))]]
    def conj():
        t = lit()
        for _ in range(rng.weighted([(55, 0), (35, 1), (10, 2)])):
            t = ["and", t, lit()]
        return t
    t = conj()
    for _ in range(rng.weighted([(60, 0), (30, 1), (10, 2)])):
        t = ["or", t, conj()]
    return t


def gen_tree(rng, depth):
    r = rng.random()
    if depth == 0 or r < 0.45:
        return [rng.choice(list(ATOMS))]
    if r < 0.65:
        return ["not", gen_tree(rng, depth - 1)]
    return [rng.choice(["and", "or"]), gen_tree(rng, depth - 1), gen_tree(rng, depth - 1)]


def gen_cfg(rng, adversarial):
    """one later option change"""
    k = rng.weighted([(50, "filter"), (14, "switch"), (14, "unset"), (8, "both"), (5, "invalid"), (6, "bad"), (3, "empty")])
    upd = {}
    if k == "filter":
        upd["filter"] = gen_filter(rng) if rng.chance(0.8) else None
    elif k == "switch":
        upd["file"] = [rng.chance(0.5), rng.randint(0, 1)]
    elif k == "unset":
        upd["file"] = None
    elif k == "both":
        upd["file"] = rng.choice([[rng.chance(0.5), rng.randint(0, 1)], None, [False, BAD]])
        upd["filter"] = rng.choice([gen_filter(rng), None, "INVALID"])
    elif k == "invalid":
        upd["filter"] = "INVALID"
    elif k == "bad":
        upd["file"] = [rng.chance(0.3), BAD]
    else:
        if rng.chance(0.5):
            upd["file"] = ""
        else:
            upd["filter"] = ""
    return ["cfg", upd]


def script(rng, fl):
    k = fl["k"]
    if k == "http":
        if fl["ws"]:
            s = rng.weighted([(60, ["request", "response", "websocket_end"]), (25, ["request", "response"]),
                              (10, ["request"]), (5, ["request", "response", "websocket_end", "error"])])
        else:
            s = rng.weighted([(50, ["request", "response"]), (20, ["request", "error"]), (10, ["request", "response", "error"]),
                              (20, ["request"])])
    else:
        a, b, c = KIND_HOOKS[k]
        s = rng.weighted([(55, [a, b]), (25, [a, c]), (20, [a])])
    s = list(s)
    if rng.chance(0.1):
        s = s + s
    return s


def gen_one(rng):
    nfl = rng.weighted([(5, 1), (25, 2), (30, 3), (25, 4), (15, 5)])
    flows = []
    for _ in range(nfl):
        k = rng.weighted([(45, "http"), (20, "tcp"), (15, "udp"), (20, "dns")])
        flows.append({"k": k, "ws": k == "http" and rng.chance(0.35), "m": rng.chance(0.4)})
    evs = []
    if rng.chance(0.7):
        scripts = [[["hook", h, i] for h in script(rng, fl)] for i, fl in enumerate(flows)]
        order = [i for i, s in enumerate(scripts) for _ in s]
        rng.shuffle(order)
        pos = [0] * nfl
        for i in order:
            evs.append(scripts[i][pos[i]])
            pos[i] += 1
        first = {"file": [rng.chance(0.4), rng.randint(0, 1)]}
        if rng.chance(0.4):
            first["filter"] = gen_filter(rng)
        evs.insert(0 if rng.chance(0.8) else rng.randint(0, len(evs)), ["cfg", first])
        for _ in range(rng.weighted([(35, 0), (35, 1), (20, 2), (10, 3)])):
            evs.insert(rng.randint(1, len(evs)), gen_cfg(rng, False))
        end = rng.weighted([(60, "done"), (20, "unset"), (20, "none")])
        if end == "done":
            evs.append(["done"])
        elif end == "unset":
            evs.append(["cfg", {"file": None}])
    else:
        for _ in range(rng.randint(2, 22)):
            r = rng.random()
            if r < 0.68:
                i = rng.below(nfl)
                evs.append(["hook", rng.choice(KIND_HOOKS[flows[i]["k"]]), i])
            elif r < 0.80:
                evs.append(["cfg", {"file": [rng.chance(0.5), rng.randint(0, 1)]}])
            elif r < 0.95:
                evs.append(gen_cfg(rng, True))
            else:
                evs.append(["done"])
    return {"flows": flows, "evs": evs}


def gen(rng, n, tier):
    out = []
    if tier == "thorough":
        # every sequence of 4 events over 7 (two flows, unset / re-set in append mode / filter change), between
        # setting the file and shutdown
        flows = [{"k": "http", "ws": False, "m": False}, {"k": "tcp", "ws": False, "m": True}]
        alpha = [["hook", "request", 0], ["hook", "response", 0], ["hook", "tcp_start", 1], ["hook", "tcp_error", 1],
                 ["cfg", {"file": None}], ["cfg", {"file": [True, 0]}], ["cfg", {"filter": ["tcp"]}]]

        def rec(prefix, depth):
            if depth == 0:
                yield prefix
            else:
                for a in alpha:
                    yield from rec(prefix + [a], depth - 1)
        for seq in rec([], 4):
            out.append({"flows": flows, "evs": [["cfg", {"file": [False, 0]}]] + seq + [["done"]]})
    return out + [gen_one(rng) for _ in range(n)]


# ------------------------------------------------------------------ implementation
def filter_str(t, ctx=1):
    """mitmproxy filter text with the fewest parentheses (precedence ! > & > |); spaces inside parentheses
    because the grammar does not accept an atom directly followed by a closing parenthesis"""
    if t[0] == "or":
        s, p = filter_str(t[1], 1) + " | " + filter_str(t[2], 1), 1
    elif t[0] == "and":
        s, p = filter_str(t[1], 2) + " & " + filter_str(t[2], 2), 2
    elif t[0] == "not":
        s, p = "!" + filter_str(t[1], 4), 3
    else:
        s, p = "~" + t[0], 4
    return s if p >= ctx else "( " + s + " )"


def setup_impl():
    global save, mio, exceptions, flowfilter, taddons, tflow, tutils, mflow, WORK
    from mitmproxy import exceptions, flowfilter  # noqa
    from mitmproxy import flow as mflow  # noqa
    from mitmproxy import io as mio  # noqa
    from mitmproxy.addons import save  # noqa
    from mitmproxy.test import taddons, tflow, tutils  # noqa
    WORK = os.path.join(os.path.dirname(os.path.dirname(os.path.dirname(os.path.abspath(__file__)))), ".work", "C39",
                        f"files-{os.getpid()}")


_PARSED = {}  # filter string -> parsed filter, for evaluating the oracle's match observations only


class _ErrLog(logging.Handler):
    """counts ERROR records (the addon manager logs exceptions that escape an addon hook)"""
    def __init__(self):
        super().__init__(level=logging.ERROR)
        self.n = 0

    def emit(self, record):
        self.n += 1


def make_flow(fi):
    k = fi["k"]
    if k == "http":
        f = tflow.tflow(ws=True) if fi["ws"] else tflow.tflow()
    elif k == "tcp":
        f = tflow.ttcpflow()
    elif k == "udp":
        f = tflow.tudpflow()
    else:
        f = tflow.tdnsflow()
    if fi["m"]:
        f.marked = ":default:"
    return f


def env_pre(f, kind, h):
    """what the proxy core does to the flow before the hook fires"""
    if h in SETS_RESP:
        f.response = tflow.tresp() if kind == "http" else tutils.tdnsresp()
    if h in SETS_ERR:
        f.error = mflow.Error("connection lost")


def read_file(p, idx):
    if not os.path.exists(p):
        return None
    with open(p, "rb") as fh:
        return [idx[x.id] for x in mio.FlowReader(fh).stream()]


def run_impl(case):
    shutil.rmtree(WORK, ignore_errors=True)
    os.makedirs(os.path.join(WORK, "p2"))
    paths = [os.path.join(WORK, f"p{k}") for k in range(3)]
    sa = save.Save()
    steps = []
    errlog = _ErrLog()
    logging.getLogger().addHandler(errlog)
    try:
        with taddons.context(sa) as tctx:
            # the master's own log handler forwards records to an event loop that never runs here
            tctx.master._legacy_log_events.uninstall()
            flows = [make_flow(fi) for fi in case["flows"]]
            idx = {f.id: i for i, f in enumerate(flows)}
            raw_prev, prev = [None, None], [None, None]
            for ev in case["evs"]:
                err = False
                errlog.n = 0
                stopper = ev[0] != "hook"
                if ev[0] == "hook":
                    f = flows[ev[2]]
                    env_pre(f, case["flows"][ev[2]]["k"], ev[1])
                flt = tctx.options.save_stream_filter
                if flt and flt not in _PARSED:
                    _PARSED[flt] = flowfilter.parse(flt)
                pf = _PARSED[flt] if flt else None
                pm = [bool(flowfilter.match(pf, f)) for f in flows]
                if ev[0] == "hook":
                    getattr(sa, ev[1])(flows[ev[2]])
                elif ev[0] == "done":
                    sa.done()
                else:
                    kw = {}
                    if "file" in ev[1]:
                        v = ev[1]["file"]
                        kw["save_stream_file"] = v if v is None or v == "" else ("+" if v[0] else "") + paths[v[1]]
                    if "filter" in ev[1]:
                        v = ev[1]["filter"]
                        kw["save_stream_filter"] = v if v is None or v == "" else ("~~" if v == "INVALID" else filter_str(v))
                    try:
                        tctx.configure(sa, **kw)
                    except exceptions.OptionsError:
                        err = True
                raw = [read_file(paths[0], idx), read_file(paths[1], idx)]
                cur = list(raw)
                # a stop writes the set active_flows in unspecified order: the segment appended by one
                # configure/done call is reported sorted (earlier segments keep their reported order)
                for k in (0, 1):
                    old = raw_prev[k] or []
                    if raw[k] is not None and raw_prev[k] is not None and raw[k][:len(old)] == old:
                        seg = raw[k][len(old):]
                        cur[k] = prev[k] + (sorted(seg) if stopper else seg)
                raw_prev, prev = raw, cur
                steps.append({"err": err, "alog": errlog.n > 0, "open": sa.stream is not None,
                              "active": sorted(idx[f.id] for f in sa.active_flows),
                              "f0": cur[0], "f1": cur[1], "pm": pm,
                              "opt": bool(tctx.options.save_stream_file)})
    finally:
        logging.getLogger().removeHandler(errlog)
        if sa.stream is not None:
            try:
                sa.stream.fo.close()
            except Exception:
                pass
        shutil.rmtree(WORK, ignore_errors=True)
    return {"steps": steps}


# ------------------------------------------------------------------ Coq terms
def cflt(t):
    if t[0] == "not":
        return f"(FNot {cflt(t[1])})"
    if t[0] in ("and", "or"):
        return f"({'FAnd' if t[0] == 'and' else 'FOr'} {cflt(t[1])} {cflt(t[2])})"
    return ATOMS[t[0]]


def cevent(ev):
    if ev[0] == "hook":
        return f"Hook {HOOKS[ev[1]]} {cN(ev[2])}"
    if ev[0] == "done":
        return "Done"
    upd = ev[1]
    uf, ufl = "None", "None"
    if "file" in upd:
        v = upd["file"]
        uf = "(Some (@None (bool * N)))" if v is None or v == "" else f"(Some (Some ({cbool(v[0])}, {cN(v[1])})))"
    if "filter" in upd:
        v = upd["filter"]
        if v is None or v == "":
            ufl = "(Some (@None fspec))"
        elif v == "INVALID":
            ufl = "(Some (Some FSInvalid))"
        else:
            ufl = f"(Some (Some (FSOk {cflt(v)})))"
    return f"Configure {uf} {ufl}"


def coq_case(case, obs):
    kinds = {"http": "KHttp", "tcp": "KTcp", "udp": "KUdp", "dns": "KDns"}
    infos = clist((f"{{| f_kind := {kinds[f['k']]}; f_ws := {cbool(f['ws'])}; f_marked := {cbool(f['m'])} |}}"
                   for f in case["flows"]), "finfo")
    lst = lambda l: clist((cN(x) for x in l), "N")
    steps = []
    for ev, o in zip(case["evs"], obs["steps"]):
        ob = (f"Ob {cbool(o['err'])} {cbool(o['alog'])} {cbool(o['open'])} {lst(o['active'])} "
              f"{copt(o['f0'], lst, '(list N)')} {copt(o['f1'], lst, '(list N)')}")
        steps.append(f"({cevent(ev)}, {ob})")
    return f"Case {infos} {clist(steps, '(event * obs)')}"


# ------------------------------------------------------------------ oracle: the property on the implementation
def is_completion(fi, h):
    if fi["k"] == "http":
        return h == "websocket_end" or (h in ("response", "error") and not fi["ws"])
    return h in ("tcp_end", "tcp_error", "udp_end", "udp_error", "dns_response", "dns_error")


def oracle(case, obs):
    """Evaluated on the files the real addon wrote. Tracks only what the statement names: whether save_stream_file
    is set, which flows started while it was set and have not completed since, and (from the real flowfilter on the
    real flow, obs.pm) whether a flow matches the filter in force when the event happens."""
    out = []
    opt = None           # (append, path) while save_stream_file is set
    opened = set()       # started while saving, not completed / flushed since
    lost = False         # a switch to an unopenable path was rejected while saving was active and the addon
                         # came out of it with save_stream_file set but self.stream gone (the known finding)
    files = [None, None]

    def report(key, what, missing):
        # Once the stream has been lost that way the addon is out of step with its options for the rest of the
        # history (nothing recorded, starts not tracked, completed flows not forgotten, the old path not reopened
        # even by unset + re-set): every later discrepancy in that history belongs to the known finding.
        if lost:
            key, what = "no-records-after-rejected-file-switch", "after a rejected switch to an unopenable path: " + what
        if all(v["key"] != key for v in out):
            out.append({"key": key, "what": what})

    for t, (ev, o) in enumerate(zip(case["evs"], obs["steps"])):
        new = [o["f0"], o["f1"]]
        expect = list(files)
        exp_set = None     # for stops: (path, set of flows) appended in any order
        if ev[0] == "hook":
            h, i = ev[1], ev[2]
            fi = case["flows"][i]
            if opt is not None:
                if is_completion(fi, h):
                    if o["pm"][i]:
                        expect[opt[1]] = (files[opt[1]] or []) + [i]
                    opened.discard(i)
                elif h in STARTS:
                    opened.add(i)
        elif ev[0] == "done" or (not o["err"] and "file" in ev[1] and ev[1]["file"] in (None, "")):
            if opt is not None:
                exp_set = (opt[1], sorted(i for i in opened if o["pm"][i]))
                expect[opt[1]] = (files[opt[1]] or []) + exp_set[1]
                opened.clear()
            opt = None
        elif not o["err"] and "file" in ev[1]:
            app, p = ev[1]["file"]
            if opt is None or opt[1] != p:
                expect[p] = (files[p] or []) if app else []
            opt = (app, p)
        elif o["err"] and "file" in ev[1] and ev[1]["file"] not in (None, "") and ev[1]["file"][1] == BAD and opt is not None:
            if o["opt"] and not o["open"]:
                lost = True
        for k in (0, 1):
            if new[k] == expect[k]:
                continue
            e, n, old = expect[k] or [], new[k] or [], files[k] or []
            if n[:len(old)] != old and e[:len(old)] == old:
                report("file-rewritten", f"event {t} {ev}: file p{k} was {old}, now {n}", False)
            elif len(n) < len(e):
                what = "stop" if exp_set else "completion"
                report(f"{what}-not-written", f"event {t} {ev}: expected records {e[len(old):]} appended to p{k}, found {n[len(old):]}", True)
            else:
                extra = n[len(old):]
                fl = extra[0] if extra else None
                if ev[0] == "hook" and fl is not None and not o["pm"][fl]:
                    key = "nonmatching-written"
                elif ev[0] == "hook" and not is_completion(case["flows"][ev[2]], ev[1]):
                    key = "written-before-completion"
                elif len(set(extra)) < len(extra):
                    key = "duplicate-record"
                else:
                    key = "unexpected-record"
                report(key, f"event {t} {ev}: expected records {e[len(old):]} appended to p{k}, found {extra}", False)
        files = new
        if ev[0] == "done":
            break            # the statement covers the history up to shutdown
    return out


def _written(obs):
    n = 0
    for o in obs["steps"]:
        n = max(n, len(o["f0"] or []) + len(o["f1"] or []))
    return n


def nontrivial(case, obs):
    return len(case["flows"]) >= 2 and _written(obs) >= 1


def classify(case, obs):
    tags = set()
    tags.add(f"flows={len(case['flows'])}")
    for f in case["flows"]:
        tags.add("kind=" + ("ws" if f["ws"] else f["k"]))
    prev = [None, None]
    was_done = False
    for ev, o in zip(case["evs"], obs["steps"]):
        cur = [o["f0"], o["f1"]]
        grew = sum(len(cur[k] or []) - len(prev[k] or []) for k in (0, 1))
        if was_done:
            tags.add("events-after-done")
        if ev[0] == "hook":
            if grew > 0:
                tags.add("completion-written")
            elif o["open"] and not all(o["pm"]) and ev[1] not in STARTS:
                tags.add("filter-excludes")
        elif ev[0] == "done":
            was_done = True
            tags.add("done-flush" if grew > 0 else "done-empty")
        else:
            if o["err"]:
                tags.add("rejected-" + ("path" if "file" in ev[1] and ev[1]["file"] not in (None, "") and ev[1]["file"][1] == BAD else "filter"))
            elif "file" in ev[1] and ev[1]["file"] in (None, ""):
                tags.add("unset-flush" if grew > 0 else "unset-empty")
            elif "file" in ev[1]:
                if any(prev[k] and cur[k] == [] for k in (0, 1)):
                    tags.add("reopen-truncates")
                elif ev[1]["file"][0] and prev[ev[1]["file"][1]]:
                    tags.add("reopen-appends")
            if "filter" in ev[1] and not o["err"]:
                tags.add("filter-change")
        prev = cur
    tags.add("written=" + str(min(_written(obs), 6)))
    return sorted(tags)
