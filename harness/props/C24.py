"""C24 — Upstream credentials are only sent to the upstream proxy or reverse target
(mitmproxy/addons/upstream_auth.py, proxy/layers/http/_upstream_proxy.py, HttpLayer.get_connection)."""
import base64
import ssl

from lib.coqterm import cN, cbool, cbytes, clist, copt, cpair

ID = "C24"
QUICK_N = 1100
THOROUGH_N = 5500
SHARD = 150
COQ_PRELUDE = "From MV Require Import Model.UpstreamAuth.\n"
RULE = ("12% option strings for parse_upstream_auth (colon in every position, LF before the colon, non-ASCII, astral, lone "
        "surrogates, empty); 88% sessions: 1-2 client connections sharing ONE real UpstreamAuth instance, each opened in "
        "regular / upstream:http / upstream:https / reverse:http / reverse:https / transparent / socks5 mode (the last two "
        "with or without client TLS), then 1-7 interleaved steps: requests in absolute form (http and https targets, two "
        "hosts, default and explicit ports) or origin form (with/without Host), CONNECT followed by plain HTTP or by a real "
        "TLS handshake inside the tunnel, the upstream proxy refusing a CONNECT (407/502), a server closing a connection "
        "(forcing a new connection and a new CONNECT), the option upstream_auth being set / unset / changed / given an invalid "
        "value at run time between any two steps (real options update -> configure hook), a client disconnecting; 10% of the "
        "sessions are the late-configure shape (CONNECT accepted with the option unset or different, option set, requests in "
        "the still-open tunnel). Client headers come from a dictionary of Proxy-Authorization / "
        "Authorization spellings (duplicates, other users' credentials, near-misses of the configured one) and neutral "
        "headers. upstream_auth is configured in ~85% of the sessions; http_connect_send_host_header and "
        "connection_strategy vary. The real mode layers, the real NextLayer addon and real TLS layers run under "
        "lib/sansio.py; every server connection is terminated by an in-memory peer (TLS to the proxy, CONNECT, TLS to the "
        "origin) that records the plaintext it receives at every nesting level. Non-trivial = at least one head reached a "
        "server while a credential was configured (or a parse case containing a colon); distinct by canonical JSON.")
TRUSTED = ["Coq 8.16.1 kernel; vm_compute for case evaluation",
           "hand model (coq/Model/UpstreamAuth.v) of UpstreamAuth, HttpUpstreamProxy.start_handshake and the routing part of "
           "HttpLayer (destination rule, CONNECT handling, get_connection reuse / context connection / send_connect); tied by "
           "correspondence only",
           "CPython re (.+:), str.encode(utf8) and base64.b64encode are modelled by hand; tied by correspondence",
           "str.lower maps no non-ASCII character to an ASCII letter of the two header names (checked for every code point "
           "at start-up), so Headers key folding is ASCII folding on these names",
           "harness/props/C24.py: the in-memory peers (python ssl over MemoryBIO with mitmproxy's test certificates), the "
           "original destination of transparent mode given directly (no OS lookup), tls_start_* hooks answered like "
           "test_tls.py does, tls_clienthello like TlsConfig does; lib/sansio.py plays proxy/server.py"]
ASSUMPTIONS = ["one request in flight per client connection (HTTP/1, no pipelining), OpenConnection succeeds; so no server "
               "connection is in the waiting or error state when get_connection runs",
               "no other addon rewrites headers, redirects requests or answers CONNECT",
               "HTTP/1 clients: a successful CONNECT turns the whole client connection into a tunnel (the repaired addon "
               "tracks tunnels per client connection; with HTTP/2 clients it would withhold the header on sibling streams)",
               "client connection ids are not reused while in UpstreamAuth.tunnelled (WeakSet of live objects)",
               "the client does not itself send the configured credential"]

CERTS = "/test/mitmproxy/net/data/verificationcerts/"
PROXY = ("up.example", 3128)
HOSTS = ["e.com", "f.org"]
AUTHS = ["user:secret", "alice:pa:ss", "someuser:", "bob:über-geheim", "x y:z" * 3]
HDR_NAMES = [b"Proxy-Authorization", b"proxy-authorization", b"PROXY-AUTHORIZATION", b"Authorization", b"authorization",
             b"AUTHORIZATION", b"X-Test", b"Accept", b"Proxy-Authorizatio", b"Proxy-Authorization-X", b"Cookie", b"X-Authorization"]
HDR_VALUES = [b"Basic Y2xpZW50OnB3", b"Bearer abc.def", b"x", b"Basic", b"basic dXNlcjpzZWNyZXQ", b"Basic dXNlcjpzZWNyZXR=",
              b"Digest username=u", b"*/*", b"a=b", b"Basic Ym9iOmJvYg=="]
MODES = ["regular", "upstream", "upstreams", "reverse", "reverses", "transparent", "socks5"]


# ------------------------------------------------------------------ generator
def _gen_parse(rng):
    toks = [":", ":", "u", "p", "\n", "\n:", "a\n", " ", "ü", "€", "\U0001f600", "\ud800", "\udfff", "::", "user", "pw", "\r", "\x00"]
    s = "".join(rng.choice(toks) for _ in range(rng.randint(0, 6)))
    if rng.chance(0.45):
        s = rng.choice(["user", "ü", "a b", "\U0001f600x", "u\n", "\n"]) + ":" + s
    return {"k": "parse", "auth": [ord(c) for c in s]}


def _gen_hdrs(rng):
    out = []
    for _ in range(rng.choice([0, 0, 1, 1, 2, 3])):
        out.append([rng.choice(HDR_NAMES).hex(), rng.choice(HDR_VALUES).hex()])
    return out


def _gen_req(rng, c):
    form = "abs" if rng.chance(0.7) else "origin"
    host = rng.choice(HOSTS)
    https = rng.chance(0.3)
    port = rng.choice([None, None, 8080, 8080 if not https else 8443])
    hh = rng.choice([None, host, host, host, host, host + ":81", host + ":81"]) if form == "origin" else host
    return {"c": c, "t": "req", "form": form, "https": https, "host": host, "port": port, "hosthdr": hh,
            "hdrs": _gen_hdrs(rng), "proxy_ok": not rng.chance(0.07)}


INVALID_AUTHS = ["", "nocolon", ":x", "\n:p", ":"]


def _gen_conf(rng):
    r = rng.random()
    return {"t": "configure", "auth": rng.choice(AUTHS) if r < 0.6 else (None if r < 0.85 else rng.choice(INVALID_AUTHS))}


def _all_steps(case):
    """the initial option value is a configure step before the first client connects"""
    return ([{"t": "configure", "auth": case["auth"]}] if case["auth"] is not None else []) + case["steps"]


def _gen_session(rng, tier):
    nconn = 1 if rng.chance(0.7) else 2
    auth = rng.choice(AUTHS) if rng.chance(0.85) else None
    case = {"k": "session", "auth": auth, "send_host": not rng.chance(0.25), "eager": not rng.chance(0.3), "steps": []}
    steps = case["steps"]
    focus = rng.choice(MODES + ["upstream", "upstream", "reverse"])
    tun, used, modes_ = {}, {}, {}
    for c in range(nconn):
        mode = focus if rng.chance(0.7) else rng.choice(MODES)
        st = {"c": c, "t": "open", "mode": mode}
        if mode in ("reverse", "reverses", "transparent", "socks5"):
            st["dst"] = [rng.choice(["srv.example", "e.com"]), rng.choice([80, 443, 8000])]
            st["tls"] = (mode == "reverses") if mode.startswith("reverse") else rng.chance(0.35)
        steps.append(st)
        tun[c] = False
        modes_[c] = mode
        used[c] = not (mode == "reverses" and case["eager"])
    if rng.chance(0.10):
        # the option is set only after a tunnel was accepted (round-2 seeded change): CONNECT with upstream_auth unset or
        # different, configure, then requests inside the still-open tunnel
        case["auth"] = rng.choice([None, None, rng.choice(AUTHS)])
        steps[1:] = []
        steps[0] = {"c": 0, "t": "open", "mode": rng.choice(["upstream", "upstream", "upstreams"])}
        if rng.chance(0.3):
            steps.append(_gen_req(rng, 0))
        steps.append({"c": 0, "t": "connect", "host": rng.choice(HOSTS), "port": rng.choice([80, 443, 8080]),
                      "tls": rng.chance(0.25), "proxy_ok": True})
        steps.append({"t": "configure", "auth": rng.choice(AUTHS)})
        for _ in range(rng.randint(1, 3)):
            steps.append(_gen_req(rng, 0))
            if rng.chance(0.2):
                steps.append(_gen_conf(rng))
        return case
    for _ in range(rng.randint(1, 7)):
        c = rng.randint(0, nconn - 1)
        r = rng.random()
        if r > 0.90:
            steps.append(_gen_conf(rng))
        elif r > 0.87:
            steps.append({"c": c, "t": "close"})
        elif r < 0.22 and not tun[c] and (modes_[c] in ("regular", "upstream", "upstreams") or rng.chance(0.12)):
            steps.append({"c": c, "t": "connect", "host": rng.choice(HOSTS), "port": rng.choice([80, 443, 8080]),
                          "tls": rng.chance(0.45), "proxy_ok": not rng.chance(0.1)})
            tun[c] = True
        elif r < 0.32 and used[c]:
            # (not modelled, not generated: a reverse:https target closing the eagerly opened connection before the first
            # client byte -- server TLS has not started yet, the first request is answered 502 and the client is closed)
            steps.append({"c": c, "t": "srvclose", "ord": rng.randint(1, 3)})
        else:
            steps.append(_gen_req(rng, c))
            used[c] = True
    return case


def gen(rng, n, tier):
    out = []
    for _ in range(n):
        out.append(_gen_parse(rng) if rng.chance(0.12) else _gen_session(rng, tier))
    return out


# ------------------------------------------------------------------ implementation
def setup_impl():
    global upstream_auth, next_layer, modes, layer_mod, ProxyMode, taddons, Driver, SSL, exceptions, FIXED, REPO
    import os
    from OpenSSL import SSL
    import mitmproxy
    from mitmproxy import exceptions
    from mitmproxy.addons import next_layer, upstream_auth
    from mitmproxy.proxy import layer as layer_mod
    from mitmproxy.proxy.layers import modes
    from mitmproxy.proxy.mode_specs import ProxyMode
    from mitmproxy.test import taddons
    from lib.sansio import Driver
    REPO = os.path.dirname(os.path.dirname(os.path.abspath(mitmproxy.__file__)))
    FIXED = hasattr(upstream_auth.UpstreamAuth, "http_connected")
    letters = set("proxy-authorization")
    bad = [c for c in range(128, 0x110000) if set(chr(c).lower()) <= letters]
    assert not bad, f"non-ASCII characters lower into header-name letters: {bad[:5]}"


class _Tls:
    """in-memory TLS endpoint (python ssl): wire bytes in -> plaintext out"""

    def __init__(self, server_side, sni=None):
        if server_side:
            c = ssl.SSLContext(ssl.PROTOCOL_TLS_SERVER)
            c.load_cert_chain(REPO + CERTS + "trusted-leaf.crt", REPO + CERTS + "trusted-leaf.key")
        else:
            c = ssl.SSLContext(ssl.PROTOCOL_TLS_CLIENT)
            c.check_hostname = False
            c.verify_mode = ssl.CERT_NONE
        self.i, self.o = ssl.MemoryBIO(), ssl.MemoryBIO()
        self.obj = c.wrap_bio(self.i, self.o, server_side=server_side, server_hostname=sni)
        self.done = False

    def feed(self, data):
        self.i.write(data)
        out = b""
        if not self.done:
            try:
                self.obj.do_handshake()
                self.done = True
            except ssl.SSLWantReadError:
                return b""
        while True:
            try:
                chunk = self.obj.read(65536)
            except (ssl.SSLWantReadError, ssl.SSLZeroReturnError):
                break
            if not chunk:
                break
            out += chunk
        return out

    def start(self):
        try:
            self.obj.do_handshake()
        except ssl.SSLWantReadError:
            pass

    def write(self, data):
        if data:
            self.obj.write(data)

    def wire(self):
        return self.o.read()


class _Peer:
    """the far end of one server-side TCP connection: [TLS] upstream proxy -> CONNECT tunnel -> [TLS] origin, or [TLS] origin.
    Records every plaintext byte it receives, per nesting level, and every request head."""

    def __init__(self, ordinal, hop, is_proxy, env):
        self.ord, self.hop, self.is_proxy, self.env = ordinal, hop, is_proxy, env
        self.stages = []
        self.tunnelled = False
        self.buf = b""
        self.plain = {False: b"", True: b""}     # plaintext received outside / inside the CONNECT tunnel
        self.heads = []                          # (tunnelled, first line, fields)

    def recv(self, data):
        for s in self.stages:
            data = s.feed(data)
        self._take(data)
        reply = b""
        while True:
            if self.buf[:1] == b"\x16":
                t = _Tls(True)
                self.stages.append(t)
                d, self.buf = self.buf, b""
                self.plain[self.tunnelled] = self.plain[self.tunnelled][:len(self.plain[self.tunnelled]) - len(d)]
                self._take(t.feed(d))
                continue
            i = self.buf.find(b"\r\n\r\n")
            if i < 0:
                break
            head, self.buf = self.buf[:i], self.buf[i + 4:]
            lines = head.split(b"\r\n")
            fields = [tuple(x.split(b": ", 1)) if b": " in x else (x, b"") for x in lines[1:]]
            self.heads.append((self.tunnelled, lines[0], fields))
            self.env["log"].append((self.ord, self.tunnelled, lines[0], fields))
            if lines[0].startswith(b"CONNECT ") and self.is_proxy and not self.tunnelled:
                if self.env["proxy_ok"]:
                    self.tunnelled = True
                    reply += b"HTTP/1.1 200 Connection established\r\n\r\n"
                    self.plain[True] += self.buf      # anything already behind the head belongs to the tunnel
                    self.plain[False] = self.plain[False][:len(self.plain[False]) - len(self.buf)]
                else:
                    reply += b"HTTP/1.1 407 Proxy Authentication Required\r\nContent-Length: 0\r\n\r\n"
            else:
                reply += b"HTTP/1.1 200 OK\r\nContent-Length: 0\r\n\r\n"
        for idx in range(len(self.stages) - 1, -1, -1):
            s = self.stages[idx]
            if s.done:
                s.write(reply)
            reply = s.wire()
        return reply

    def _take(self, data):
        self.buf += data
        self.plain[self.tunnelled] += data


def _hook_tls(hook, drv):
    n = hook.name
    if n == "tls_clienthello":
        # TlsConfig.tls_clienthello (addons/tlsconfig.py), verbatim
        d = hook.args()[0]
        d.establish_server_tls_first = d.context.server.tls and drv.ctx.options.connection_strategy == "eager"
    elif n == "tls_start_client":
        d = hook.args()[0]
        c = SSL.Context(SSL.SSLv23_METHOD)
        c.use_privatekey_file(REPO + CERTS + "trusted-leaf.key")
        c.use_certificate_chain_file(REPO + CERTS + "trusted-leaf.crt")
        d.ssl_conn = SSL.Connection(c)
        d.ssl_conn.set_accept_state()
    elif n == "tls_start_server":
        d = hook.args()[0]
        c = SSL.Context(SSL.SSLv23_METHOD)
        c.set_verify(SSL.VERIFY_NONE)
        d.ssl_conn = SSL.Connection(c)
        d.ssl_conn.set_connect_state()
        if d.conn.sni:
            d.ssl_conn.set_tlsext_host_name(d.conn.sni.encode())


def _spec(st):
    m = st["mode"]
    if m == "upstream":
        return f"upstream:http://{PROXY[0]}:{PROXY[1]}"
    if m == "upstreams":
        return f"upstream:https://{PROXY[0]}:{PROXY[1]}"
    if m == "reverse":
        return f"reverse:http://{st['dst'][0]}:{st['dst'][1]}"
    if m == "reverses":
        return f"reverse:https://{st['dst'][0]}:{st['dst'][1]}"
    return m


class _Client:
    """one client connection: a Driver with the real mode layer on top, the client's TLS state, the peers"""

    def __init__(self, st, ua, nl, case, env):
        self.st, self.env = st, env
        self.mode = st["mode"]
        pm = ProxyMode.parse(_spec(st))
        dst = tuple(st["dst"]) if "dst" in st else None

        def factory(ctx):
            if self.mode == "regular":
                return modes.HttpProxy(ctx)
            if self.mode.startswith("upstream"):
                return modes.HttpUpstreamProxy(ctx)
            if self.mode.startswith("reverse"):
                return modes.ReverseProxy(ctx)
            if self.mode == "socks5":
                return modes.Socks5Proxy(ctx)
            ctx.server.address = dst      # what proxy/mode_servers.py reads from the OS before the layer starts
            return modes.TransparentProxy(ctx)

        def policy(hook, drv):
            _hook_tls(hook, drv)
            for a in (ua, nl):
                h = getattr(a, hook.name, None)
                if h is not None:
                    h(*hook.args())

        over = {"http_connect_send_host_header": case["send_host"],
                "connection_strategy": "eager" if case["eager"] else "lazy"}
        self.d = Driver(factory, options_overrides=over, policy=policy, client_kwargs={"proxy_mode": pm})
        self.tls = None
        self.peers = {}
        self.seen = 0
        self.to_client = b""       # plaintext the client received
        self.hops = {}
        self.d.start()
        self.pump()
        if self.mode == "socks5":
            h = dst[0].encode()
            self.send(b"\x05\x01\x00")
            self.send(b"\x05\x01\x00\x03" + bytes([len(h)]) + h + dst[1].to_bytes(2, "big"))
        if self.mode in ("transparent", "socks5") and st["tls"]:
            self.start_tls(dst[0])

    def alive(self):
        return self.d.crashed is None and self.d.ctx.client.state is self.d.CS.OPEN

    def start_tls(self, sni):
        self.tls = _Tls(False, sni=sni)
        self.tls.start()
        self.d.data(0, self.tls.wire())
        self.pump()

    def send(self, b):
        if self.tls:
            self.tls.write(b)
            b = self.tls.wire()
        self.d.data(0, b)
        self.pump()

    def pump(self):
        d = self.d
        while self.seen < len(d.trace):
            t = d.trace[self.seen]
            self.seen += 1
            if t[0] == "open":
                self.hops[t[1]] = tuple(t[2])
            if t[0] != "send":
                continue
            data = bytes.fromhex(t[2])
            if t[1] == 0:
                if self.tls:
                    self.to_client += self.tls.feed(data)
                    w = self.tls.wire()
                    if w and self.alive():
                        d.data(0, w)
                else:
                    self.to_client += data
            else:
                if t[1] not in self.peers:
                    hop = self.hops.get(t[1])
                    self.peers[t[1]] = _Peer(t[1], hop, self.mode.startswith("upstream") and hop == PROXY, self.env)
                back = self.peers[t[1]].recv(data)
                if back and d.conns[t[1]].state & d.CS.CAN_READ:
                    d.data(t[1], back)


def _auth_fields(fields):
    return [[n.hex(), v.hex()] for n, v in fields if n.lower() in (b"proxy-authorization", b"authorization")]


def run_session(case):
    ua = upstream_auth.UpstreamAuth()
    nl = next_layer.NextLayer()
    env = {"log": [], "proxy_ok": True}
    out = []
    with taddons.context(ua, nl) as tctx:
        clients = {}
        creds = []
        for st in _all_steps(case):
            if st["t"] == "configure":
                # a run-time options update: OptManager.update -> configure hook of every addon (rolled back on OptionsError)
                err = None
                try:
                    tctx.configure(ua, upstream_auth=st["auth"])
                except exceptions.OptionsError:
                    err = "options"
                except Exception as e:
                    err = "other:" + type(e).__name__
                if ua.auth:
                    creds.append(ua.auth.hex())
                out.append({"conf": ua.auth.hex() if ua.auth is not None else None, "err": err})
                continue
            c = st["c"]
            env["proxy_ok"] = st.get("proxy_ok", True)
            mark = len(env["log"])
            if st["t"] == "open":
                clients[c] = _Client(st, ua, nl, case, env)
            else:
                cl = clients[c]
                if cl.alive():
                    if st["t"] == "req":
                        if st["form"] == "abs":
                            url = ("https" if st["https"] else "http") + "://" + st["host"] + (f":{st['port']}" if st["port"] else "") + "/p"
                            line = f"GET {url} HTTP/1.1".encode()
                        else:
                            line = b"GET /p HTTP/1.1"
                        hs = ([(b"Host", st["hosthdr"].encode())] if st["hosthdr"] else []) + [(bytes.fromhex(n), bytes.fromhex(v)) for n, v in st["hdrs"]]
                        cl.send(line + b"\r\n" + b"".join(n + b": " + v + b"\r\n" for n, v in hs) + b"\r\n")
                    elif st["t"] == "connect":
                        cl.send(f"CONNECT {st['host']}:{st['port']} HTTP/1.1\r\n\r\n".encode())
                        if st["tls"] and cl.alive() and cl.to_client.endswith(b"established\r\n\r\n"):
                            cl.start_tls(st["host"])
                    elif st["t"] == "close":
                        cl.d.close(0)
                        cl.pump()
                    elif st["t"] == "srvclose":
                        k = st["ord"]
                        if k < len(cl.d.conns) and k in cl.hops and cl.d.conns[k].state & cl.d.CS.CAN_READ:
                            cl.d.close(k)
                            cl.pump()
            cl = clients[c]
            writes = []
            for (o, tunnelled, first, fields) in env["log"][mark:]:
                peer = cl.peers[o]
                writes.append({"ord": o, "hop": [peer.hop[0], peer.hop[1]], "via": peer.is_proxy, "tun": tunnelled,
                               "connect": first.startswith(b"CONNECT "), "nfields": len(fields), "auth": _auth_fields(fields),
                               "first": first.hex()})
            out.append({"writes": writes, "alive": cl.alive(), "crash": cl.d.crashed[0] if cl.d.crashed else None})
        streams = []
        for c, cl in clients.items():
            streams.append({"c": c, "ord": 0, "level": "client", "hop": None, "data": cl.to_client.hex()})
            for o, p in cl.peers.items():
                streams.append({"c": c, "ord": o, "level": "proxy" if p.is_proxy else "direct", "hop": list(p.hop), "data": p.plain[False].hex()})
                if p.plain[True]:
                    streams.append({"c": c, "ord": o, "level": "tunnel", "hop": list(p.hop), "data": p.plain[True].hex(),
                                    "tls": len(p.stages) > (1 if _is_tls_proxy(cl) else 0)})
            # raw wire bytes too (TLS records included), so that nothing the proxy wrote goes unscanned
            for o in range(len(cl.d.conns)):
                streams.append({"c": c, "ord": o, "level": "wire", "hop": list(cl.hops[o]) if o in cl.hops else None,
                                "data": cl.d.sent(o).hex()})
    return {"fixed": FIXED, "creds": sorted(set(creds)), "steps": out, "streams": streams}


def _is_tls_proxy(cl):
    return cl.mode == "upstreams"


def run_impl(case):
    if case["k"] == "parse":
        s = "".join(chr(c) for c in case["auth"])
        try:
            return {"r": "ok", "v": upstream_auth.parse_upstream_auth(s).hex()}
        except exceptions.OptionsError:
            return {"r": "options"}
        except UnicodeEncodeError:
            return {"r": "unicode"}
        except Exception as e:  # any other failure is its own observable
            return {"r": "other:" + type(e).__name__}
    return run_session(case)


# ------------------------------------------------------------------ Coq terms
def caddr(h, p):
    return cpair(cbytes(h.encode()), cN(p))


def cfields(fs):
    return clist((cpair(cbytes(bytes.fromhex(n)), cbytes(bytes.fromhex(v))) for n, v in fs), "field")


def _pmode(st):
    m = st["mode"]
    if m == "regular":
        return "PRegular"
    if m.startswith("upstream"):
        return f"(PUpstream {caddr(*PROXY)})"
    ctor = {"reverse": "PReverse", "reverses": "PReverse", "transparent": "PTransparent", "socks5": "PSocks5"}[m]
    return f"({ctor} {caddr(*st['dst'])} {cbool(st['tls'])})"


def _hostaddr(hh):
    if hh is None:
        return None
    if ":" in hh:
        h, p = hh.rsplit(":", 1)
        return (h, int(p))
    return (hh, 80)


def _event(st):
    if st["t"] == "configure":
        return "WConfigure " + copt(st["auth"], lambda a: clist((cN(ord(ch)) for ch in a), "N"), "(list N)")
    c = cN(st["c"])
    if st["t"] == "close":
        return f"WClose {c}"
    if st["t"] == "open":
        return f"WOpen {c} {_pmode(st)}"
    if st["t"] == "req":
        if st["form"] == "abs":
            port = st["port"] or (443 if st["https"] else 80)
            tgt = f"(Some ({cbool(st['https'])}, {caddr(st['host'], port)}))"
        else:
            tgt = "None"
        ha = _hostaddr(st["hosthdr"])
        hh = f"(Some {caddr(*ha)})" if ha else "None"
        hs = ([[b"Host".hex(), st["hosthdr"].encode().hex()]] if st["hosthdr"] else []) + st["hdrs"]
        return f"WEv {c} (EReq {tgt} {hh} {cfields(hs)} {cbool(st['proxy_ok'])})"
    if st["t"] == "connect":
        return f"WEv {c} (EConnect {caddr(st['host'], st['port'])} {cbool(st['tls'])} {cbool(st.get('proxy_ok', True))})"
    return f"WEv {c} (ESrvClose {cN(st['ord'])})"


def _cwrite(w):
    return (f"(OW {cN(w['ord'])} {caddr(*w['hop'])} {cbool(w['via'])} {cbool(w['tun'])} {cbool(w['connect'])} "
            f"{cN(w['nfields'])} {cfields(w['auth'])})")


def coq_case(case, obs):
    if case["k"] == "parse":
        r = obs["r"]
        if r.startswith("other"):
            return f"Parse {clist((cN(c) for c in case['auth']), 'N')} OOther"
        t = {"ok": lambda: f"(OOk {cbytes(bytes.fromhex(obs['v']))})", "options": lambda: "OOptions", "unicode": lambda: "OUnicode"}[r]()
        return f"Parse {clist((cN(c) for c in case['auth']), 'N')} {t}"
    evs = clist((_event(st) for st in _all_steps(case)), "wevent")

    def ostep(o):
        if "conf" in o:
            if o["err"] and o["err"].startswith("other"):
                return "(OStep nil false true)"      # never matches a configure event: reported as a disagreement
            return f"(OConf {copt(o['conf'], lambda h: cbytes(bytes.fromhex(h)), 'bytes')})"
        return f"(OStep {clist((_cwrite(w) for w in o['writes']), 'owrite')} {cbool(o['alive'])} {cbool(o['crash'] is not None)})"
    steps = clist((ostep(o) for o in obs["steps"]), "ostep")
    return f"Session {cbool(case['send_host'])} {cbool(case['eager'])} {cbool(obs['fixed'])} {evs} {steps}"


# ------------------------------------------------------------------ oracle: the property on the implementation
def _valid_auth(a):
    """the documented format username:password, as the option's regex .+: reads it (dot does not match LF)"""
    return any(a[i] == ":" and a[i - 1] != "\n" for i in range(1, len(a)))


def _token(a):
    return base64.b64encode(a.encode("utf-8"))


def oracle(case, obs):
    v = []
    if case["k"] == "parse":
        s = "".join(chr(c) for c in case["auth"])
        if obs["r"] == "ok":
            try:
                ok = base64.b64decode(bytes.fromhex(obs["v"])[6:]).decode("utf-8") == s and bytes.fromhex(obs["v"])[:6] == b"Basic "
            except Exception:
                ok = False
            if not ok:
                v.append({"key": "credential-encoding", "what": f"parse_upstream_auth({s!r}) = {obs['v']}"})
        elif obs["r"].startswith("other"):
            v.append({"key": "parse-other-exception", "what": f"parse_upstream_auth({s!r}) raised {obs['r'][6:]}"})
        return v
    steps = _all_steps(case)
    for o in obs["steps"]:
        if o.get("crash"):
            v.append({"key": "layer-crash", "what": f"layer raised {o['crash']}"})
        if (o.get("err") or "").startswith("other"):
            v.append({"key": "configure-other-exception", "what": f"configure raised {o['err'][6:]}"})
    # every credential that is configured at some point of the session (the option may change at run time)
    toks = {_token(st["auth"]) for st in steps if st["t"] == "configure" and st["auth"] is not None and _valid_auth(st["auth"])}
    modes_of = {st["c"]: st for st in steps if st["t"] == "open"}
    # 1. every byte stream that left the proxy, decrypted where a peer could decrypt it
    for s in obs["streams"]:
        data = bytes.fromhex(s["data"])
        if not any(t in data for t in toks):
            continue
        st = modes_of[s["c"]]
        m = st["mode"]
        where = f"conn {s['c']}/{s['ord']} level={s['level']} hop={s['hop']} mode={m}"
        if s["level"] == "client":
            v.append({"key": "credential-to-client", "what": "credential sent to the client: " + where})
        elif m.startswith("upstream") and s["hop"] == list(PROXY) and s["level"] in ("proxy", "wire"):
            # wire bytes of a proxy connection: may only show the credential outside the tunnel, checked via level=tunnel
            pass
        elif m.startswith("reverse") and s["hop"] == list(st["dst"]):
            pass
        elif s["level"] == "tunnel" and m.startswith("upstream") and s["hop"] == list(PROXY):
            if s.get("tls"):
                v.append({"key": "credential-in-tls-tunnel", "what": "credential sent through a TLS tunnel to the origin: " + where})
            else:
                v.append({"key": "tunnelled-plain-http",
                          "what": "upstream credential sent through the CONNECT tunnel to the origin server in a plain-HTTP request: " + where})
        else:
            v.append({"key": "credential-to-origin", "what": "credential sent to a host that is neither upstream proxy nor reverse target: " + where})
    # 2. and it is sent where the statement says it is, with the value configured at that time
    cur = None
    for st, o in zip(steps, obs["steps"]):
        if st["t"] == "configure":
            if st["auth"] is None:
                cur = None
            elif _valid_auth(st["auth"]):
                cur = b"Basic " + _token(st["auth"])
            continue
        if cur is None:
            continue
        cred = cur
        m = modes_of[st["c"]]["mode"]
        for w in o["writes"]:
            vals = [bytes.fromhex(x) for n, x in w["auth"]]
            names = [bytes.fromhex(n).lower() for n, x in w["auth"] if bytes.fromhex(x) == cred]
            if m.startswith("upstream") and w["via"] and not w["tun"]:
                if names != [b"proxy-authorization"] or any(bytes.fromhex(n).lower() == b"proxy-authorization" and bytes.fromhex(x) != cred for n, x in w["auth"]):
                    v.append({"key": "credential-missing-upstream", "what": f"head to the upstream proxy lacks the credential: {bytes.fromhex(w['first'])!r} {vals}"})
            elif m.startswith("reverse") and w["hop"] == modes_of[st["c"]]["dst"]:
                if names != [b"authorization"] or any(bytes.fromhex(n).lower() == b"authorization" and bytes.fromhex(x) != cred for n, x in w["auth"]):
                    v.append({"key": "credential-missing-reverse", "what": f"head to the reverse target lacks the credential: {bytes.fromhex(w['first'])!r} {vals}"})
    seen, out = set(), []
    for x in v:
        if x["key"] not in seen:
            seen.add(x["key"])
            out.append(x)
    return out


def nontrivial(case, obs):
    if case["k"] == "parse":
        return 58 in case["auth"]
    return bool(obs["creds"]) and any(o.get("writes") for o in obs["steps"])


def classify(case, obs):
    if case["k"] == "parse":
        return ["parse", "parse-" + obs["r"].split(":")[0]]
    steps = _all_steps(case)
    tags = ["session", "auth" if case["auth"] is not None else "no-auth", "eager" if case["eager"] else "lazy"]
    kinds = set()
    nconf = 0
    tunnel_then_conf = set()
    tunnels = set()
    for st, o in zip(steps, obs["steps"]):
        if st["t"] == "open":
            tags.append("mode-" + st["mode"])
        if st["t"] == "configure":
            nconf += 1
            kinds.add("conf-rejected" if o["err"] else ("conf-unset" if st["auth"] is None else "conf-set"))
            if nconf > 1 or case["auth"] is None:
                kinds.add("runtime-configure")
                if o["conf"]:
                    tunnel_then_conf |= tunnels
            continue
        if not o["alive"]:
            kinds.add("client-closed")
        for w in o["writes"]:
            kinds.add(("connect" if w["connect"] else "req") + ("-tun" if w["tun"] else "") + ("-via" if w["via"] else ""))
            if any(x in obs["creds"] for _, x in w["auth"]):
                kinds.add("cred-written")
            if w["tun"] and not w["connect"] and st["c"] in tunnel_then_conf:
                kinds.add("req-in-tunnel-after-late-configure")
        if st["t"] == "connect":
            kinds.add("connect-tls" if st["tls"] else "connect-plain")
            if o["alive"]:
                tunnels.add(st["c"])
        if st["t"] == "srvclose":
            kinds.add("srvclose")
        if st["t"] == "close":
            kinds.add("client-disconnect")
    if len({st["c"] for st in steps if "c" in st}) > 1:
        kinds.add("two-clients")
    return sorted(set(tags)) + sorted(kinds)
