"""C16 -- generated leaf certificates are valid for the identity the client asked for
(mitmproxy/addons/tlsconfig.py TlsConfig.get_cert/_ip_or_dns_name, mitmproxy/certs.py CertStore.get_cert/dummy_cert).

One `issue` case = one real TlsConfig.tls_start_client on a fresh CertStore (frozen clock), the certificate
that ends up on the client SSL connection parsed back with `cryptography`, and real TLS handshakes against that
connection by real verifiers (Python ssl/OpenSSL 3 with VERIFY_X509_STRICT and check_hostname; pyOpenSSL/OpenSSL 4
with X509_V_FLAG_X509_STRICT, NO_PARTIAL_WILDCARDS|NEVER_CHECK_SUBJECT and an explicit verification time) for the
requested identity and for adversarial other identities/times."""
import atexit
import datetime
import ipaddress
import os
import re
import shutil
import tempfile
import time
import urllib.parse

from lib.coqterm import cbool, cbytes, clist, cN, copt, cZ

ID = "C16"
QUICK_N = 700
THOROUGH_N = 5600
SHARD = 60
COQ_PRELUDE = "From MV Require Import Model.LeafCert Model.LeafCertSpec.\nFrom MV Require Model.LeafCertCtx.\n"
TRANSLATORS = ["leafcert_const"]
ALLOWED_AXIOMS = []
RULE = ("issue (72%): SNI / local address / server address drawn from dictionaries of DNS names (multi-label, upper case, "
        "underscore, trailing dot, 63-char label, 200-char name, wildcard-looking), IDNs, IPv4/IPv6 literals (compressed, "
        "mapped, scoped), near-IP strings (leading zero, 3 parts, hex) and non-names (empty label, 64-char label, space, LF, "
        "NUL, brackets); with probability 0.45 an upstream certificate (really built, serialised and re-parsed) with CN from "
        "host names / free text / 64 chars / empty labels / non-ASCII, 0-4 SANs of kinds DNS (incl. wildcards, partial "
        "wildcards, empty) / IP / e-mail / URI / directoryName / registeredID, organization, CRL URI (http, no netloc, "
        "unknown scheme, bad IPv6 bracket); 3 CA configurations (default created CA; intermediate CA with truncated-SHA-256 SKI "
        "under a separate root; legacy CA without SKI); local clock offset -12h..+14h; 2-7 verifications per certificate: the "
        "requested identity plus other identities derived from the certificate's own SANs (label under a wildcard, two "
        "labels, bare suffix, xn-- label, leading dot, case change, CN text, foreign name/IP) and verification times around "
        "both ends of the validity. pair (10%): two requests on one store (same names with different organization/CRL -> "
        "cache hit). reload (6%): histories on one confdir with a custom CA chain -- CA file rewritten in place (4 intermediates "
        "under one root), store reloaded by confdir/key_size/cert_passphrase/certs updates (sometimes not), handshakes with 3 cipher "
        "settings; the chain the client RECEIVES is verified strictly against the root. ip (8%): ipaddress.ip_address/str on "
        "token-built strings. idna (4%): ASCII fast path of the idna codec. "
        "Non-trivial = a certificate was issued and at least one verdict is negative and one positive, or an error path, or an "
        "IP string that parses; distinct by canonical JSON.")
TRUSTED = ["Coq 8.16.1 kernel (coqc), vm_compute for case evaluation",
           "harness/props/C16.py: generator, construction of upstream certificates, frozen clock (certs.datetime replaced by a "
           "shim for the duration of tls_start_client), parsing of the served certificate with `cryptography`, handshake pumps, "
           "printers; Corr/C16.v",
           "hand models: coq/Model/LeafCert.v (get_cert, _ip_or_dns_name, dummy_cert field selection, CertStore lookup without "
           "custom certificates, ipaddress parsing/formatting, idna ASCII fast path, urlunsplit) and coq/Model/LeafCertSpec.v "
           "(OpenSSL name matching under NO_PARTIAL_WILDCARDS, strict-flag leaf checks); both tied by correspondence only",
           "abstract in the model, supplied per case by CPython: str.encode('idna') on non-ASCII strings, urllib.parse.urlsplit",
           "contract, not modelled: ASN.1 DER encoding, RSA/SHA-256 signatures, chain building above the issuing CA "
           "(observed as identities: issuer name == CA subject, signature verifies under the CA key)",
           "harness/translators/leafcert_const.py reads CERT_VALIDITY_OFFSET, CERT_EXPIRY and whether the upstream-CN "
           "conversion is guarded by try/except ValueError from the source (fails closed)"]
ASSUMPTIONS = ["the CertStore has no custom certificates (--certs); C17 covers which entry a store with custom certificates serves",
               "conn_context.server.certificate_list[0] is a parsed certs.Cert; its cn/altnames/organization/"
               "crl_distribution_points properties are the inputs (SAN IP networks, otherName and x400/EDI names are not generated)",
               "the signing key in the store is the key of default_ca (CertStore.from_files loads both from one file)",
               "local clock = UTC + tz with |tz| <= 24 h; verification happens within seconds of issue",
               "strings are Unicode scalar values (no lone surrogates)"]

DAY = 86400

# ------------------------------------------------------------------------------------------------ dictionaries
L63 = "x" * 63
DNS = ["example.com", "www.example.com", "a.b.example.com", "EXAMPLE.com", "localhost", "xn--bcher-kva.example",
       "a_b.example.com", "test.xn--p1ai", L63 + ".example.com", "a." * 100 + "com", "a.b.", "mitmproxy.org", "b", "x.c",
       "a" * 31 + "." + "b" * 32, "a" * 31 + "." + "b" * 31, "a" * 32 + "." + "b" * 32]   # 64, 63, 65 characters
WILD = ["*.example.com", "*.com", "*", "*.*.example.com", "f*.example.com", "*.a.b.example.com", "xn--*.example.com",
        "*.xn--bcher-kva.example", "w*.example.com"]
NEARIP = ["01.2.3.4", "1.2.3", "1.2.3.4.", "0x7f.1", "1.2.3.04", "256.1.1.1", "1.2.3.4.5", "-a.example.com",
          "a-.example.com", "xn--a.b"]
IDN = ["bücher.example", "ß.de", "a。b", "пример.рф",
       "例え.jp", "ｅｘａｍｐｌｅ.com", "www.bücher.example"]
IPS = ["1.2.3.4", "127.0.0.1", "0.0.0.0", "255.255.255.255", "10.0.0.1", "192.168.1.77", "::1", "::", "2001:db8::1",
       "fe80::1%eth0", "fe80::1%3", "::ffff:1.2.3.4", "1:2:3:4:5:6:7:8", "1::", "2001:DB8:0:0:0:0:0:1", "1:0:0:2:0:0:0:3",
       "fe80::1", "0:0:1::", "1:2:3:4:5:6:1.2.3.4"]
BAD = ["a..b", ".a.b", "x" * 64 + ".com", "a b", "example.com\n", "a\x00b", " ", "[::1]", "\u0080", "﷐.com",
       "x" * 63 + "\n", "a." * 130 + "com", "::1%", "1.2.3.4/24", "。", "bücher..example"]
UPCN = DNS[:8] + WILD[:3] + ["Example Corp Server", "x" * 64, "Example Secure Server Certificate Authority Gateway 2024 (EU-West).v2",
                           "Bücher GmbH", "", "a..b", ".a", "1.2.3.4", "::1", "Ⅰ", "up.example", "a b.c", "x" * 63,
                           "﷐", "*.up.example"]
ORGS = [None, None, "Org", "Example Örg, Inc.", "", "O" * 70]
CRLS = [None, None, "http://crl.example/path/ca.crl?x=1#f", "HTTP://CRL.Example:8080/a", "ldap:///cn=x", "mailto:a@b",
        "//host/p", "/just/path", "", "http://[::1/x", "https://u:p@crl.example/%7e", "foo://h/p", "http:/nonet", "crl.example/x"]
FOREIGN = ["other.example", "example.org", "com", "evil.com", "9.9.9.9", "::2", "example.com.evil.org"]
TIME_OFFS = [-3 * DAY, -2 * DAY - 15 * 3600, -2 * DAY + 15 * 3600, -DAY, 196 * DAY, 197 * DAY - 15 * 3600,
             197 * DAY + 15 * 3600, 200 * DAY]
IPTOK = ["1", "0", "00", "01", "255", "256", "9999", ".", ".", ":", ":", "::", "ffff", "FFFF", "fe80", "g", "%", "eth0", "/",
         "1.2.3.4", "::1", " ", "12345", "0000", "a", "١", "-1", "+1"]


def _pick_name(rng, adv):
    r = rng.random()
    if adv:
        if r < 0.35:
            return rng.choice(BAD)
        if r < 0.6:
            return rng.choice(NEARIP)
        if r < 0.8:
            return rng.choice(WILD)
        return rng.choice(IDN + IPS)
    if r < 0.45:
        return rng.choice(DNS)
    if r < 0.6:
        return rng.choice(WILD)
    if r < 0.72:
        return rng.choice(IDN)
    if r < 0.8:
        return rng.choice(NEARIP)
    return rng.choice(IPS)


def _san(rng, adv):
    r = rng.random()
    if r < 0.55:
        pool = DNS[:8] + WILD + (["", "a..b", "UP.Example", "a b"] if adv else ["up.example", "*.up.example"])
        return ["d", rng.choice(pool)]
    if r < 0.7:
        return ["i", rng.choice(["1.2.3.4", "10.0.0.1", "::1", "2001:db8::1", "fe80::1"])]
    if r < 0.8:
        return ["m", rng.choice(["u@a.b", "admin@example.com"])]
    if r < 0.9:
        return ["u", rng.choice(["http://x/", "https://example.com/path"])]
    if r < 0.95:
        return ["n", rng.choice(["q", "example.com"])]
    return ["r", rng.choice(["1.2.3", "2.5.4.3"])]


def _upstream(rng, adv):
    cn = None if rng.chance(0.2) else rng.choice(UPCN if adv or rng.chance(0.3) else DNS[:8] + ["up.example", "*.up.example"])
    sans = [_san(rng, adv) for _ in range(rng.weighted([(2, 0), (3, 1), (3, 2), (1, 3), (1, 4)]))]
    if sans and rng.chance(0.15):
        sans.append(list(sans[0]))
    return {"cn": cn, "sans": sans, "org": rng.choice(ORGS), "crl": rng.choice(CRLS)}


def _req(rng, adv):
    r = rng.random()
    sni = None if r < 0.15 else ("" if r < 0.18 else _pick_name(rng, adv))
    sock = rng.choice(IPS) if rng.chance(0.85) else _pick_name(rng, adv)
    addr = None if rng.chance(0.35) else (sni if sni and rng.chance(0.4) else _pick_name(rng, adv and rng.chance(0.5)))
    up = _upstream(rng, adv) if rng.chance(0.45) else None
    return {"opt": not rng.chance(0.08), "sni": sni, "sock": sock, "addr": addr, "up": up}


def _ip_case(rng):
    r = rng.random()
    if r < 0.25:
        s = rng.choice(IPS + NEARIP)
    elif r < 0.5:   # well-formed IPv6 with random hextets and an optional ::
        hs = [rng.choice(["0", "0", "1", "ab", "FFFF", "0db8", "10", "00"]) for _ in range(8)]
        if rng.chance(0.6):
            i = rng.randint(0, 7); j = rng.randint(i, 8)
            s = ":".join(hs[:i]) + "::" + ":".join(hs[j:])
        else:
            s = ":".join(hs)
        if rng.chance(0.15):
            s += "%" + rng.choice(["eth0", "1", ""])
    elif r < 0.65:
        s = ".".join(str(rng.choice([0, 1, 9, 10, 99, 100, 255, 256, 7])) for _ in range(rng.choice([4, 4, 4, 3, 5])))
    else:
        s = "".join(rng.choice(IPTOK) for _ in range(rng.randint(0, 9)))
    return {"k": "ip", "s": s}


RELOAD_VIA = ["confdir", "key_size", "cert_passphrase", "certs"]


def _reload_case(rng):
    """a history on one confdir with a custom CA chain: the CA file is rewritten in place (one of 4 intermediates under
    one root), the store is reloaded by an options update, clients connect with 3 different context settings"""
    ops = [["rewrite", rng.randint(1, 4)], ["reload", "confdir"]]
    for _ in range(rng.randint(3, 8)):
        r = rng.random()
        if r < 0.5:
            ops.append(["hs", rng.below(3)])
        elif r < 0.85:
            ops += [["rewrite", rng.randint(1, 4)], ["reload", rng.choice(RELOAD_VIA)]]
        elif r < 0.92:
            ops.append(["rewrite", rng.randint(1, 4)])          # no reload: the store keeps the old CA
        else:
            ops.append(["reload", rng.choice(RELOAD_VIA)])
    ops.append(["hs", rng.below(3)])
    return {"k": "reload", "ops": ops}


def gen(rng, n, tier):
    out = []
    for _ in range(n):
        r = rng.random()
        if r < 0.72:
            adv = rng.chance(0.3)
            c = {"k": "issue", "ca": rng.weighted([(5, 0), (3, 1), (2, 2)]), "tz": rng.choice([0, 0, 0, -12, -5, 1, 9, 14, 5]),
                 "picks": [rng.below(1 << 16) for _ in range(14)]}
            c.update(_req(rng, adv))
            out.append(c)
        elif r < 0.82:
            adv = rng.chance(0.2)
            r1 = _req(rng, adv)
            if r1["up"] is None:
                r1["up"] = _upstream(rng, adv)
                r1["opt"] = True
            r2 = dict(r1)
            m = rng.random()
            if m < 0.5:      # same names, other organization / CRL
                r2["up"] = dict(r1["up"], org=rng.choice(ORGS), crl=rng.choice(CRLS))
            elif m < 0.75:   # same set of names in another order, or one more name
                r2["up"] = dict(r1["up"], sans=list(reversed(r1["up"]["sans"])) + ([["d", "more.example"]] if rng.chance(0.5) else []))
            else:
                r2 = _req(rng, adv)
            out.append({"k": "pair", "ca": rng.weighted([(5, 0), (3, 1), (2, 2)]), "tz": rng.choice([0, -12, 14, 3]),
                        "r1": r1, "r2": r2})
        elif r < 0.88:
            out.append(_reload_case(rng))
        elif r < 0.96:
            out.append(_ip_case(rng))
        else:
            labs = [rng.choice(["a", "", "x" * 63, "x" * 64, "b-c", "*", "xn--a", " ", "\n", "x" * 62]) for _ in range(rng.randint(1, 4))]
            out.append({"k": "idna", "s": ".".join(labs)})
    return out


# ------------------------------------------------------------------------------------------------ implementation side
S = {}


def _mk_ca_files(td, kind):
    """write <td>/mitmproxy-ca.pem (+dhparam) for a custom CA; returns the PEM of the client's trust anchor."""
    from cryptography import x509
    from cryptography.hazmat.primitives import hashes, serialization
    from cryptography.hazmat.primitives.asymmetric import rsa
    from cryptography.x509.oid import NameOID
    from mitmproxy import certs
    now = datetime.datetime.utcnow().replace(microsecond=0)

    def name(cn):
        return x509.Name([x509.NameAttribute(NameOID.COMMON_NAME, cn), x509.NameAttribute(NameOID.ORGANIZATION_NAME, "C16")])

    ku = x509.KeyUsage(False, False, False, False, False, True, True, False, False)
    if kind == "intermediate":
        rk = rsa.generate_private_key(65537, 2048)
        ik = rsa.generate_private_key(65537, 2048)
        root = (x509.CertificateBuilder().subject_name(name("C16 root")).issuer_name(name("C16 root")).public_key(rk.public_key())
                .serial_number(x509.random_serial_number()).not_valid_before(now - datetime.timedelta(days=4000))
                .not_valid_after(now + datetime.timedelta(days=8000))
                .add_extension(x509.BasicConstraints(True, None), True).add_extension(ku, True)
                .add_extension(x509.SubjectKeyIdentifier.from_public_key(rk.public_key()), False)
                .sign(rk, hashes.SHA256()))
        h = hashes.Hash(hashes.SHA256())
        h.update(ik.public_key().public_bytes(serialization.Encoding.DER, serialization.PublicFormat.PKCS1))
        ski = h.finalize()[:20]           # RFC 7093 method 1, not the SHA-1 the fallback would compute
        inter = (x509.CertificateBuilder().subject_name(name("C16 intermediate")).issuer_name(root.subject)
                 .public_key(ik.public_key()).serial_number(x509.random_serial_number())
                 .not_valid_before(now - datetime.timedelta(days=2000)).not_valid_after(now + datetime.timedelta(days=4000))
                 .add_extension(x509.BasicConstraints(True, 0), True).add_extension(ku, True)
                 .add_extension(x509.SubjectKeyIdentifier(ski), False)
                 .add_extension(x509.AuthorityKeyIdentifier.from_issuer_public_key(rk.public_key()), False)
                 .sign(rk, hashes.SHA256()))
        key, chain, anchor = ik, [inter, root], root
    else:  # legacy: self-signed CA without SubjectKeyIdentifier
        k = rsa.generate_private_key(65537, 2048)
        c = (x509.CertificateBuilder().subject_name(name("C16 legacy")).issuer_name(name("C16 legacy")).public_key(k.public_key())
             .serial_number(x509.random_serial_number()).not_valid_before(now - datetime.timedelta(days=2000))
             .not_valid_after(now + datetime.timedelta(days=4000))
             .add_extension(x509.BasicConstraints(True, None), True).add_extension(ku, True).sign(k, hashes.SHA256()))
        key, chain, anchor = k, [c], c
    pem = key.private_bytes(serialization.Encoding.PEM, serialization.PrivateFormat.TraditionalOpenSSL,
                            serialization.NoEncryption())
    for c in chain:
        pem += c.public_bytes(serialization.Encoding.PEM)
    with open(os.path.join(td, "mitmproxy-ca.pem"), "wb") as f:
        f.write(pem)
    with open(os.path.join(td, "mitmproxy-dhparam.pem"), "wb") as f:
        f.write(certs.DEFAULT_DHPARAM)
    return anchor.public_bytes(serialization.Encoding.PEM)


def _mk_rotation_pool(root_dir):
    """one root, 4 intermediates (own keys); a TlsConfig whose confdir is switched per reload case.  Entered after the
    other taddons contexts: TlsConfig.configure reads the GLOBAL mitmproxy.ctx.options, which is the last one entered."""
    from cryptography import x509
    from cryptography.hazmat.primitives import hashes, serialization
    from cryptography.hazmat.primitives.asymmetric import rsa
    from cryptography.x509.oid import NameOID
    from mitmproxy.addons import tlsconfig
    from mitmproxy.test import taddons
    now = datetime.datetime.utcnow().replace(microsecond=0)
    ku = x509.KeyUsage(False, False, False, False, False, True, True, False, False)

    def name(cn):
        return x509.Name([x509.NameAttribute(NameOID.COMMON_NAME, cn), x509.NameAttribute(NameOID.ORGANIZATION_NAME, "C16")])

    def mk(cn, issuer, issuer_key, pathlen):
        k = rsa.generate_private_key(65537, 2048)
        b = (x509.CertificateBuilder().subject_name(name(cn)).issuer_name(issuer.subject if issuer else name(cn))
             .public_key(k.public_key()).serial_number(x509.random_serial_number())
             .not_valid_before(now - datetime.timedelta(days=30)).not_valid_after(now + datetime.timedelta(days=3000))
             .add_extension(x509.BasicConstraints(True, pathlen), True).add_extension(ku, True)
             .add_extension(x509.SubjectKeyIdentifier.from_public_key(k.public_key()), False))
        if issuer is not None:
            b = b.add_extension(x509.AuthorityKeyIdentifier.from_issuer_public_key(issuer_key.public_key()), False)
        return k, b.sign(issuer_key or k, hashes.SHA256())
    rk, rootc = mk("C16 rotation root", None, None, None)
    inters, pems = [], []
    for i in range(4):
        ik, ic = mk(f"C16 rotation intermediate {i + 1}", rootc, rk, 0)
        inters.append(ic)
        pems.append(ik.private_bytes(serialization.Encoding.PEM, serialization.PrivateFormat.TraditionalOpenSSL,
                                     serialization.NoEncryption())
                    + ic.public_bytes(serialization.Encoding.PEM) + rootc.public_bytes(serialization.Encoding.PEM))
    ta = tlsconfig.TlsConfig()
    tctx = taddons.context(ta)
    tctx.__enter__()
    return {"root": rootc, "inters": inters, "pems": pems, "ta": ta, "tctx": tctx, "dir": os.path.join(root_dir, "rot"), "n": 0}


ROT_CIPHERS = [None, ["ECDHE-RSA-AES128-GCM-SHA256"], ["ECDHE-RSA-AES256-GCM-SHA384", "ECDHE-RSA-AES128-GCM-SHA256"]]


def _rot_handshake(rot, settings):
    """in-memory handshake against the real tls_start_client; returns the chain the client received"""
    SSL, connection, context = S["SSL"], S["connection"], S["context"]
    c = context.Context(connection.Client(peername=("192.0.2.1", 1234), sockname=("127.0.0.1", 8080), timestamp_start=0),
                        rot["tctx"].options)
    c.client.sni = "example.test"
    c.server.address = ("example.test", 443)
    if ROT_CIPHERS[settings]:
        c.client.cipher_list = list(ROT_CIPHERS[settings])
    td = S["tls"].TlsData(c.client, c)
    rot["ta"].tls_start_client(td)
    server = td.ssl_conn
    server.set_accept_state()
    cctx = SSL.Context(SSL.TLS_CLIENT_METHOD)
    cctx.set_verify(SSL.VERIFY_NONE, None)        # the presented chain is verified separately, strictly
    cl = SSL.Connection(cctx)
    cl.set_tlsext_host_name(b"example.test")
    cl.set_connect_state()

    def move(src, dst):
        try:
            dst.bio_write(src.bio_read(1 << 16))
        except SSL.WantReadError:
            pass
    dc = ds = False
    for _ in range(20):
        if not dc:
            try:
                cl.do_handshake()
                dc = True
            except SSL.WantReadError:
                pass
        move(cl, server)
        if not ds:
            try:
                server.do_handshake()
                ds = True
            except SSL.WantReadError:
                pass
        move(server, cl)
        if dc and ds:
            break
    if not (dc and ds):
        raise RuntimeError("handshake did not complete")
    return [x.to_cryptography() for x in cl.get_peer_cert_chain()]


def _rot_verify(rot, chain):
    """strict verification of what was presented, trusting only the configured root"""
    x509, crypto = S["x509"], S["crypto"]
    from cryptography.x509.verification import PolicyBuilder, Store, VerificationError
    out = {}
    try:
        PolicyBuilder().store(Store([rot["root"]])).build_server_verifier(x509.DNSName("example.test")).verify(chain[0], chain[1:])
        out["rust"] = "ok"
    except VerificationError as e:
        out["rust"] = "fail:" + str(e)[:70]
    st = crypto.X509Store()
    st.add_cert(crypto.X509.from_cryptography(rot["root"]))
    st.set_flags(crypto.X509StoreFlags.X509_STRICT)
    try:
        crypto.X509StoreContext(st, crypto.X509.from_cryptography(chain[0]),
                                chain=[crypto.X509.from_cryptography(x) for x in chain[1:]] or None).verify_certificate()
        out["ossl"] = "ok"
    except crypto.X509StoreContextError as e:
        out["ossl"] = "fail:" + str(e)[:70]
    return out


def _run_reload(case):
    rot = S["rot"]
    rot["n"] += 1
    d = os.path.join(rot["dir"], str(rot["n"]))          # a new confdir per case: the context cache starts without its path
    os.makedirs(d)
    with open(os.path.join(d, "mitmproxy-dhparam.pem"), "wb") as f:
        f.write(S["certs"].DEFAULT_DHPARAM)
    shown = []
    for op, arg in case["ops"]:
        if op == "rewrite":
            with open(os.path.join(d, "mitmproxy-ca.pem"), "wb") as f:
                f.write(rot["pems"][arg - 1])
        elif op == "reload":
            kw = {"confdir": d} if arg == "confdir" else {"key_size": 2048} if arg == "key_size" else \
                {"cert_passphrase": None} if arg == "cert_passphrase" else {"certs": []}
            rot["tctx"].configure(rot["ta"], **kw)
        else:
            chain = _rot_handshake(rot, arg)
            leaf = chain[0]
            issuer = 0
            for i, ic in enumerate(rot["inters"]):
                if leaf.issuer == ic.subject:
                    try:
                        leaf.verify_directly_issued_by(ic)
                        issuer = i + 1
                    except Exception:
                        pass
            loaded = rot["ta"].certstore.default_ca.to_cryptography()
            shown.append({"issuer": issuer, "complete": issuer > 0 and rot["inters"][issuer - 1] in chain[1:],
                          "issuer_is_store_ca": issuer > 0 and loaded == rot["inters"][issuer - 1],
                          "n_presented": len(chain), "verify": _rot_verify(rot, chain)})
    shutil.rmtree(d, True)
    return {"shown": shown}


def setup_impl():
    import ssl
    import warnings
    warnings.filterwarnings("ignore", message="Attribute's length must be")
    from cryptography import x509
    from cryptography.hazmat.primitives import hashes, serialization
    from cryptography.hazmat.primitives.asymmetric import ec
    from OpenSSL import SSL, crypto
    from mitmproxy import certs, connection, tls
    from mitmproxy import ctx as mctx
    S["mctx"] = mctx
    from mitmproxy.addons import tlsconfig
    from mitmproxy.proxy import context
    from mitmproxy.test import taddons
    S.update(ssl=ssl, x509=x509, hashes=hashes, serialization=serialization, SSL=SSL, crypto=crypto, certs=certs,
             connection=connection, tls=tls, context=context, tlsconfig=tlsconfig)
    root = tempfile.mkdtemp(prefix="c16-")
    atexit.register(shutil.rmtree, root, True)
    S["cas"] = []
    for k, kind in enumerate(["default", "intermediate", "legacy"]):
        td = os.path.join(root, kind)
        os.makedirs(td)
        anchor = None if kind == "default" else _mk_ca_files(td, kind)
        ta = tlsconfig.TlsConfig()
        tctx = taddons.context(ta)
        tctx.__enter__()
        tctx.configure(ta, confdir=td)
        st = ta.certstore
        ca = st.default_ca.to_cryptography()
        anchor = anchor or st.default_ca.to_pem()
        try:
            ski = ca.extensions.get_extension_for_class(x509.SubjectKeyIdentifier).value.digest.hex()
        except x509.ExtensionNotFound:
            ski = None
        S["cas"].append({
            "ta": ta, "tctx": tctx, "anchor_pem": anchor, "ca": ca, "strict": kind != "legacy",
            "store_args": (st.default_privatekey, st.default_ca, st.default_chain_file, st.default_crl, st.dhparams),
            "desc": {"id": k + 1, "ski": ski, "sha1": x509.SubjectKeyIdentifier.from_public_key(ca.public_key()).digest.hex(),
                     "nb": int(ca.not_valid_before_utc.timestamp()), "na": int(ca.not_valid_after_utc.timestamp()),
                     "serial": ca.serial_number}})
    S["upkey"] = ec.generate_private_key(ec.SECP256R1())
    S["upcache"] = {}
    S["rot"] = _mk_rotation_pool(root)
    real_dt = datetime

    class _Shim:
        """stands in for the datetime module inside mitmproxy.certs while a case runs: now() is frozen"""
        frozen = None

        class datetime(real_dt.datetime):
            @classmethod
            def now(cls, tz=None):
                assert tz is None
                return _Shim.frozen

        def __getattr__(self, name):
            return getattr(real_dt, name)
    S["shim"] = _Shim()
    S["Shim"] = _Shim


def _upstream_cert(desc):
    """build, serialise and re-parse a certificate with the described subject/SANs/CRL"""
    x509 = S["x509"]
    from cryptography.x509.oid import NameOID
    key = repr(desc)
    if key in S["upcache"]:
        return S["upcache"][key]
    subj = []
    if desc["cn"] is not None:
        subj.append(x509.NameAttribute(NameOID.COMMON_NAME, desc["cn"], _validate=False))
    if desc["org"] is not None:
        subj.append(x509.NameAttribute(NameOID.ORGANIZATION_NAME, desc["org"], _validate=False))
    sans = []
    for kind, v in desc["sans"]:
        if kind == "d":
            sans.append(x509.DNSName(v))
        elif kind == "i":
            sans.append(x509.IPAddress(ipaddress.ip_address(v)))
        elif kind == "m":
            sans.append(x509.RFC822Name(v))
        elif kind == "u":
            sans.append(x509.UniformResourceIdentifier(v))
        elif kind == "n":
            sans.append(x509.DirectoryName(x509.Name([x509.NameAttribute(NameOID.COMMON_NAME, v)])))
        else:
            sans.append(x509.RegisteredID(x509.ObjectIdentifier(v)))
    now = datetime.datetime.utcnow()
    b = (x509.CertificateBuilder().subject_name(x509.Name(subj)).issuer_name(x509.Name(subj))
         .public_key(S["upkey"].public_key()).serial_number(7)
         .not_valid_before(now - datetime.timedelta(days=1)).not_valid_after(now + datetime.timedelta(days=30)))
    if sans:
        b = b.add_extension(x509.SubjectAlternativeName(sans), critical=False)
    if desc["crl"] is not None:
        b = b.add_extension(x509.CRLDistributionPoints(
            [x509.DistributionPoint([x509.UniformResourceIdentifier(desc["crl"])], None, None, None)]), critical=False)
    pem = b.sign(S["upkey"], S["hashes"].SHA256()).public_bytes(S["serialization"].Encoding.PEM)
    c = S["certs"].Cert.from_pem(pem)
    S["upcache"][key] = c
    return c


def _gn(g):
    """x509.GeneralName -> JSON view [kind, ...]"""
    x509 = S["x509"]
    if isinstance(g, x509.DNSName):
        return ["d", g.value]
    if isinstance(g, x509.IPAddress):
        v = g.value
        if isinstance(v, (ipaddress.IPv4Address, ipaddress.IPv6Address)):
            return ["i", v.version, int(v)]
        return ["o", 7, str(v)]
    tag = {x509.RFC822Name: 1, x509.DirectoryName: 4, x509.UniformResourceIdentifier: 6, x509.RegisteredID: 8}.get(type(g), 0)
    return ["o", tag, str(g.value)]


def _up_view(c):
    """the inputs get_cert reads from the upstream certificate"""
    crls = c.crl_distribution_points
    if not crls:
        crl = None
    else:
        try:
            scheme, netloc, *_ = urllib.parse.urlsplit(crls[0])
            crl = [scheme, netloc]
        except ValueError:
            crl = "error"
    return {"cn": c.cn, "sans": [_gn(g) for g in c.altnames], "org": c.organization, "crl": crl, "crl0": crls[0] if crls else None}


def _idna(s):
    try:
        return s.encode("idna").decode("ascii")
    except UnicodeError:
        return None


def _tab(strings):
    out = []
    for s in strings:
        if s and not s.isascii() and all(s != k for k, _ in out):
            try:
                out.append([s, s.encode("idna").hex()])
            except UnicodeError:
                out.append([s, None])
    return out


def _mk_context(cfg, r):
    connection, context = S["connection"], S["context"]
    c = context.Context(connection.Client(peername=("192.0.2.1", 1234), sockname=(r["sock"], 8080), timestamp_start=0),
                        cfg["tctx"].options)
    c.client.sni = r["sni"]
    if r["addr"] is not None:
        c.server.address = (r["addr"], 443)
    upc = None
    if r["up"] is not None:
        upc = _upstream_cert(r["up"])
        c.server.certificate_list = [upc]
    return c, upc


def _start(cfg, ctx_, frozen, opt):
    """the real tls_start_client with the clock frozen; returns (ssl_conn | None, error kind | None)"""
    certs = S["certs"]
    td = S["tls"].TlsData(ctx_.client, ctx_)
    S["Shim"].frozen = frozen
    saved = certs.datetime
    gopts = S["mctx"].options        # the addon reads the global mitmproxy.ctx.options
    saved_opt = gopts.upstream_cert
    gopts.upstream_cert = opt
    certs.datetime = S["shim"]
    try:
        cfg["ta"].tls_start_client(td)
    except UnicodeError:
        return None, "idna"
    except ValueError:
        return None, "value"
    except Exception as e:  # anything else is its own observable
        return None, "other:" + type(e).__name__
    finally:
        certs.datetime = saved
        gopts.upstream_cert = saved_opt
    td.ssl_conn.set_accept_state()
    return td.ssl_conn, None


def _cert_view(cfg, cert):
    """fields of the served certificate (cryptography object)"""
    x509 = S["x509"]
    from cryptography.x509.oid import ExtendedKeyUsageOID, NameOID
    ca = cfg["ca"]
    k = cfg["desc"]["id"]
    try:
        cert.verify_directly_issued_by(ca)
        signer = k
    except Exception:
        signer = 0
    subj = [(a.oid.dotted_string, a.value) for a in cert.subject]
    cn = [v for o, v in subj if o == NameOID.COMMON_NAME.dotted_string]
    org = [v for o, v in subj if o == NameOID.ORGANIZATION_NAME.dotted_string]
    shape_ok = subj == ([(NameOID.COMMON_NAME.dotted_string, cn[0])] if cn else []) + \
        ([(NameOID.ORGANIZATION_NAME.dotted_string, org[0])] if org else [])
    v = {"issuer": k if cert.issuer == ca.subject else 0, "signer": signer,
         "pubkey": k if cert.public_key().public_numbers() == ca.public_key().public_numbers() else 0,
         "cn": cn[0] if cn else None, "org": org[0] if org else None, "subject_shape_ok": shape_ok,
         "nb": int(cert.not_valid_before_utc.timestamp()), "na": int(cert.not_valid_after_utc.timestamp()),
         "serial": cert.serial_number, "sans": [], "san_critical": None, "eku": [], "aki": "", "crl": None, "extra": []}
    for e in cert.extensions:
        if isinstance(e.value, x509.SubjectAlternativeName):
            v["sans"] = [_gn(g) for g in e.value]
            v["san_critical"] = e.critical
        elif isinstance(e.value, x509.ExtendedKeyUsage):
            v["eku"] = [1 if o == ExtendedKeyUsageOID.SERVER_AUTH else (2 if o == ExtendedKeyUsageOID.CLIENT_AUTH else 99)
                        for o in e.value]
            if e.critical:
                v["extra"].append("eku-critical")
        elif isinstance(e.value, x509.AuthorityKeyIdentifier):
            v["aki"] = (e.value.key_identifier or b"").hex()
            if e.critical or e.value.authority_cert_issuer or e.value.authority_cert_serial_number:
                v["extra"].append("aki-shape")
        elif isinstance(e.value, x509.CRLDistributionPoints):
            pts = list(e.value)
            if len(pts) == 1 and pts[0].full_name and len(pts[0].full_name) == 1 and not e.critical \
                    and isinstance(pts[0].full_name[0], x509.UniformResourceIdentifier):
                v["crl"] = pts[0].full_name[0].value
            else:
                v["extra"].append("crl-shape")
        else:
            v["extra"].append(e.oid.dotted_string)
    if v["san_critical"] is None:
        v["extra"].append("no-san")
        v["san_critical"] = False
    if not shape_ok:
        v["extra"].append("subject-shape")
    return v


def _pump(client_step, client_out, client_in, server):
    SSL = S["SSL"]
    for _ in range(12):
        done, err = client_step()
        if err:
            return err
        data = client_out()
        if data:
            server.bio_write(data)
        try:
            server.do_handshake()
        except SSL.WantReadError:
            pass
        except SSL.Error as e:
            # the client aborted with an alert: ask the client once more for its verdict
            d2, err2 = client_step()
            return err2 or ("srv:%r" % (e,))
        try:
            client_in(server.bio_read(1 << 16))
        except SSL.WantReadError:
            pass
        if done:
            return "ok"
    return "loop"


def _verify_py(cfg, server, host):
    """Python ssl (system OpenSSL): CERT_REQUIRED, check_hostname, VERIFY_X509_STRICT"""
    ssl = S["ssl"]
    cctx = ssl.SSLContext(ssl.PROTOCOL_TLS_CLIENT)
    if cfg["strict"]:
        cctx.verify_flags |= ssl.VERIFY_X509_STRICT
    cctx.load_verify_locations(cadata=cfg["anchor_pem"].decode())
    inc, out = ssl.MemoryBIO(), ssl.MemoryBIO()
    try:
        obj = cctx.wrap_bio(inc, out, server_hostname=host)
    except (ValueError, UnicodeError, TypeError, ssl.SSLError):
        return "n/a"   # this verifier cannot be asked about such a name

    def step():
        try:
            obj.do_handshake()
            return True, None
        except ssl.SSLWantReadError:
            return False, None
        except ssl.SSLCertVerificationError as e:
            return False, "verify:%d" % e.verify_code
        except ssl.SSLError as e:
            return False, "sslerr:%s" % (e.reason,)
    return _pump(step, out.read, inc.write, server)


def _verify_ossl(cfg, server, kind, val, when):
    """pyOpenSSL (bundled OpenSSL): X509_STRICT, NO_PARTIAL_WILDCARDS|NEVER_CHECK_SUBJECT, explicit time"""
    SSL, crypto, x509 = S["SSL"], S["crypto"], S["x509"]
    lib = SSL._lib
    cctx = SSL.Context(SSL.TLS_CLIENT_METHOD)
    st = cctx.get_cert_store()
    st.add_cert(crypto.X509.from_cryptography(x509.load_pem_x509_certificate(cfg["anchor_pem"])))
    res = {}

    def cb(conn, cert, errno, depth, ok):
        if not ok:
            res.setdefault("err", errno)
        return ok
    cctx.set_verify(SSL.VERIFY_PEER, cb)
    param = lib.SSL_CTX_get0_param(cctx._context)
    if cfg["strict"]:
        lib.X509_VERIFY_PARAM_set_flags(param, lib.X509_V_FLAG_X509_STRICT)
    lib.X509_VERIFY_PARAM_set_hostflags(param, lib.X509_CHECK_FLAG_NO_PARTIAL_WILDCARDS | lib.X509_CHECK_FLAG_NEVER_CHECK_SUBJECT)
    lib.X509_VERIFY_PARAM_set_time(param, when)
    if kind == "host":
        if not val or lib.X509_VERIFY_PARAM_set1_host(param, val, len(val)) != 1:
            return "n/a"
    else:
        if lib.X509_VERIFY_PARAM_set1_ip(param, val, len(val)) != 1:
            return "n/a"
    cl = SSL.Connection(cctx)
    cl.set_connect_state()

    def step():
        try:
            cl.do_handshake()
            return True, None
        except SSL.WantReadError:
            return False, None
        except SSL.Error:
            return False, "verify:%s" % res.get("err")

    def out():
        try:
            return cl.bio_read(1 << 16)
        except SSL.WantReadError:
            return b""
    return _pump(step, out, cl.bio_write, server)


def _verify_rust(cfg, leaf, chain, kind, text, when):
    """cryptography's own path validator (Rust), server profile"""
    x509 = S["x509"]
    from cryptography.x509.verification import PolicyBuilder, Store
    try:
        subj = x509.DNSName(text) if kind == "host" else x509.IPAddress(ipaddress.ip_address(text))
    except ValueError:
        return "n/a"
    try:
        v = (PolicyBuilder().store(Store([x509.load_pem_x509_certificate(cfg["anchor_pem"])]))
             .time(datetime.datetime.utcfromtimestamp(when)).build_server_verifier(subj))
    except Exception:
        return "n/a"
    try:
        v.verify(leaf, chain)
        return "ok"
    except Exception as e:
        msg = str(e)
        if "invalid domain name" in msg or "unsupported" in msg.lower():
            return "n/a"
        return "fail:" + msg[:80]


AMBIG_V4 = re.compile(r"\s*[+-]?\d+\.\s*[+-]?\d+\.\s*[+-]?\d+\.\s*[+-]?\d+\s*")


def _typed_for_pyssl(text):
    """how Python ssl (a2i_IPADDRESS) classifies a server_hostname, when that is unambiguous; else None"""
    try:
        ip = ipaddress.ip_address(text)
        if "%" in text:
            return None
        return ["ip", ip.packed.hex()]
    except ValueError:
        pass
    if ":" in text or AMBIG_V4.fullmatch(text) or not text.isascii() or not text or text.startswith(".") or "\x00" in text:
        return None
    return ["host", text.encode().hex()]


def _reference(name):
    """the reference identity a client that asked for `name` verifies: (kind, text) or None"""
    if name is None or name == "":
        return None
    try:
        ip = ipaddress.ip_address(name)
        return ("ip", str(ipaddress.ip_address(ip.packed)))
    except ValueError:
        a = _idna(name)
        return ("host", a) if a else None


def _targets(picks, r, view, ref):
    """identities/times to verify the served certificate for: list of [verifier, kind, text, time_off];
    which candidates are taken is decided by the case's own `picks` (drawn by the generator)"""
    picks = list(picks) or [0]
    pos = [0]

    def pick(seq):
        x = seq[picks[pos[0] % len(picks)] % len(seq)]
        pos[0] += 1
        return x
    t = []
    if ref:
        t += [["py", ref[0], ref[1], 0], ["ossl", ref[0], ref[1], 0]]
    cands = []
    for g in view["sans"]:
        if g[0] == "d":
            v = g[1]
            if v.startswith("*."):
                base = v[2:]
                cands += [("host", "www." + base), ("host", "a.b." + base), ("host", base), ("host", "xn--abc." + base),
                          ("host", "w_w." + base), ("host", "." + base), ("host", "WWW." + base.upper()), ("host", v)]
            else:
                cands += [("host", v), ("host", v.upper()), ("host", "sub." + v), ("host", "." + v.partition(".")[2]),
                          ("host", v.partition(".")[2])]
        elif g[0] == "i":
            ip = ipaddress.ip_address(g[2]) if g[1] == 6 else ipaddress.IPv4Address(g[2])
            cands += [("ip", str(ip)), ("host", str(ip))]
    if view["cn"]:
        cands.append(("host", view["cn"]))
    cands += [(("ip" if _is_ip(f) else "host"), f) for f in FOREIGN]
    cands = [c for c in cands if c[1]]
    for _ in range(pick([1, 2, 3, 4])):
        kind, text = pick(cands)
        if kind == "ip":
            text = str(ipaddress.ip_address(text))
        t.append([pick(["py", "ossl", "ossl"]), kind, text, 0])
    if ref and pick([0, 1, 1]):
        t.append(["ossl", ref[0], ref[1], pick(TIME_OFFS) + pick([0, 0, 3600 * r.get("tz", 0)])])
    return t


def _is_ip(s):
    try:
        ipaddress.ip_address(s)
        return True
    except ValueError:
        return False


def _issue(cfg, r, tz, now, with_conn=True):
    """one real tls_start_client; returns (outcome dict, ssl_conn factory)"""
    ctx_, upc = _mk_context(cfg, r)
    frozen = datetime.datetime.utcfromtimestamp(now) + datetime.timedelta(hours=tz)
    conn, err = _start(cfg, ctx_, frozen, r["opt"])
    up = _up_view(upc) if upc is not None else None
    strings = [r["sni"], r["sock"], r["addr"], up["cn"] if up else None]
    base = {"up": up, "tab": _tab([s for s in strings if s])}
    if err:
        base["err"] = err
        return base, None, None
    cert = conn.get_certificate(as_cryptography=True)
    base["cert"] = _cert_view(cfg, cert)

    def again():
        c2, e2 = _start(cfg, ctx_, frozen, r["opt"])   # same store: served from the cache, same certificate
        assert e2 is None and c2.get_certificate(as_cryptography=True).serial_number == cert.serial_number, (e2, r)
        return c2
    return base, conn, (again, cert)


def run_impl(case):
    k = case["k"]
    if k == "ip":
        try:
            ip = ipaddress.ip_address(case["s"])
        except ValueError:
            return {"ip": None}
        return {"ip": [ip.packed.hex(), getattr(ip, "scope_id", None), str(ip)]}
    if k == "idna":
        return {"idna": _idna(case["s"])}
    if k == "reload":
        return _run_reload(case)
    cfg = S["cas"][case["ca"]]
    certs = S["certs"]
    cfg["ta"].certstore = certs.CertStore(*cfg["store_args"])      # fresh store, same CA
    now = int(time.time())
    if k == "pair":
        o1, conn1, _ = _issue(cfg, case["r1"], case["tz"], now)
        up2 = _up_view(_upstream_cert(case["r2"]["up"])) if case["r2"]["up"] is not None else None
        res = {"now": now, "o1": o1, "o2": None, "same": False, "up2": up2,
               "tab": _tab([x for r_, u_ in ((case["r1"], o1["up"]), (case["r2"], up2))
                            for x in (r_["sni"], r_["sock"], r_["addr"], u_["cn"] if u_ else None) if x])}
        if "err" not in o1:
            o2, conn2, _ = _issue(cfg, case["r2"], case["tz"], now)
            res["o2"] = o2
            res["same"] = "err" not in o2 and o2["cert"]["serial"] == o1["cert"]["serial"]
        return res
    o, conn, more = _issue(cfg, case, case["tz"], now)
    res = {"now": now, "o": o, "verdicts": [], "real_now_ok": None, "rust": None}
    if conn is None:
        return res
    again, cert = more
    ref = _reference(case["sni"] or case["sock"])
    res["ref"] = list(ref) if ref else None
    res["real_now_ok"] = cert.not_valid_before_utc.timestamp() <= time.time() <= cert.not_valid_after_utc.timestamp()
    first = True
    for verifier, kind, text, off in _targets(case.get("picks", []), case, o["cert"], ref):
        server = conn if first else again()
        first = False
        if verifier == "py":
            out = _verify_py(cfg, server, text)
            typed = _typed_for_pyssl(text)
        else:
            val = text.encode("ascii", "replace") if kind == "host" else ipaddress.ip_address(text).packed
            out = _verify_ossl(cfg, server, kind, val, now + off)
            typed = [kind, val.hex()]
        res["verdicts"].append({"v": verifier, "kind": kind, "text": text, "off": off, "out": out, "typed": typed})
    if ref and cfg["strict"]:
        chain = [c.to_cryptography() for c in cfg["ta"].certstore.default_chain_certs]
        res["rust"] = _verify_rust(cfg, cert, chain, ref[0], ref[1], now)
    return res


# ------------------------------------------------------------------------------------------------ Coq printers
def _b(s):
    return cbytes(s.encode("utf-8"))


def _ob(s):
    return copt(s, _b, "bytes")


def _cgn(g):
    if g[0] == "d":
        return f"(GDNS {_b(g[1])})"
    if g[0] == "i":
        return f"(GIP (V4 {cN(g[2])}))" if g[1] == 4 else f"(GIP (V6 {cN(g[2])} None))"
    return f"(GOther {cN(g[1])} {_b(g[2])})"


def _cup(up):
    if up is None:
        return "(@None ucert)"
    if up["crl"] is None:
        crl = "None"
    elif up["crl"] == "error":
        crl = "(Some None)"
    else:
        crl = f"(Some (Some ({_b(up['crl'][0])}, {_b(up['crl'][1])})))"
    return f"(Some (mkUcert {_ob(up['cn'])} {clist([_cgn(g) for g in up['sans']], 'gname')} {_ob(up['org'])} {crl}))"


def _creq(r, up):
    return f"(mkReq {cbool(r['opt'])} {_ob(r['sni'])} {_b(r['sock'])} {_ob(r['addr'])} {_cup(up)})"


def _cca(d):
    ski = copt(d["ski"], lambda h: cbytes(bytes.fromhex(h)), "bytes")
    return (f"(mkCa {cN(d['id'])} {cN(d['id'])} {ski} {cbytes(bytes.fromhex(d['sha1']))} true true "
            f"{cZ(d['nb'])} {cZ(d['na'])})")


def _ctab(tab):
    return clist([f"({_b(k)}, {copt(v, lambda h: cbytes(bytes.fromhex(h)), 'bytes')})" for k, v in tab], "(bytes * option bytes)")


def _cout(o):
    if "err" in o:
        if o["err"] == "idna":
            return "(OErr EIdna)"
        if o["err"] == "value":
            return "(OErr EValue)"
        return "OOther"
    c = o["cert"]
    cert = (f"(mkCert {cN(c['issuer'])} {cN(c['signer'])} {cN(c['pubkey'])} {_ob(c['cn'])} {_ob(c['org'])} "
            f"{clist([_cgn(g) for g in c['sans']], 'gname')} {cbool(c['san_critical'])} {clist([cN(e) for e in c['eku']], 'N')} "
            f"{cZ(c['nb'])} {cZ(c['na'])} {cbytes(bytes.fromhex(c['aki']))} {_ob(c['crl'])})")
    return f"(OCert {cert} {clist([_b(x) for x in c['extra']], 'bytes')})"


def coq_case(case, obs):
    k = case["k"]
    if k == "ip":
        impl = obs["ip"]
        t = "None" if impl is None else f"(Some ({cbytes(bytes.fromhex(impl[0]))}, {_ob(impl[1])}, {_b(impl[2])}))"
        return f"Ip {_b(case['s'])} {t}"
    if k == "idna":
        return f"Idna {_b(case['s'])} {_ob(obs['idna'])}"
    if k == "reload":
        ops = [f"(LeafCertCtx.Rewrite {cN(a)})" if o == "rewrite" else "LeafCertCtx.Reload" if o == "reload"
               else f"(LeafCertCtx.Handshake {cN(a)})" for o, a in case["ops"]]
        return (f"Ctx {clist(ops, 'LeafCertCtx.op')} "
                f"{clist([f'({cN(x['issuer'])}, {cbool(x['complete'])})' for x in obs['shown']], '(N * bool)')}")
    d = S["cas"][case["ca"]]["desc"]
    if k == "pair":
        o1, o2 = obs["o1"], obs["o2"]
        return (f"Pair {_ctab(obs['tab'])} {_cca(d)} {cN(d['serial'])} {cZ(obs['now'])} {cZ(case['tz'] * 3600)} "
                f"{_creq(case['r1'], o1['up'])} {_creq(case['r2'], obs['up2'])} "
                f"{_cout(o1)} {_cout(o2) if o2 else 'OOther'} {cbool(obs['same'])}")
    o = obs["o"]
    vs = []
    for v in obs["verdicts"]:
        if v["out"] == "n/a" or v["typed"] is None:
            continue
        if not (v["out"] == "ok" or v["out"].startswith("verify:")):
            return f"Issue {_ctab(o['tab'])} {_cca(d)} 0%N 0%Z 0%Z {_creq(case, o['up'])} OOther nil"   # handshake trouble: visible
        tk, hexv = v["typed"]
        tgt = f"(THost {cbytes(bytes.fromhex(hexv))})" if tk == "host" else f"(TIP {cbytes(bytes.fromhex(hexv))})"
        vs.append(f"(mkV {cbool(v['v'] == 'py')} {cZ(v['off'])} {tgt} {cbool(v['out'] == 'ok')})")
    return (f"Issue {_ctab(o['tab'])} {_cca(d)} {cN(d['serial'])} {cZ(obs['now'])} {cZ(case['tz'] * 3600)} "
            f"{_creq(case, o['up'])} {_cout(o)} {clist(vs, 'verdict')}")


# ------------------------------------------------------------------------------------------------ oracle
LABEL = re.compile(r"[A-Za-z0-9_-]{1,63}\Z")


def _name_class(s):
    """what kind of identity a string is, by syntax alone: ip | dns | wild | idn | other"""
    if not s:
        return "other"
    if _is_ip(s):
        return "ip"
    if not s.isascii():
        a = _idna(s)
        return "idn" if a and _name_class(a) == "dns" else "other"
    if len(s) > 253:
        return "other"
    labels = (s[:-1] if s.endswith(".") else s).split(".")
    if labels[0] == "*" and len(labels) > 1 and all(LABEL.match(x) for x in labels[1:]):
        return "wild"
    if all(LABEL.match(x) for x in labels) and not any(x.startswith("-") or x.endswith("-") for x in labels):
        return "dns"
    return "other"


def _derives(g, strings, up_sans):
    """is the served SAN g (JSON view) taken from one of the allowed strings or upstream SANs"""
    if g in up_sans:
        return True
    for s in strings:
        if not s:
            continue
        if _is_ip(s):
            ip = ipaddress.ip_address(s)
            if g[0] == "i" and g[1] == ip.version and g[2] == int(ip):
                return True
        elif g[0] == "d" and (g[1] == s or g[1] == _idna(s)):
            return True
    return False


def _oracle_issue(case, o, obs, requested_checks):
    v = []
    r = case
    up = o["up"] if r["opt"] else None
    req = r["sni"] or r["sock"]
    rc = _name_class(req)
    ac = _name_class(r["addr"]) if r["addr"] is not None else "none"
    if "err" in o:
        if rc == "other" or ac == "other":
            return v          # the requested identity or the server address is not a name the property speaks about
        cn = up["cn"] if up else None
        cn_usable = bool(cn) and (_is_ip(cn) or _idna(cn) is not None)
        if o["err"] == "idna" and cn and not cn_usable:
            return [{"key": "upstream-cn-not-a-hostname",
                     "what": f"get_cert raises UnicodeError (no certificate for the client) for sni={r['sni']!r} because the "
                             f"upstream certificate's CN {cn!r} cannot be IDNA-encoded"}]
        if o["err"] == "value" and up and not cn_usable and up["sans"] and up["sans"][0][0] == "d" and up["sans"][0][1] == "":
            return [{"key": "upstream-empty-first-san",
                     "what": f"get_cert raises ValueError for sni={r['sni']!r}: the upstream certificate contributes no usable CN "
                             f"(CN {cn!r}) and its first SAN is an empty dNSName, so the common name is ''"}]
        return [{"key": "get-cert-raises", "what": f"get_cert raises {o['err']} for sni={r['sni']!r} sock={r['sock']!r} addr={r['addr']!r} upstream={r['up']!r}"}]
    c = o["cert"]
    d = S["cas"][case["ca"]]["desc"]
    if c["issuer"] != d["id"] or c["signer"] != d["id"]:
        v.append({"key": "not-issued-by-ca", "what": f"served certificate is not issued/signed by the configured CA ({case!r})"})
    if 1 not in c["eku"]:
        v.append({"key": "no-server-auth", "what": f"ExtendedKeyUsage {c['eku']} lacks serverAuth"})
    if c["extra"]:
        v.append({"key": "unexpected-extension", "what": f"served certificate has unexpected shape {c['extra']}"})
    strings = [req, r["addr"], up["cn"] if up else None]
    up_sans = up["sans"] if up else []
    for g in c["sans"]:
        if not _derives(g, strings, up_sans):
            v.append({"key": "foreign-name", "what": f"SAN {g!r} is taken neither from sni/local address {req!r}, server address "
                                                      f"{r['addr']!r} nor the upstream certificate"})
            break
    if c["cn"] is not None:
        texts = []
        for g in c["sans"]:
            if g[0] == "i":
                texts.append(str(ipaddress.IPv4Address(g[2]) if g[1] == 4 else ipaddress.IPv6Address(g[2])))
            else:
                texts.append(g[-1])
        if c["cn"] not in texts and c["cn"].partition("%")[0] not in texts:
            v.append({"key": "foreign-cn", "what": f"subject CN {c['cn']!r} is not one of the certificate's SANs {texts!r}"})
    if not c["sans"]:
        v.append({"key": "empty-san", "what": "no subjectAltName"})
    if c["cn"] is None and c["org"] is None and not c["san_critical"]:
        v.append({"key": "san-not-critical", "what": "empty subject but subjectAltName not critical"})
    if requested_checks is False and c["san_critical"] and (c["cn"] is not None or c["org"] is not None):
        pass  # reported through the strict validator in issue cases (san-critical-with-nonempty-subject)
    if requested_checks:
        if obs["real_now_ok"] is False:
            v.append({"key": "not-valid-now", "what": f"validity [{c['nb']}, {c['na']}] does not contain the time of issue "
                                                       f"{obs['now']} (local clock offset {case['tz']} h)"})
        if rc in ("ip", "dns", "wild", "idn"):
            outs = [(x["v"], x["out"]) for x in obs["verdicts"][:2] if x["off"] == 0]
            if obs.get("rust"):
                outs.append(("rust", obs["rust"]))
            applicable = [(w, x) for w, x in outs if x != "n/a"]
            bad = [(w, x) for w, x in applicable if x != "ok"]
            if bad:
                key = "verify-fails"
                if rc == "dns" and AMBIG_V4.fullmatch(req) and all(w == "py" for w, _ in bad):
                    key = "ipv4-lookalike-issued-as-dns"
                elif all(w == "rust" and "subjectAltName MUST NOT be critical" in x for w, x in bad) \
                        and c["san_critical"] and (c["cn"] is not None or c["org"] is not None):
                    key = "san-critical-with-nonempty-subject"
                v.append({"key": key, "what": f"certificate served for {req!r} (reference identity {obs.get('ref')!r}, CA config "
                                              f"{case['ca']}) is rejected: {bad!r}; SANs {c['sans']!r}"})
            elif not applicable:
                v.append({"key": "no-verifier", "what": f"no verifier could be asked about {req!r}"})
    return v


def _oracle_reload(case, obs):
    """every handshake must present a chain that verifies strictly against the configured root, with a leaf issued by
    the CA of the currently loaded store; bookkeeping of the inputs only (which chain is in the file / was loaded)"""
    v = []
    file = loaded = 0
    late = False            # a client connected while the file was ahead of the store (documented precondition broken)
    it = iter(obs["shown"])
    for op, arg in case["ops"]:
        if op == "rewrite":
            file = arg
        elif op == "reload":
            loaded = file
        else:
            x = next(it)
            if file != loaded:
                late = True
            bad = [f"{w}:{r}" for w, r in sorted(x["verify"].items()) if r != "ok"]
            if not x["issuer_is_store_ca"] or x["issuer"] != loaded:
                v.append({"key": "leaf-not-from-current-ca",
                          "what": f"history {case['ops']!r}: leaf issued by intermediate {x['issuer']}, store loaded {loaded}"})
            elif bad:
                key = "chain-file-read-late" if late else "stale-chain-after-reload"
                v.append({"key": key,
                          "what": f"history {case['ops']!r}: the handshake after CA chain {loaded} was loaded presents {x['n_presented']} "
                                  f"certificate(s) without the issuing intermediate; strict verification against the root: {bad!r}"})
            if v:
                break
    return v


def oracle(case, obs):
    k = case["k"]
    if k in ("ip", "idna"):
        return []
    if k == "reload":
        return _oracle_reload(case, obs)
    if k == "pair":
        v = _oracle_issue(case["r1"] | {"ca": case["ca"], "tz": case["tz"]}, obs["o1"], obs, False)
        if obs["o2"] is not None:
            o2 = obs["o2"]
            if obs["same"]:
                # a cached certificate is served: it must still only carry names allowed for the second request
                v += [x for x in _oracle_issue(case["r2"] | {"ca": case["ca"], "tz": case["tz"]}, o2, obs, False)]
            else:
                v += _oracle_issue(case["r2"] | {"ca": case["ca"], "tz": case["tz"]}, o2, obs, False)
        return v
    return _oracle_issue(case, obs["o"], obs, True)


def nontrivial(case, obs):
    k = case["k"]
    if k == "ip":
        return obs["ip"] is not None
    if k == "idna":
        return "." in case["s"]
    if k == "reload":
        return len({x["issuer"] for x in obs["shown"]}) > 1
    if k == "pair":
        return obs["o2"] is not None
    if "err" in obs["o"]:
        return True
    outs = {x["out"] == "ok" for x in obs["verdicts"] if x["out"] != "n/a"}
    return len(outs) == 2


def classify(case, obs):
    k = case["k"]
    if k == "ip":
        return ["ip", "ip-ok" if obs["ip"] else "ip-reject"]
    if k == "idna":
        return ["idna", "idna-ok" if obs["idna"] is not None else "idna-reject"]
    if k == "reload":
        return ["reload", f"reload-cas={len({x['issuer'] for x in obs['shown']})}",
                "reload-all-complete" if all(x["complete"] for x in obs["shown"]) else "reload-incomplete-chain",
                f"reload-handshakes={min(len(obs['shown']), 6)}"]
    if k == "pair":
        return ["pair", "pair-cache-hit" if obs["same"] else "pair-miss"]
    o = obs["o"]
    tags = ["issue", f"ca={case['ca']}", "req=" + _name_class(case["sni"] or case["sock"]),
            "sni" if case["sni"] else "no-sni", "upstream" if case["up"] and case["opt"] else "no-upstream"]
    if "err" in o:
        tags.append("err=" + o["err"])
    else:
        c = o["cert"]
        tags.append("cn" if c["cn"] is not None else "no-cn")
        tags.append(f"sans={min(len(c['sans']), 5)}")
        if c["crl"]:
            tags.append("crl")
        for x in obs["verdicts"]:
            tags.append(f"{x['v']}:{'na' if x['out'] == 'n/a' else ('ok' if x['out'] == 'ok' else 'reject')}")
        if any(x["off"] for x in obs["verdicts"]):
            tags.append("time-shift")
    return tags
