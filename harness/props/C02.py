"""C02 -- HTTP/1 behaviour does not depend on TCP segmentation or pipelining
(mitmproxy/proxy/layers/http/_http1.py + h11 ReceiveBuffer / body readers).

Case kinds
  srv / cli : a real Http1Server / Http1Client object driven event by event (data segments, HttpEvents passed to
              send(), peer close).  Correspondence with Model/Http1Seg.v (exact commands / ReceiveHttp events per
              event); oracle: the receive-side event stream (adjacent data merged) equals that of the unsplit stream.
  buf       : a real h11 ReceiveBuffer driven with random operations (correspondence only).
  upg       : a real HttpLayer through lib.sansio.Driver for an Upgrade exchange (101 to websocket / raw tcp, optionally
              after a plain request): the client sends the first bytes of the upgraded protocol without waiting for
              the 101; they are cut at every point relative to the request and interleaved before/after the 101;
              oracle: no crash, same flows (HTTP, websocket messages, tcp bytes per direction), hooks, bytes to each
              peer as for the unsplit delivery.  Not sent to Coq.
  e2e       : a real HttpLayer (regular mode) through lib.sansio.Driver: one client byte stream with pipelined
              requests, one response per forwarded request, delivered under a segmentation of both streams and an
              interleaving; oracle: flows, per-flow hook sequences and per-connection traffic equal those of the
              unsplit delivery.  Not sent to Coq.
"""
from lib.coqterm import cbytes, cbool, cN, cZ, clist, copt, hx, unhx

ID = "C02"
QUICK_N = 1300
THOROUGH_N = 10400
SHARD = 150
RULE = ("55% srv/cli direct-drive cases: a stream of 1-4 pipelined messages from a grammar (methods incl. HEAD/CONNECT, "
        "HTTP/1.0/1.1, Content-Length / chunked with extensions and trailers / read-until-EOF bodies, blank lines between "
        "messages, 101/CONNECT upgrades), 30% of them byte-mutated, under a segmentation (whole, one cut at a chosen point, "
        "1-byte segments, 1-3 random cuts, cuts at CR/LF positions) and a response timing per request; 10% ReceiveBuffer "
        "operation sequences; 12% upg cases (Upgrade to websocket / raw tcp through HttpLayer with early tunnel bytes cut and interleaved around the 101); 25% e2e HttpLayer cases (same grammar, optional streaming policy, both streams segmented, "
        "random interleaving, Expect: 100-continue requests with an origin that honours it, hook completions delayed by 0-4 segments); thorough adds every single cut point for 30 base streams. Distinct by canonical JSON; "
        "non-trivial = at least one message head was extracted (srv/cli/e2e) or one extraction succeeded (buf).")
TRUSTED = ["Coq 8.16.1 kernel (coqc), vm_compute for case evaluation",
           "harness/props/C02.py (generator, drivers, comparison glue) and harness/lib/sansio.py",
           "hand model Model/Http1Seg.v of _http1.py receive side and h11 0.16 ReceiveBuffer/readers, tied by correspondence",
           "message-level functions (read_*_head, expected_http_body_size, connection_close, should_make_pipe, "
           "_decode_header_lines) enter the model as parameters; the theorems hold for all of them (they are C01's subject)",
           "the proxy server delivers no DataReceived on a connection after executing CloseConnection for it (proxy/server.py)"]
ASSUMPTIONS = ["a layer crash (NotImplementedError for HTTP/1 trailers) is treated as the end of the connection",
               "e2e: the server sends response k only after request k has been written to it completely, never more; "
               "peer closes only at the end (client) or right after a close-delimited response (server)"]
TRANSLATORS = []
ALLOWED_AXIOMS = []
COQ_PRELUDE = "From MV Require Import Model.Http1Seg.\n"

# ------------------------------------------------------------------------------------------------ grammar
METHODS = [b"GET", b"GET", b"POST", b"PUT", b"HEAD", b"OPTIONS", b"DELETE"]
BODY_BYTES = b"abcXYZ019 \r\n:;"


def _w(rng, pairs):
    """weighted choice from (value, weight) pairs"""
    return rng.weighted([(w, v) for v, w in pairs if w > 0])


def _body(rng, n):
    return rng.bytes(n, BODY_BYTES)


def _chunked(rng, body):
    """encode body as chunks; returns bytes"""
    out = b""
    i = 0
    while i < len(body):
        k = rng.randint(1, max(1, min(17, len(body) - i)))
        size = b"%x" % k if rng.chance(0.7) else b"%X" % k
        if rng.chance(0.15):
            size = b"0" * rng.randint(1, 3) + size
        ext = _w(rng, [(b"", 8), (b";x=1", 1), (b"; a\rb", 1), (b" \t", 1), (b";", 1)])
        out += size + ext + b"\r\n" + body[i:i + k] + b"\r\n"
        i += k
    last = _w(rng, [(b"0", 8), (b"000", 1), (b"0;last", 1)])
    trailer = _w(rng, [(b"", 12), (b"X-T: 1\r\n", 1), (b" bad\r\n", 1), (b"nocolon\r\n", 1)])
    return out + last + b"\r\n" + trailer + b"\r\n"


def make_request(rng, i, direct):
    m = rng.choice(METHODS)
    if direct and rng.chance(0.06):
        m = b"CONNECT"
    ver = b"HTTP/1.1" if rng.chance(0.85) else b"HTTP/1.0"
    target = b"example.com:443" if m == b"CONNECT" else (b"http://example.com/p%d" % i if rng.chance(0.8) else b"/p%d" % i)
    hs = [b"Host: example.com"]
    if rng.chance(0.3):
        hs.append(rng.choice([b"X-A: 1", b"Accept: */*", b"X-Long: " + b"v" * 30, b"Cookie: a=b"]))
    body = b""
    kind = _w(rng, [("none", 4), ("cl", 4), ("chunked", 3)]) if m not in (b"CONNECT",) else "none"
    if m in (b"GET", b"HEAD", b"OPTIONS") and rng.chance(0.7):
        kind = "none"
    if ver == b"HTTP/1.0" and kind == "chunked":
        kind = "cl"
    if kind == "cl":
        b = _body(rng, rng.choice([0, 1, 2, 5, 16, 40]))
        hs.append(b"Content-Length: %d" % len(b))
        body = b
    elif kind == "chunked":
        hs.append(rng.choice([b"Transfer-Encoding: chunked", b"transfer-encoding: Chunked"]))
        body = _chunked(rng, _body(rng, rng.choice([0, 1, 7, 20, 33])))
    if (kind in ("cl", "chunked") and rng.chance(0.3)) or rng.chance(0.03):
        # a client that announces Expect but does not wait for the go-ahead
        hs.insert(rng.randint(1, len(hs)), rng.choice([b"Expect: 100-continue", b"expect: 100-Continue"]))
    if rng.chance(0.08):
        hs.append(b"Connection: close")
    eol = b"\r\n" if rng.chance(0.93) else b"\n"
    head = m + b" " + target + b" " + ver + eol + b"".join(h + eol for h in hs) + eol
    return head + body


def make_response(rng, method=b"GET", last=False, allow_upgrade=False):
    """returns (bytes, close_after)"""
    ver = b"HTTP/1.1" if rng.chance(0.85) else b"HTTP/1.0"
    st = _w(rng, [(b"200 OK", 10), (b"404 Not Found", 2), (b"204 No Content", 1), (b"304 Not Modified", 1), (b"500 Oops", 1)])
    if allow_upgrade and rng.chance(0.18):
        st = b"101 Switching Protocols"
    hs = [b"Server: t"]
    body = b""
    close = False
    kind = _w(rng, [("cl", 6), ("chunked", 3), ("eof", 1 if last else 0)])
    if st[:3] in (b"204", b"304", b"101"):
        kind = "cl0"
    if ver == b"HTTP/1.0" and kind == "chunked":
        kind = "cl"
    if kind == "cl":
        b = _body(rng, rng.choice([0, 1, 3, 12, 40]))
        hs.append(b"Content-Length: %d" % len(b))
        body = b if method != b"HEAD" else b""
    elif kind == "cl0":
        if st[:3] == b"101":
            hs.append(b"Upgrade: foo")
    elif kind == "chunked":
        hs.append(b"Transfer-Encoding: chunked")
        body = _chunked(rng, _body(rng, rng.choice([0, 2, 9, 30]))) if method != b"HEAD" else b""
    else:
        body = _body(rng, rng.choice([0, 4, 25])) if method != b"HEAD" else b""
        close = True
    if ver == b"HTTP/1.0" and kind != "eof":
        if rng.chance(0.5):
            hs.append(b"Connection: keep-alive")
        else:
            close = True
    if rng.chance(0.1):
        hs.append(b"Connection: close")
        close = True
    head = ver + b" " + st + b"\r\n" + b"".join(h + b"\r\n" for h in hs) + b"\r\n"
    return head + body, close


MUT_TOKENS = [b"\r", b"\n", b"\r\n", b"\r\n\r\n", b"\n\n", b" ", b";", b"0", b"f", b"g", b"\x00", b":", b"\t", b"0\r\n\r\n", b"1\r\nZ\r\n"]


def mutate(rng, s):
    s = bytearray(s)
    for _ in range(rng.randint(1, 3)):
        pos = rng.randint(0, len(s))
        r = rng.random()
        if r < 0.45:
            s[pos:pos] = rng.choice(MUT_TOKENS)
        elif r < 0.75 and len(s):
            del s[pos:pos + rng.randint(1, 3)]
        elif len(s):
            s[min(pos, len(s) - 1)] = rng.choice(b"\r\n 0a;:")
    return bytes(s)


def make_cuts(rng, n, mode=None, at=None):
    """sorted distinct cut positions in 1..n-1"""
    if n < 2:
        return []
    mode = mode or _w(rng, [("whole", 2), ("one", 5), ("bytes", 2), ("rand", 4)])
    if mode == "whole":
        return []
    if mode == "one":
        return [at if at is not None else rng.randint(1, n - 1)]
    if mode == "bytes":
        return list(range(1, n))
    return sorted(set(rng.randint(1, n - 1) for _ in range(rng.randint(1, 3))))


def crlf_cut(rng, s):
    """a cut next to a CR or LF (the delicate places), or None"""
    idx = [i for i in range(1, len(s)) if s[i - 1] in b"\r\n" or s[i] in b"\r\n"]
    return rng.choice(idx) if idx else None


def segments(s, cuts):
    ps = [0] + [c for c in cuts if 0 < c < len(s)] + [len(s)]
    return [s[a:b] for a, b in zip(ps, ps[1:]) if b > a]


# ------------------------------------------------------------------------------------------------ generator
def gen_stream_srv(rng):
    n = _w(rng, [(1, 3), (2, 4), (3, 2), (4, 1)])
    parts = []
    for i in range(n):
        if i and rng.chance(0.25):
            parts.append(rng.choice([b"\r\n", b"\n", b"\r\n\r\n"]))
        parts.append(make_request(rng, i, True))
    if rng.chance(0.1):
        parts.insert(0, rng.choice([b"\r\n", b"\n"]))
    if rng.chance(0.2):
        parts.append(rng.choice([b"\r\n", b"GET /partial HTTP/1.1\r\nHo", b"\r\nTLSDATA", b"\n\rx", b" \tSPACE", b"\t\r\nTAB",
                                 b"\x0b\x0c\r\nVT", b"\r \nq"]))
    s = b"".join(parts)
    if rng.chance(0.3):
        s = mutate(rng, s)
    return s, n


def gen_direct(rng, role, forced_cut=None, stream=None):
    if role == "srv":
        s, n = stream or gen_stream_srv(rng)
        msgs = n
        plan = []
        for i in range(n + 2):
            rb, close = make_response(rng, allow_upgrade=True)
            plan.append({"delay": _w(rng, [(0, 5), (1, 3), (2, 1), (5, 1)]), "resp": hx(rb), "data": rng.chance(0.5),
                         "early": rng.chance(0.06), "err": rng.chance(0.04)})
    else:
        if stream:
            s, n, plan = stream
        else:
            n = _w(rng, [(1, 4), (2, 4), (3, 2)])
            plan, parts = [], []
            for i in range(n):
                rq = make_request(rng, i, True)
                m = rq.split(b" ", 1)[0]
                rb, _ = make_response(rng, m, last=(i == n - 1), allow_upgrade=True)
                if rng.chance(0.15):
                    rb = rng.choice([b"\r\n", b"\n"]) + rb
                if rng.chance(0.25):
                    rb = mutate(rng, rb)
                parts.append(rb)
                plan.append({"req": hx(rq), "len": len(rb), "end_after": _w(rng, [(0, 8), (1, 1), (2, 1)]),
                             "early_next": rng.chance(0.08)})
            s = b"".join(parts)
            if rng.chance(0.2):
                s += rng.choice([b"\r\n", b"HTTP/1.1 200 OK\r\n", b"junk", b" \tdata", b"\x0c\r\nq", b"\r\n \r\nz"])
    if forced_cut is not None:
        cuts = [forced_cut]
    elif rng.chance(0.25) and crlf_cut(rng, s) is not None:
        cuts = [crlf_cut(rng, s)]
    else:
        cuts = make_cuts(rng, len(s))
    return {"k": role, "stream": hx(s), "cuts": cuts, "plan": plan, "close": rng.chance(0.5)}


BUF_TOKENS = [b"\r", b"\n", b"\r\n", b"\n\n", b"\r\n\r\n", b"\n\r\n", b"a", b"GET / HTTP/1.1", b"Host: x", b"5", b"\r\r\n", b"abc def"]


def gen_buf(rng):
    ops = []
    for _ in range(rng.randint(2, 14)):
        r = rng.random()
        if r < 0.5:
            ops.append(["add", hx(b"".join(rng.choice(BUF_TOKENS) for _ in range(rng.randint(1, 4))))])
        elif r < 0.65:
            ops.append(["atmost", rng.choice([1, 2, 3, 5, 10, 999999999])])
        elif r < 0.8:
            ops.append(["line"])
        else:
            ops.append(["lines"])
    return {"k": "buf", "ops": ops}


def gen_e2e(rng, forced=None):
    n = _w(rng, [(1, 3), (2, 4), (3, 2), (4, 1)])
    parts, resps = [], []
    for i in range(n):
        if i and rng.chance(0.25):
            parts.append(rng.choice([b"\r\n", b"\n", b"\r\n\r\n"]))
        rq = make_request(rng, i, False)
        parts.append(rq)
    if rng.chance(0.1):
        parts.insert(0, rng.choice([b"\r\n", b"\n"]))
    s = b"".join(parts)
    if rng.chance(0.25):
        s = mutate(rng, s)
    methods = [p.split(b" ", 1)[0] for p in parts if b" " in p[:10]]
    for i in range(n + 2):
        m = methods[i] if i < len(methods) else b"GET"
        rb, close = make_response(rng, m, last=False)
        if rng.chance(0.15):
            rb = rng.choice([b"\r\n", b"\n"]) + rb
        resps.append({"b": hx(rb), "close": close, "cuts": make_cuts(rng, len(rb)) if not rng.chance(0.2) or crlf_cut(rng, rb) is None
                      else [crlf_cut(rng, rb)]})
    if forced is not None:
        cuts = [forced]
    elif rng.chance(0.25) and crlf_cut(rng, s) is not None:
        cuts = [crlf_cut(rng, s)]
    else:
        cuts = make_cuts(rng, len(s))
    return {"k": "e2e", "client": hx(s), "cuts": cuts, "resps": resps,
            "order": [rng.chance(0.5) for _ in range(24)],
            "stream_req": rng.chance(0.12), "stream_resp": rng.chance(0.12), "close": rng.chance(0.5),
            "hook_delay": _w(rng, [(0, 5), (1, 3), (2, 1), (4, 1)])}



def _ws_frame(payload, masked, opcode=1):
    assert len(payload) < 126
    if not masked:
        return bytes([0x80 | opcode, len(payload)]) + payload
    mask = b"\x11\x22\x33\x44"
    return bytes([0x80 | opcode, 0x80 | len(payload)]) + mask + bytes(c ^ mask[i % 4] for i, c in enumerate(payload))


def gen_upg(rng):
    """an Upgrade exchange through the real HttpLayer: the client does not wait for the 101 before it sends the first
    bytes of the upgraded protocol"""
    ws = rng.chance(0.45)
    parts = []
    resps = []
    if rng.chance(0.35):
        parts.append(b"GET http://example.com/before HTTP/1.1\r\nHost: example.com\r\n\r\n")
        rb = b"HTTP/1.1 200 OK\r\nContent-Length: 2\r\n\r\nok"
        resps.append({"b": hx(rb), "cuts": make_cuts(rng, len(rb))})
    if ws:
        rq = (b"GET http://example.com/chat HTTP/1.1\r\nHost: example.com\r\nConnection: Upgrade\r\nUpgrade: websocket\r\n"
              b"Sec-WebSocket-Key: dGhlIHNhbXBsZSBub25jZQ==\r\nSec-WebSocket-Version: 13\r\n\r\n")
        early = b"".join(_ws_frame(_body(rng, rng.choice([0, 1, 5, 20])).replace(b"\r", b"a").replace(b"\n", b"b"), True,
                                   rng.choice([1, 2])) for _ in range(rng.randint(0, 3)))
        tail = b"".join(_ws_frame(rng.bytes(rng.choice([1, 4, 17]), b"serverdata"), False, rng.choice([1, 2])) for _ in range(rng.randint(0, 2)))
        rb = (b"HTTP/1.1 101 Switching Protocols\r\nConnection: Upgrade\r\nUpgrade: websocket\r\n"
              b"Sec-WebSocket-Accept: s3pPLMBiTxaQ9kYGzzhZRbK+xOo=\r\n\r\n") + tail
    else:
        rq = b"GET http://example.com/chat HTTP/1.1\r\nHost: example.com\r\nConnection: Upgrade\r\nUpgrade: frobnicate/1\r\n\r\n"
        early = _w(rng, [(b"", 1), (b"HELLO first bytes of the upgraded protocol", 3), (b"\x00\x01binary\xff", 2), (b"x", 1),
                         (b"GET /looks-like-http HTTP/1.1\r\n\r\n", 1), (b"\r\nleading newline", 1), (b"\n\n", 1)])
        if early and rng.chance(0.3):
            early += _body(rng, rng.choice([3, 30]))
        tail = _w(rng, [(b"", 2), (b"WELCOME", 2), (b"\r\nserver first", 1), (b"s" * 40, 1)])
        rb = b"HTTP/1.1 101 Switching Protocols\r\nConnection: Upgrade\r\nUpgrade: frobnicate/1\r\n\r\n" + tail
    parts.append(rq)
    head_len = len(b"".join(parts))
    s = b"".join(parts) + early
    resps.append({"b": hx(rb), "cuts": make_cuts(rng, len(rb))})
    r = rng.random()
    if r < 0.25:
        cuts = [head_len] if 0 < head_len < len(s) else []           # request | early bytes
    elif r < 0.45 and len(s) > head_len + 1:
        cuts = [rng.randint(head_len, len(s) - 1)]                   # somewhere inside / at the start of the early bytes
    else:
        cuts = make_cuts(rng, len(s))
    return {"k": "upg", "ws": ws, "client": hx(s), "head_len": head_len, "nreq": len(parts), "cuts": cuts, "resps": resps,
            "order": [rng.chance(0.5) for _ in range(24)], "close": rng.chance(0.4),
            "hook_delay": _w(rng, [(0, 5), (1, 3), (2, 1), (4, 1)])}


def gen(rng, n, tier):
    out = []
    if tier == "thorough":
        for _ in range(12):
            s = gen_stream_srv(rng)
            base = gen_direct(rng, "srv", stream=s)
            for c in range(1, min(len(s[0]), 300)):
                out.append(dict(base, cuts=[c]))
        for _ in range(10):
            base = gen_direct(rng, "cli")
            ln = len(unhx(base["stream"]))
            for c in range(1, min(ln, 300)):
                out.append(dict(base, cuts=[c]))
        for _ in range(8):
            base = gen_e2e(rng)
            for c in range(1, min(len(unhx(base["client"])), 300)):
                out.append(dict(base, cuts=[c]))
        for _ in range(8):
            base = gen_upg(rng)
            for c in range(1, min(len(unhx(base["client"])), 300)):
                out.append(dict(base, cuts=[c]))
    for _ in range(n):
        r = rng.random()
        if r < 0.33:
            out.append(gen_direct(rng, "srv"))
        elif r < 0.55:
            out.append(gen_direct(rng, "cli"))
        elif r < 0.63:
            out.append(gen_buf(rng))
        elif r < 0.75:
            out.append(gen_upg(rng))
        else:
            out.append(gen_e2e(rng))
    return out


# ------------------------------------------------------------------------------------------------ implementation
_M = {}


class _Rec:
    """records what the message-level functions returned during one direct-drive run"""
    def __init__(self):
        self.heads = []      # (lines tuple, obj or None)   request heads (srv)
        self.cheads = []     # (lines tuple, obj or None)   response heads (cli); request known from the driver
        self.trailers = []   # (lines tuple, ok)
        self.active = False


_REC = _Rec()


def setup_impl():
    import h11
    from h11 import _readers, _receivebuffer
    from mitmproxy import http
    from mitmproxy.net.http import http1
    from mitmproxy.proxy import commands, events, context
    from mitmproxy import connection
    from mitmproxy.proxy.layers import http as lhttp
    from mitmproxy.proxy.layers.http import _http1, _events, _base
    from lib import sansio
    _M.update(h11=h11, readers=_readers, RB=_receivebuffer.ReceiveBuffer, http=http, http1=http1, commands=commands,
              events=events, connection=connection, lhttp=lhttp, h1=_http1, ev=_events, base=_base, sansio=sansio,
              context=context)
    if getattr(http1, "_c02_wrapped", False):
        return
    orig_rq, orig_rs, orig_tr = http1.read_request_head, http1.read_response_head, _readers._decode_header_lines

    def rq(lines):
        lines = list(lines)
        try:
            r = orig_rq(lines)
        except ValueError:
            if _REC.active:
                _REC.heads.append((tuple(lines), None))
            raise
        if _REC.active:
            _REC.heads.append((tuple(lines), r))
        return r

    def rs(lines):
        lines = list(lines)
        try:
            r = orig_rs(lines)
        except ValueError:
            if _REC.active:
                _REC.cheads.append((tuple(lines), None))
            raise
        if _REC.active:
            _REC.cheads.append((tuple(lines), r))
        return r

    def tr(lines):
        lines = [bytes(x) for x in lines]
        try:
            r = list(orig_tr(lines))
        except h11.LocalProtocolError:
            if _REC.active and lines:
                _REC.trailers.append((tuple(lines), False))
            raise
        if _REC.active and lines:
            _REC.trailers.append((tuple(lines), True))
        return r

    http1.read_request_head, http1.read_response_head, _readers._decode_header_lines = rq, rs, tr
    http1._c02_wrapped = True


def _after(role, req, resp):
    h1, http1 = _M["h1"], _M["http1"]
    if h1.should_make_pipe(req, resp):
        return "MakePipe"
    try:
        eof = http1.expected_http_body_size(req, resp) == -1
    except ValueError:
        eof = False
    done = (eof or http1.connection_close(req.http_version, req.headers)
            or http1.connection_close(resp.http_version, resp.headers)
            or ((req.is_http2 or req.is_http3) and role == "cli"))
    return "ConnectionDone" if done else "NextMessage"


def _size(req, resp=None):
    try:
        return ["ok", _M["http1"].expected_http_body_size(req, resp)]
    except ValueError:
        return ["bad"]


class _Direct:
    """drives one Http1Server / Http1Client and records outputs per event in model vocabulary"""
    def __init__(self, role):
        sansio, connection = _M["sansio"], _M["connection"]
        self.role = role
        self.ctx = sansio.make_context()
        if role == "cli":
            self.ctx.server = connection.Server(address=("example.com", 80))
            self.ctx.server.state = connection.ConnectionState.OPEN
            self.obj = _M["h1"].Http1Client(self.ctx)
            self.conn = self.ctx.server
        else:
            self.obj = _M["h1"].Http1Server(self.ctx)
            self.conn = self.ctx.client
        self.events = []        # model events
        self.outs = []          # outputs per event
        self.dead = False
        self.peer_closed = False
        self.reqs = []          # cli: request objects sent (number = index); srv: parsed request objects by number
        self.resps = []         # srv: response objects sent; cli: parsed
        list(self.obj.handle_event(_M["events"].Start()))

    def _num(self, table, key, obj):
        """number of the first recorded head with the same key"""
        for i, (k, o) in enumerate(table):
            if k == key:
                return i
        raise KeyError

    def _emit(self, ev, kind):
        cm, E, CS = _M["commands"], _M["ev"], _M["connection"].ConnectionState
        o = []
        try:
            for c in self.obj.handle_event(ev):
                if isinstance(c, cm.SendData):
                    if kind == "data":
                        o.append(["SendError"] if bytes(c.data).startswith(b"HTTP/1.1 400 ") else ["Other", "send-on-data"])
                    elif kind == "head":
                        o.append(["SendHead"])
                    elif kind == "body":
                        o.append(["SendData"])
                    elif kind == "end":
                        # the last chunk, or the 400 answer to the next pipelined request parsed by mark_done
                        o.append(["SendLastChunk"] if bytes(c.data) == b"0\r\n\r\n" else
                                 ["SendError"] if bytes(c.data).startswith(b"HTTP/1.1 400 ") else ["Other", "end-bytes"])
                    elif kind == "err":
                        o.append(["SendError"])
                    else:
                        o.append(["Other", "send"])
                elif isinstance(c, cm.CloseTcpConnection):
                    o.append(["HalfClose"])
                    c.connection.state &= ~CS.CAN_WRITE
                elif isinstance(c, cm.CloseConnection):
                    o.append(["Close"])
                    c.connection.state = CS.CLOSED
                    self.dead = True
                elif isinstance(c, cm.Log):
                    o.append(["Log"])
                elif isinstance(c, _M["base"].ReceiveHttp):
                    e = c.event
                    if isinstance(e, E.RequestHeaders):
                        o.append(["ReqHeaders", e.stream_id, self._id(e.request), bool(e.end_stream)])
                    elif isinstance(e, E.ResponseHeaders):
                        o.append(["RespHeaders", e.stream_id, self._id(e.response), bool(e.end_stream)])
                    elif isinstance(e, (E.RequestData, E.ResponseData)):
                        o.append(["Data", e.stream_id, hx(bytes(e.data))])
                    elif isinstance(e, (E.RequestEndOfMessage, E.ResponseEndOfMessage)):
                        o.append(["EndOfMessage", e.stream_id])
                    elif isinstance(e, (E.RequestProtocolError, E.ResponseProtocolError)):
                        m = e.message
                        k = ("ErrProtocol" if m.startswith("HTTP/1 protocol error") else
                             "ErrDisconnect" if m.startswith("Client disconnected") else
                             "ErrServerClosed" if m.startswith("server closed connection") else
                             "ErrUnexpectedResponse" if m.startswith("unexpected server response") else "ErrHead")
                        o.append(["ProtocolError", e.stream_id, k])
                    else:
                        o.append(["Other", type(e).__name__])
                else:
                    o.append(["Other", type(c).__name__])
        except NotImplementedError:
            o.append(["Crash", "CrashTrailers"]); self.dead = True
        except AssertionError:
            o.append(["Crash", "CrashAssert"]); self.dead = True
        except Exception as exc:  # noqa
            o.append(["Crash", "CrashOther", type(exc).__name__]); self.dead = True
        self.outs.append(o)
        return o

    def _id(self, obj):
        """srv: number of the parsed request (by the content of its head lines, as the model table lookup does);
        cli: the response object itself, renumbered once the run is complete"""
        if self.role == "cli":
            return obj
        ks = []
        for (k, o) in _REC.heads:
            if k not in ks:
                ks.append(k)
        for (k, o) in _REC.heads:
            if o is obj:
                return ks.index(k)
        return 9999

    def data(self, d):
        self.events.append(["data", hx(d)])
        return self._emit(_M["events"].DataReceived(self.conn, d), "data")

    def close(self):
        CS = _M["connection"].ConnectionState
        self.events.append(["close"])
        self.conn.state &= ~CS.CAN_READ
        self.peer_closed = True
        return self._emit(_M["events"].ConnectionClosed(self.conn), "close")


def _run_direct(case, cuts):
    """returns dict(events, outs, tables...)"""
    E, http = _M["ev"], _M["http"]
    role = case["k"]
    _REC.heads, _REC.cheads, _REC.trailers, _REC.active = [], [], [], True
    try:
        d = _Direct(role)
        stream = unhx(case["stream"])
        segs = segments(stream, cuts)
        if role == "srv":
            resp_objs = []
            state = {"answered": 0, "eoms": 0, "hdrs": 0, "wait": None}

            def respond(i, sid):
                p = case["plan"][min(i, len(case["plan"]) - 1)]
                raw = unhx(p["resp"])
                try:
                    r = http.Response.make(int(raw.split(b" ")[1]), b"", {})
                    head, _, body = raw.partition(b"\r\n\r\n")
                    lines = head.split(b"\r\n")
                    r.http_version = lines[0].split(b" ")[0].decode()
                    r.headers = http.Headers([tuple(x.split(b": ", 1)) for x in lines[1:] if b": " in x])
                except Exception:  # noqa
                    r = http.Response.make(200)
                resp_objs.append(r)
                rn = len(resp_objs) - 1
                if p["err"]:
                    d.events.append(["send", "err", sid, True])
                    d._emit(E.ResponseProtocolError(sid, "x", E.ErrorCode.GENERIC_SERVER_ERROR), "err")
                    return
                d.events.append(["send", "headers", sid, None, rn])
                d._emit(E.ResponseHeaders(sid, r, False), "head")
                if p["data"] and not d.dead:
                    chunked = "chunked" in r.headers.get("transfer-encoding", "").lower()
                    d.events.append(["send", "data", sid, True])
                    d._emit(E.ResponseData(sid, b"xy"), "body")
                if not d.dead:
                    req = d.obj.request
                    last = (req is not None and req.method.upper() != "HEAD"
                            and not (100 <= r.status_code <= 199 or r.status_code in (204, 304))
                            and "chunked" in r.headers.get("transfer-encoding", "").lower())
                    d.events.append(["send", "end", sid, last, False])
                    d._emit(E.ResponseEndOfMessage(sid), "end")

            def pump(force=False):
                """answer requests whose time has come; state is derived from the real object's outputs so far"""
                while not d.dead:
                    flat = [x for o in d.outs for x in o]
                    hdrs = [x for x in flat if x[0] == "ReqHeaders"]
                    eoms = [x[1] for x in flat if x[0] == "EndOfMessage"]
                    i = state["answered"]
                    if i >= len(hdrs) or d.obj.state == d.obj.passthrough:
                        return
                    sid = hdrs[i][1]
                    p = case["plan"][min(i, len(case["plan"]) - 1)]
                    complete = sid in eoms or (d.obj.request_done)
                    if not complete and not p["early"]:
                        return
                    if state["wait"] is None:
                        state["wait"] = p["delay"]
                    if state["wait"] > 0 and not force:
                        state["wait"] -= 1
                        return
                    state["wait"] = None
                    state["answered"] += 1
                    respond(i, sid)

            for s in segs:
                if d.dead:
                    break
                d.data(s)
                pump()
            for _ in range(8):
                pump(force=True)
            if case["close"] and not d.dead:
                d.close()
            heads = []
            for (k, o) in _REC.heads:
                if k not in [h[0] for h in heads]:
                    heads.append((k, o))
            tbl_heads = []
            for (k, o) in heads:
                if o is None:
                    tbl_heads.append([[hx(x) for x in k], ["BadHead"]])
                else:
                    sz = _size(o)
                    n = [h[0] for h in heads].index(k)
                    tbl_heads.append([[hx(x) for x in k], ["Accepted", n, sz[1]] if sz[0] == "ok" else ["BadSize", n]])
            connects = [i for i, (k, o) in enumerate(heads) if o is not None and o.data.method.upper() == b"CONNECT"]
            afters = []
            for i, (k, o) in enumerate(heads):
                if o is None:
                    continue
                for j, r in enumerate(resp_objs):
                    afters.append([i, j, _after(role, o, r)])
            return {"role": role, "events": d.events, "outs": d.outs, "heads": tbl_heads, "cheads": [], "connects": connects,
                    "afters": afters, "trailers": [[[hx(x) for x in k], ok] for (k, ok) in _dedup(_REC.trailers)]}
        # ---- client role
        req_objs = []
        chead_log = []      # (request number, lines, obj)
        pos = 0
        sid = 1
        seg_iter = list(segs)
        # boundaries of the responses inside the stream
        ends, acc = [], 0
        for p in case["plan"]:
            acc += p["len"]
            ends.append(acc)
        plan = case["plan"]
        if not any(p["early_next"] for p in plan):
            # the server writes response k+1 only after request k+1: no segment spans two responses
            segq0 = segments(stream, sorted(set(cuts) | set(ends[:-1])))
        else:
            segq0 = list(segs)
        sent = 0            # requests started
        ended = 0           # requests ended
        delivered = 0

        def feed(seg):
            n0 = len(_REC.cheads)
            d.data(seg)
            for (k, o) in _REC.cheads[n0:]:
                chead_log.append((cur[0], k, o))

        cur = [None]

        def start_request(i):
            raw = unhx(plan[i]["req"])
            head, _, body = raw.partition(b"\r\n\r\n") if b"\r\n\r\n" in raw else raw.partition(b"\n\n")
            lines = head.replace(b"\r\n", b"\n").split(b"\n")
            parts = lines[0].split(b" ")
            try:
                rq = http.Request.make(parts[0].decode(), "http://example.com/x")
                rq.http_version = parts[2].decode()
                rq.headers = http.Headers([tuple(x.split(b": ", 1)) for x in lines[1:] if b": " in x])
            except Exception:  # noqa
                rq = http.Request.make("GET", "http://example.com/x")
            req_objs.append(rq)
            cur[0] = len(req_objs) - 1 if d.obj.stream_id is None else cur[0]
            s = 2 * i + 1
            d.events.append(["send", "headers", s, len(req_objs) - 1, None])
            d._emit(E.RequestHeaders(s, rq, False), "head")

        def end_request(i):
            s = 2 * i + 1
            rq = d.obj.request
            if rq is None:
                return False
            last = "chunked" in rq.headers.get("transfer-encoding", "").lower()
            half = False
            if not last:
                try:
                    half = _M["http1"].expected_http_body_size(rq, d.obj.response) == -1
                except ValueError:
                    return False
            d.events.append(["send", "end", s, last, half])
            d._emit(E.RequestEndOfMessage(s), "end")
            return True

        i = 0
        skip = False
        segq = segq0
        consumed = 0
        while i < len(plan) and not d.dead and not skip:
            if d.obj.state == d.obj.passthrough:
                break
            if d.obj.stream_id is not None and d.obj.stream_id != 2 * i + 1:
                break
            start_request(i)
            if d.dead:
                break
            k = plan[i]["end_after"]
            ended_flag = False
            if k == 0:
                ended_flag = end_request(i)
                if not ended_flag:
                    skip = True
                    break
            # deliver this response's segments (all segments starting before its end), unless early_next
            limit = ends[i] if not plan[i]["early_next"] else (ends[i + 1] if i + 1 < len(ends) else len(stream))
            if i == len(plan) - 1:
                limit = len(stream)
            while segq and consumed < limit and not d.dead:
                seg = segq.pop(0)
                consumed += len(seg)
                feed(seg)
                if not ended_flag and not d.dead:
                    k -= 1
                    if k <= 0:
                        ended_flag = end_request(i)
                        if not ended_flag:
                            skip = True
                            break
            if not ended_flag and not d.dead and not skip:
                ended_flag = end_request(i)
                if not ended_flag:
                    skip = True
            i += 1
        while segq and not d.dead and not skip and d.obj.state != d.obj.done:
            feed(segq.pop(0))
        if case["close"] and not d.dead and not skip:
            d.close()
        keys = []
        for (rn, k, o) in chead_log:
            if (rn, k) not in [x[:2] for x in keys]:
                keys.append((rn, k, o))
        tbl = []
        afters = []
        for n, (rn, k, o) in enumerate(keys):
            if o is None:
                tbl.append([rn, [hx(x) for x in k], ["BadHead"]])
            else:
                sz = _size(req_objs[rn], o)
                tbl.append([rn, [hx(x) for x in k], ["Accepted", n, sz[1]] if sz[0] == "ok" else ["BadSize", n]])
                afters.append([rn, n, _after(role, req_objs[rn], o)])
        # renumber RespHeaders outputs
        for o in d.outs:
            for x in o:
                if x[0] == "RespHeaders":
                    x[2] = next((n for n, (rn, k, ob) in enumerate(keys)
                                 if any(ob2 is x[2] for (rn2, k2, ob2) in chead_log if (rn2, k2) == (rn, k))), 9999)
        connects = [i for i, r in enumerate(req_objs) if r.data.method.upper() == b"CONNECT"]
        return {"role": role, "events": d.events, "outs": d.outs, "heads": [], "cheads": tbl, "connects": connects,
                "afters": afters, "trailers": [[[hx(x) for x in k], ok] for (k, ok) in _dedup(_REC.trailers)], "skip": skip}
    finally:
        _REC.active = False


def _dedup(pairs):
    out = []
    for k, v in pairs:
        if k not in [x[0] for x in out]:
            out.append((k, v))
    return out


def _recv_view(res):
    """receive-side outputs, adjacent data merged, message numbers replaced by the head lines they were parsed from"""
    v = []
    for o in res["outs"]:
        for x in o:
            if x[0] in ("SendHead", "SendData", "SendLastChunk", "HalfClose", "Log"):
                continue
            if x[0] == "Data" and v and v[-1][0] == "Data" and v[-1][1] == x[1]:
                v[-1] = ["Data", x[1], v[-1][2] + x[2]]
            elif x[0] == "ReqHeaders":
                v.append(["ReqHeaders", x[1], res["heads"][x[2]][0] if x[2] < len(res["heads"]) else x[2], x[3]])
            elif x[0] == "RespHeaders":
                v.append(["RespHeaders", x[1], res["cheads"][x[2]][1] if x[2] < len(res["cheads"]) else x[2], x[3]])
            else:
                v.append(list(x))
    return v


# ---- ReceiveBuffer
def _run_buf(case):
    b = _M["RB"]()
    obs = []
    for op in case["ops"]:
        if op[0] == "add":
            b += unhx(op[1]); r = None
        elif op[0] == "atmost":
            r = b.maybe_extract_at_most(op[1]); r = None if r is None else ["b", hx(bytes(r))]
        elif op[0] == "line":
            r = b.maybe_extract_next_line(); r = None if r is None else ["b", hx(bytes(r))]
        else:
            r = b.maybe_extract_lines(); r = None if r is None else ["l", [hx(bytes(x)) for x in r]]
        obs.append([r, len(b)])
    return {"obs": obs}


# ---- end to end
def _count_requests(raw):
    """number of complete HTTP/1 requests in bytes written by mitmproxy, and per request whether it carries
    Expect: 100-continue (returned in place of the method list)"""
    n, methods = 0, []
    while raw:
        i = raw.find(b"\r\n\r\n")
        if i < 0:
            break
        head, rest = raw[:i], raw[i + 4:]
        lines = head.split(b"\r\n")
        hs = {}
        for l in lines[1:]:
            k, _, v = l.partition(b":")
            hs.setdefault(k.strip().lower(), v.strip())
        if b"chunked" in hs.get(b"transfer-encoding", b"").lower():
            body_end = None
            p = 0
            while True:
                j = rest.find(b"\r\n", p)
                if j < 0:
                    break
                try:
                    sz = int(rest[p:j].split(b";")[0].strip(), 16)
                except ValueError:
                    return n, methods
                if sz == 0:
                    k2 = rest.find(b"\r\n\r\n", j) if rest[j + 2:j + 4] != b"\r\n" else j
                    if k2 < 0:
                        break
                    body_end = k2 + 4
                    break
                p = j + 2 + sz + 2
                if p > len(rest):
                    break
            if body_end is None:
                break
            rest = rest[body_end:]
        else:
            try:
                cl = int(hs.get(b"content-length", b"0"))
            except ValueError:
                return n, methods
            if len(rest) < cl:
                break
            rest = rest[cl:]
        n += 1
        methods.append(hs.get(b"expect", b"").lower() == b"100-continue")
        raw = rest
    return n, methods


def _e2e_run(case, ccuts, split_resps, order, hook_delay=0):
    """hook_delay = number of further segments delivered before a blocking hook completes (0: right after the segment
    that triggered it, as the event loop would at the earliest)"""
    sansio, lhttp = _M["sansio"], _M["lhttp"]
    waiting = []                # [hook command, segments left]
    seen = {}                   # flow ordinal -> request headers as seen by the request hook

    def policy(hook, drv):
        if hook.name == "requestheaders" and case["stream_req"]:
            hook.args()[0].request.stream = True
        if hook.name == "responseheaders" and case["stream_resp"]:
            hook.args()[0].response.stream = True
        if hook.name == "request":
            f = hook.args()[0]
            seen[drv.flow_ord(f)] = [[hx(k), hx(v)] for k, v in f.request.headers.fields]
        if hook.blocking and hook_delay:
            waiting.append([hook, hook_delay])
            return sansio.DEFER

    d = sansio.Driver(lambda ctx: lhttp.HttpLayer(ctx, lhttp.HTTPMode.regular), policy=policy)
    d.start()
    csegs = segments(unhx(case["client"]), ccuts)
    pending = []                # (conn, bytes) | (conn, None) = close
    answered = {}               # conn -> responses given
    total = [0]
    oi = [0]

    def refill():
        for c in range(1, len(d.conns)):
            n, expects = _count_requests(d.sent(c))
            while answered.get(c, 0) < n:
                idx = answered.get(c, 0)
                answered[c] = idx + 1
                r = case["resps"][min(total[0], len(case["resps"]) - 1)]
                total[0] += 1
                raw = unhx(r["b"])
                if expects[idx]:
                    # an origin server that honours Expect: interim response before the final one
                    raw = b"HTTP/1.1 100 Continue\r\n\r\n" + raw
                for s in (segments(raw, r["cuts"]) if split_resps else [raw]):
                    pending.append((c, s))
                if r["close"]:
                    pending.append((c, None))

    def tick(flush=False):
        """one segment has been delivered: complete the hooks whose time has come (in order)"""
        for w in waiting:
            w[1] -= 1
        while waiting and (flush or waiting[0][1] <= 0) and d.crashed is None:
            h = waiting.pop(0)[0]
            d.complete(h)

    steps = 0
    while (csegs or pending or waiting) and d.crashed is None and steps < 4000:
        steps += 1
        if not csegs and not pending:
            tick(flush=True)
            refill()
            continue
        take_client = bool(csegs) and (not pending or order[oi[0] % len(order)])
        oi[0] += 1
        if take_client:
            s = csegs.pop(0)
            if d.conns[0].state & d.CS.CAN_READ and d.conns[0].state is not d.CS.CLOSED:
                d.data(0, s)
        else:
            c, s = pending.pop(0)
            conn = d.conns[c]
            if conn.state is d.CS.CLOSED or not (conn.state & d.CS.CAN_READ):
                continue
            if s is None:
                d.close(c)
            else:
                d.data(c, s)
        tick()
        refill()
    if case["close"] and d.crashed is None and d.conns[0].state & d.CS.CAN_READ:
        d.close(0)
        tick(flush=True)
    out = _e2e_outcome(d, case)
    for i, f in enumerate(out["flows"]):
        if isinstance(f, dict):
            f["req_at_hook"] = seen.get(i)
    return out



def _upg_run(case, ccuts, split_resps, order, hook_delay=0):
    """one Upgrade exchange (optionally after a plain request) through a real HttpLayer: HttpStream hands the two
    connections over to a WebsocketLayer / TCPLayer"""
    sansio, lhttp = _M["sansio"], _M["lhttp"]
    waiting = []

    def policy(hook, drv):
        if hook.blocking and hook_delay:
            waiting.append([hook, hook_delay])
            return sansio.DEFER

    d = sansio.Driver(lambda ctx: lhttp.HttpLayer(ctx, lhttp.HTTPMode.regular), policy=policy)
    d.start()
    csegs = segments(unhx(case["client"]), ccuts)
    pending, answered, oi = [], [0], [0]

    def refill():
        if len(d.conns) < 2:
            return
        n = min(case["nreq"], d.sent(1).count(b"\r\n\r\n"))
        while answered[0] < n:
            r = case["resps"][answered[0]]
            answered[0] += 1
            raw = unhx(r["b"])
            for s in (segments(raw, r["cuts"]) if split_resps else [raw]):
                pending.append(s)

    def tick(flush=False):
        for w in waiting:
            w[1] -= 1
        while waiting and (flush or waiting[0][1] <= 0) and d.crashed is None:
            d.complete(waiting.pop(0)[0])

    steps = 0
    while (csegs or pending or waiting) and d.crashed is None and steps < 4000:
        steps += 1
        if not csegs and not pending:
            tick(flush=True)
            refill()
            continue
        take_client = bool(csegs) and (not pending or order[oi[0] % len(order)])
        oi[0] += 1
        if take_client:
            s = csegs.pop(0)
            if d.conns[0].state & d.CS.CAN_READ and d.conns[0].state is not d.CS.CLOSED:
                d.data(0, s)
        else:
            s = pending.pop(0)
            conn = d.conns[1]
            if conn.state is d.CS.CLOSED or not (conn.state & d.CS.CAN_READ):
                continue
            d.data(1, s)
        tick()
        refill()
    if case["close"] and d.crashed is None and d.conns[0].state & d.CS.CAN_READ:
        d.close(0)
        tick(flush=True)
    return _upg_outcome(d, case)


def _ws_frames(raw):
    """small websocket frames with the masking undone (the proxy masks with a random key)"""
    out = []
    while raw:
        if len(raw) < 2 or (raw[1] & 0x7f) >= 126:
            out.append(["raw", hx(raw)]); break
        ln, masked = raw[1] & 0x7f, raw[1] & 0x80
        need = 2 + (4 if masked else 0) + ln
        if len(raw) < need:
            out.append(["raw", hx(raw)]); break
        if masked:
            m = raw[2:6]
            pl = bytes(c ^ m[i % 4] for i, c in enumerate(raw[6:6 + ln]))
        else:
            pl = raw[2:2 + ln]
        out.append([raw[0], bool(masked), hx(pl)])
        raw = raw[need:]
    return out


def _upg_outcome(d, case):
    flows = []
    for i, f in enumerate(d.flows):
        hooks = []
        for h in d.hook_names(i):
            if not (hooks and hooks[-1] == h == "tcp_message"):      # one tcp_message per received chunk, by design
                hooks.append(h)
        if hasattr(f, "request"):
            e = {"t": "http", "req": _msg(f.request), "resp": _msg(f.response), "error": f.error is not None, "hooks": hooks}
            if f.websocket is not None:
                # the relative order of the two directions is a matter of arrival order
                e["ws_from_client"] = [[hx(m.content), bool(m.dropped), int(m.type)] for m in f.websocket.messages if m.from_client]
                e["ws_from_server"] = [[hx(m.content), bool(m.dropped), int(m.type)] for m in f.websocket.messages if not m.from_client]
            flows.append(e)
        elif hasattr(f, "messages"):
            flows.append({"t": "tcp", "from_client": hx(b"".join(m.content for m in f.messages if m.from_client)),
                          "from_server": hx(b"".join(m.content for m in f.messages if not m.from_client)),
                          "error": f.error is not None, "hooks": hooks})
        else:
            flows.append({"t": type(f).__name__, "hooks": hooks})
    to_client = d.sent(0)
    to_server = d.sent(1) if len(d.conns) > 1 else b""
    # the first nreq heads are HTTP, the rest belongs to the upgraded protocol
    pos = 0
    for _ in range(case["nreq"]):
        j = to_server.find(b"\r\n\r\n", pos)
        if j < 0:
            pos = len(to_server); break
        pos = j + 4
    tunnel = to_server[pos:]
    closes = {}
    for t in d.trace:
        if t[0] == "close":
            closes.setdefault(str(t[1]), []).append(t[2])
    j = to_client.find(b"HTTP/1.1 101 ")
    j = to_client.find(b"\r\n\r\n", j) if j >= 0 else -1
    cpos = j + 4 if j >= 0 else len(to_client)
    return {"flows": flows, "to_client_http": hx(to_client[:cpos]),
            "to_client_tunnel": _ws_frames(to_client[cpos:]) if case["ws"] else hx(to_client[cpos:]),
            "to_server_http": hx(to_server[:pos]),
            "to_server_tunnel": _ws_frames(tunnel) if case["ws"] else hx(tunnel),
            "closes": closes, "crashed": list(d.crashed) if d.crashed else None, "nflows": len(flows)}


def _msg(m):
    if m is None:
        return None
    d = m.data
    base = [[hx(k), hx(v)] for k, v in d.headers.fields]
    body = hx(d.content) if d.content is not None else None
    if hasattr(d, "method"):
        return ["req", d.host, d.port, hx(d.method), hx(d.scheme), hx(d.authority), hx(d.path), hx(d.http_version), base, body]
    return ["resp", hx(d.http_version), d.status_code, hx(d.reason), base, body]


def _dechunk_stream(raw):
    """normal form of a byte stream of HTTP/1 messages written by mitmproxy: chunked bodies are decoded"""
    out = []
    while raw:
        i = raw.find(b"\r\n\r\n")
        if i < 0:
            out.append(["tail", hx(raw)]); break
        head, rest = raw[:i], raw[i + 4:]
        hs = {}
        for l in head.split(b"\r\n")[1:]:
            k, _, v = l.partition(b":")
            hs.setdefault(k.strip().lower(), v.strip())
        if b"chunked" in hs.get(b"transfer-encoding", b"").lower():
            body, p, ok = b"", 0, False
            while True:
                j = rest.find(b"\r\n", p)
                if j < 0:
                    break
                try:
                    sz = int(rest[p:j], 16)
                except ValueError:
                    break
                if sz == 0:
                    ok = rest[j + 2:j + 4] == b"\r\n"
                    p = j + 4
                    break
                body += rest[j + 2:j + 2 + sz]
                p = j + 2 + sz + 2
            if not ok:
                out.append(["head", hx(head)]); out.append(["tail", hx(rest)]); break
            out.append(["msg", hx(head), hx(body)])
            raw = rest[p:]
        else:
            # without chunking the body bytes are forwarded as they are: keep the rest of the stream verbatim up to the
            # next head; content-length gives the split
            try:
                cl = int(hs.get(b"content-length", b"-1"))
            except ValueError:
                cl = -1
            first = head.split(b"\r\n")[0].split(b" ")
            if cl < 0 and (not first[0].startswith(b"HTTP/") or (len(first) > 1 and (first[1][:1] == b"1" or first[1] in (b"204", b"304")))):
                cl = 0
            if cl < 0:
                out.append(["head", hx(head)]); out.append(["tail", hx(rest)]); break
            out.append(["msg", hx(head), hx(rest[:cl])])
            raw = rest[cl:]
    return out


def _e2e_outcome(d, case):
    flows = []
    for i, f in enumerate(d.flows):
        if not hasattr(f, "request"):
            flows.append(["other", type(f).__name__]); continue
        flows.append({"req": _msg(f.request), "resp": _msg(f.response), "error": f.error is not None,
                      "hooks": d.hook_names(i)})
    conns = {}
    for t in d.trace:
        if t[0] == "send":
            seq = conns.setdefault(t[1], [])
            if seq and seq[-1][0] == "send":
                seq[-1][1] += t[2]
            else:
                seq.append(["send", t[2]])
        elif t[0] == "close":
            # closing a connection that is already closed (or half-closing it twice) with nothing in between is not
            # observable by any peer: keep one; a full close after a half close stays
            seq = conns.setdefault(t[1], [])
            if not (seq and seq[-1][0] == "close" and (seq[-1][1] is False or seq[-1][1] == t[2])):
                seq.append(["close", t[2]])
        elif t[0] == "open":
            conns.setdefault(t[1], []).append(["open"])
    return {"flows": flows, "conns": {str(k): v for k, v in sorted(conns.items())},
            "crashed": list(d.crashed) if d.crashed else None, "nflows": len(flows)}


def run_impl(case):
    k = case["k"]
    if k == "buf":
        return _run_buf(case)
    if k in ("srv", "cli"):
        res = _run_direct(case, case["cuts"])
        early = any(p.get("early") or p.get("err") or p.get("early_next") or p.get("end_after") for p in case["plan"])
        base = None
        if not early and not res.get("skip"):
            b = _run_direct(dict(case), [])
            base = _recv_view(b)
        return {"res": res, "view": _recv_view(res), "base": base}
    if k == "upg":
        return {"base": _upg_run(case, [], False, [False]),
                "split": _upg_run(case, case["cuts"], True, case["order"], case.get("hook_delay", 0))}
    base = _e2e_run(case, [], False, [False])
    split = _e2e_run(case, case["cuts"], True, case["order"], case.get("hook_delay", 0))
    return {"base": base, "split": split}


# ------------------------------------------------------------------------------------------------ Coq terms
def _lines(ls):
    return clist([cbytes(unhx(x)) for x in ls], "bytes")


def _hres(v):
    if v[0] == "BadHead":
        return "(@BadHead N)"
    if v[0] == "BadSize":
        return f"(BadSize {cN(v[1])})"
    return f"(Accepted {cN(v[1])} {copt(v[2], cZ, 'Z')})"


def _out(x):
    t = x[0]
    if t == "ReqHeaders":
        return f"OReqHeaders {cN(x[1])} {cN(x[2])} {cbool(x[3])}"
    if t == "RespHeaders":
        return f"ORespHeaders {cN(x[1])} {cN(x[2])} {cbool(x[3])}"
    if t == "Data":
        return f"OData {cN(x[1])} {cbytes(unhx(x[2]))}"
    if t == "EndOfMessage":
        return f"OEndOfMessage {cN(x[1])}"
    if t == "ProtocolError":
        return f"OProtocolError {cN(x[1])} {x[2]}"
    if t == "Crash":
        return f"OCrash {x[1]}"
    if t == "Other":
        return "OCrash CrashOther"      # something the model never produces next to a crash marker: forces a mismatch
    return "O" + t


def _event(e):
    if e[0] == "data":
        return f"EData {cbytes(unhx(e[1]))}"
    if e[0] == "close":
        return "EClose"
    kind = e[1]
    if kind == "headers":
        return f"ESend (SHeaders {cN(e[2])} {copt(e[3], cN, 'N')} {copt(e[4], cN, 'N')})"
    if kind == "data":
        return f"ESend (SData {cN(e[2])} {cbool(e[3])})"
    if kind == "end":
        return f"ESend (SEndOfMessage {cN(e[2])} {cbool(e[3])} {cbool(e[4])})"
    return f"ESend (SProtocolError {cN(e[2])} {cbool(e[3])})"


def coq_case(case, obs):
    k = case["k"]
    if k in ("e2e", "upg"):
        return None
    if k == "buf":
        ops = []
        for op in case["ops"]:
            ops.append({"add": lambda: f"BAdd {cbytes(unhx(op[1]))}", "atmost": lambda: f"BAtMost {cN(op[1])}",
                        "line": lambda: "BNextLine", "lines": lambda: "BLines"}[op[0]]())
        res = []
        for r, ln in obs["obs"]:
            t = "RNothing" if r is None else (f"RBytes {cbytes(unhx(r[1]))}" if r[0] == "b" else f"RLines {_lines(r[1])}")
            res.append(f"({t}, {ln}%nat)")
        return f"Buf {clist(ops, 'bufop')} {clist(res, '(bufobs * nat)%type')}"
    r = obs["res"]
    if r.get("skip"):
        return None
    heads = clist([f"({_lines(h[0])}, {_hres(h[1])})" for h in r["heads"]], "(list bytes * head_result N)%type")
    cheads = clist([f"({cN(h[0])}, {_lines(h[1])}, {_hres(h[2])})" for h in r["cheads"]], "(N * list bytes * head_result N)%type")
    connects = clist([cN(x) for x in r["connects"]], "N")
    afters = clist([f"({cN(a)}, {cN(b)}, {v})" for a, b, v in r["afters"]], "(N * N * after_done)%type")
    trailers = clist([f"({_lines(t[0])}, {cbool(t[1])})" for t in r["trailers"]], "(list bytes * bool)%type")
    events = clist([_event(e) for e in r["events"]], "(event N N)")
    outs = clist([clist([_out(x) for x in o], "(out N N)") for o in r["outs"]], "(list (out N N))")
    role = "Server" if r["role"] == "srv" else "Client"
    return f"Conn {role} {heads} {cheads} {connects} {afters} {trailers} {events} {outs}"


# ------------------------------------------------------------------------------------------------ oracle
def json_copy(o):
    import json
    return json.loads(json.dumps(o))


def _first_diff(a, b):
    for i, (x, y) in enumerate(zip(a, b)):
        if x != y:
            return i, x, y
    return min(len(a), len(b)), (a[len(b)] if len(a) > len(b) else None), (b[len(a)] if len(b) > len(a) else None)


def oracle(case, obs):
    k = case["k"]
    if k == "buf":
        return []
    if k in ("srv", "cli"):
        v = []
        for o in obs["res"]["outs"]:
            for x in o:
                if x[0] == "Crash" and x[1] != "CrashTrailers":
                    v.append({"key": "connection-object-crash-" + x[1], "what": f"{k} object raised {x[1:]} for stream {case['stream'][:120]}"})
        # every message ends once: received bytes never produce a second EndOfMessage without a new head in between
        # (the EndOfMessage a closing tunnel reports for the peer close is not one)
        ended = False
        for e, o in zip(obs["res"]["events"], obs["res"]["outs"]):
            for x in o:
                if x[0] in ("ReqHeaders", "RespHeaders"):
                    ended = False
                elif x[0] == "EndOfMessage":
                    if ended and k == "cli" and e[0] == "data":
                        v.append({"key": "client-early-response-repeats-end-of-message",
                                  "what": f"cli: server bytes after a complete response make read_body run the finished reader "
                                          f"again: second ResponseEndOfMessage({x[1]}); cuts {case['cuts'][:12]}"})
                        ended = None
                        break
                    ended = True
            if ended is None:
                break
        if obs["base"] is not None and obs["view"] != obs["base"]:
            i, x, y = _first_diff(obs["view"], obs["base"])
            a, b = obs["view"], obs["base"]
            # data differing only by CR/LF bytes at a passthrough boundary
            def data_join(vw):
                return [z if z[0] != "Data" else None for z in vw], b"".join(unhx(z[2]) for z in vw if z[0] == "Data")
            sa, da = data_join(a)
            sb, db = data_join(b)
            pipes = any(t[2] == "MakePipe" for t in obs["res"]["afters"])
            if pipes and [z for z in sa if z] == [z for z in sb if z] and da != db and \
                    da.replace(b"\r", b"").replace(b"\n", b"") == db.replace(b"\r", b"").replace(b"\n", b""):
                v.append({"key": "pipe-lstrip-depends-on-segmentation",
                          "what": f"{k}: bytes following an upgrade/CONNECT are lstripped of CR/LF only if they arrive in the "
                                  f"same segment: cuts {case['cuts'][:12]} give {y} vs {x}"})
            else:
                stalled = len(b) < len(a) and b == a[:len(b)]
                key = "blank-line-stalls-next-message" if stalled else "segmentation-changes-events"
                v.append({"key": key, "what": f"{k}: cuts {case['cuts'][:12]} of stream {case['stream'][:160]}: event {i} is {x} "
                                              f"but {y} for the unsplit stream"})
        return v
    base, split = obs["base"], obs["split"]
    v = []
    if k == "upg":
        for name, o in (("unsplit", base), ("split", split)):
            if o["crashed"]:
                v.append({"key": "upgrade-layer-crash-" + o["crashed"][0],
                          "what": f"HttpLayer raised {o['crashed']} during an Upgrade exchange ({name} delivery, cuts "
                                  f"{case['cuts'][:12]}): client stream {case['client'][:240]}"})
        if v:
            return v
        if base != split:
            def lstripped(o):
                g = json_copy(o)
                for f in g["flows"]:
                    if f.get("t") == "tcp":
                        f["from_client"] = hx(unhx(f["from_client"]).lstrip(b"\r\n"))
                        f["from_server"] = hx(unhx(f["from_server"]).lstrip(b"\r\n"))
                        f["hooks"] = [h for h in f["hooks"] if h != "tcp_message"]    # a message of CR/LF only may vanish
                for kk in ("to_server_tunnel", "to_client_tunnel"):
                    if isinstance(g[kk], str):
                        g[kk] = hx(unhx(g[kk]).lstrip(b"\r\n"))
                return g
            early = unhx(case["client"])[case["head_len"]:]
            stail = unhx(case["resps"][-1]["b"]).partition(b"\r\n\r\n")[2]
            if (early[:1] in (b"\r", b"\n") or stail[:1] in (b"\r", b"\n")) and lstripped(base) == lstripped(split):
                v.append({"key": "pipe-lstrip-depends-on-segmentation",
                          "what": f"upgrade through HttpLayer: the CR/LF at the start of a peer's first tunnel bytes is dropped only "
                                  f"if they are already buffered when the connection becomes a tunnel; cuts {case['cuts'][:12]}"})
            else:
                diff = [kk for kk in base if base[kk] != split.get(kk)]
                v.append({"key": "segmentation-changes-upgrade",
                          "what": f"Upgrade exchange: {diff} differ between the unsplit delivery and cuts {case['cuts'][:12]} "
                                  f"(hook delay {case.get('hook_delay', 0)}): {str({kk: split[kk] for kk in diff})[:300]} vs "
                                  f"{str({kk: base[kk] for kk in diff})[:300]}; client {case['client'][:200]}"})
        return v
    for name, o in (("unsplit", base), ("split", split)):
        if o["crashed"] and o["crashed"][0] != "NotImplementedError":
            v.append({"key": "layer-crash-" + o["crashed"][0], "what": f"HttpLayer raised {o['crashed']} ({name}) for client stream {case['client'][:160]}"})
    if base["crashed"] or split["crashed"]:
        if bool(base["crashed"]) != bool(split["crashed"]):
            v.append({"key": "segmentation-changes-crash", "what": f"crash only in one delivery: {base['crashed']} vs {split['crashed']}"})
        return v
    # a request aborted while it was being received (error before the request hook): how far its processing got
    # (interim 100 Continue sent, Expect removed) depends on when the fault arrived relative to the requestheaders hook
    def aborted_early(f):
        return isinstance(f, dict) and f["error"] and "request" not in f["hooks"]
    def norm_flow(f):
        if not aborted_early(f):
            return f
        g = dict(f)
        r = list(f["req"])
        r[8] = [h for h in r[8] if unhx(h[0]).lower() != b"expect"]
        g["req"] = r
        return g
    early_abort = any(aborted_early(f) for f in base["flows"]) or any(aborted_early(f) for f in split["flows"])
    if early_abort:
        base = dict(base, flows=[norm_flow(f) for f in base["flows"]])
        split = dict(split, flows=[norm_flow(f) for f in split["flows"]])
        def strip100(c):
            out = {}
            for k2, seq in c.items():
                ns = []
                for t in seq:
                    if k2 == "0" and t[0] == "send":
                        d2 = unhx(t[1]).replace(b"HTTP/1.1 100 Continue\r\n\r\n", b"")
                        if d2:
                            ns.append(["send", hx(d2)])
                    else:
                        ns.append(t)
                out[k2] = ns
            return out
        base["conns"], split["conns"] = strip100(base["conns"]), strip100(split["conns"])
    if base["flows"] != split["flows"]:
        i, x, y = _first_diff(split["flows"], base["flows"])
        stalled = len(base["flows"]) < len(split["flows"]) and base["flows"] == split["flows"][:len(base["flows"])]
        key = "blank-line-stalls-next-message" if stalled and (b"\n\r\n" in unhx(case["client"]) or b"\n\n" in unhx(case["client"]) or unhx(case["client"])[:1] in (b"\r", b"\n")) else "segmentation-changes-flows"
        v.append({"key": key, "what": f"flow {i} differs: split (cuts {case['cuts'][:12]}) {str(x)[:200]} vs unsplit {str(y)[:200]}; client {case['client'][:200]}"})
        return v
    if base["conns"] != split["conns"]:
        streaming = case["stream_req"] or case["stream_resp"]
        def normal(c):
            return {k2: [[t[0], _dechunk_stream(unhx(t[1]))] if t[0] == "send" else t for t in seq] for k2, seq in c.items()}
        aborted = any(isinstance(f, dict) and f["error"] for f in base["flows"]) or b"HEAD" in unhx(case["client"])
        # a streamed message that is aborted half way has been forwarded up to a point that depends on timing by nature
        if not (streaming and (aborted or normal(base["conns"]) == normal(split["conns"]))):
            ck = sorted(set(base["conns"]) | set(split["conns"]))
            bad = next(c for c in ck if base["conns"].get(c) != split["conns"].get(c))
            def no400(seq):
                return [t for t in (seq or []) if not (t[0] == "send" and unhx(t[1]).startswith(b"HTTP/1.1 400 "))]
            errs = any(isinstance(f, dict) and f["error"] for f in base["flows"])
            if bad == "0" and errs and no400(base["conns"].get(bad)) == no400(split["conns"].get(bad)):
                v.append({"key": "two-faults-400-or-close-depends-on-timing",
                          "what": f"a request whose head fails validation and whose body is malformed: the client gets the 400 answer "
                                  f"only if the head is processed (hook completed) before the body error closes the connection; "
                                  f"cuts {case['cuts'][:12]}, client {case['client'][:200]}"})
                return v
            v.append({"key": "segmentation-changes-bytes", "what": f"connection {bad}: split (cuts {case['cuts'][:12]}) {str(split['conns'].get(bad))[:200]} vs unsplit {str(base['conns'].get(bad))[:200]}; client {case['client'][:200]}"})
    return v


def nontrivial(case, obs):
    k = case["k"]
    if k == "buf":
        return any(r is not None for r, _ in obs["obs"])
    if k in ("srv", "cli"):
        return any(x[0] in ("ReqHeaders", "RespHeaders", "SendError", "ProtocolError") for o in obs["res"]["outs"] for x in o)
    return obs["base"]["nflows"] > 0 or obs["split"]["nflows"] > 0


def classify(case, obs):
    k = case["k"]
    tags = [k]
    if k == "buf":
        return tags
    cuts = case["cuts"]
    tags.append("cuts=" + ("0" if not cuts else "1" if len(cuts) == 1 else "2-3" if len(cuts) <= 3 else "many"))
    if k in ("srv", "cli"):
        flat = [x for o in obs["res"]["outs"] for x in o]
        kinds = sorted(set(x[0] for x in flat))
        n = sum(1 for x in flat if x[0] in ("ReqHeaders", "RespHeaders"))
        tags.append(f"{k}-heads={min(n, 3)}")
        for t in ("ProtocolError", "SendError", "Crash", "Close", "Data", "EndOfMessage"):
            if t in kinds:
                tags.append(f"{k}-{t}")
        if any(a[2] == "MakePipe" for a in obs["res"]["afters"]):
            tags.append(f"{k}-pipe-possible")
        if obs["res"].get("skip"):
            tags.append("skipped")
        if obs["base"] is not None:
            tags.append("oracle-compared")
    elif k == "upg":
        tags.append("upg-ws" if case["ws"] else "upg-tcp")
        early = unhx(case["client"])[case["head_len"]:]
        tags.append("upg-early-bytes" if early else "upg-no-early-bytes")
        if early and (not case["cuts"] or min(case["cuts"]) >= len(unhx(case["client"]))):
            tags.append("upg-early-with-request")
        tags.append(f"upg-flows={obs['base']['nflows']}")
        if case.get("hook_delay"):
            tags.append("upg-hooks-deferred")
    else:
        tags.append(f"flows={min(obs['base']['nflows'], 4)}")
        if any(f.get("error") for f in obs["base"]["flows"] if isinstance(f, dict)):
            tags.append("e2e-error-flow")
        if case["stream_req"] or case["stream_resp"]:
            tags.append("e2e-streaming")
        if len(obs["base"]["conns"]) > 2:
            tags.append("e2e-multi-upstream")
        if b"100-continue" in unhx(case["client"]).lower():
            tags.append("e2e-expect")
        if case.get("hook_delay"):
            tags.append("e2e-hooks-deferred")
    return tags
