"""C12 — Error pages never reflect unescaped client input
(proxy/layers/http/_base.py format_error, _http1.py make_error_response, _http2.py error path)."""
import re

from lib.coqterm import cN, cbytes, clist

ID = "C12"
QUICK_N = 2500
THOROUGH_N = 12500
SHARD = 250
COQ_PRELUDE = "From MV Require Import Model.ErrorPage.\n"
RULE = ("10% whole exchanges through a real HttpLayer (Expect: 100-continue or not, interim 1xx responses, request/response streaming, "
        "Content-Length/chunked/close-delimited responses) with a fault at a generated point (upstream close or garbage mid-body or before the head, "
        "malformed head, connect error, body size limit): the bytes sent to the client are read by an independent response-stream reader and an "
        "error page must be a complete 4xx/5xx response at a message boundary, never inside another response. Of the rest: 50% format_error(status, message) with messages over a markup/whitespace/newline/indentation/unicode/surrogate token "
        "dictionary (exercising html.escape and textwrap.dedent margins); 20% make_error_response; 30% end-to-end: a real "
        "HttpLayer (regular mode, HTTP/1) is sent malformed or unroutable requests carrying markup in the request line, header "
        "names/values, authority, or gets an upstream connect error / oversized body, and the bytes it answers are parsed. "
        "4% of messages are long (1000-6000 characters, sizes around 2048/4096) and end-to-end request lines / upstream error texts are padded likewise. Non-trivial = the message contains a character that html.escape rewrites or a newline/indent that changes the dedent "
        "margin, or (end-to-end) an error page was produced; distinct by canonical JSON.")
TRUSTED = ["Coq 8.16.1 kernel; vm_compute for case evaluation",
           "hand model of html.escape, textwrap.dedent, str.strip at the page ends, utf-8 'replace' encoding, Response.make/assemble_response; tied by correspondence",
           "status reason phrases and the Server header value are inputs of the model (read from the implementation per case)",
           "end-to-end call sites (HTTP/1 400/502/413 paths) are exercised by the oracle, not modelled; HTTP/2 and HTTP/3 error paths call the same format_error"]
ASSUMPTIONS = ["status codes and reason phrases are not attacker controlled", "str.strip only meets template whitespace at the page ends"]

TOK = ["<", ">", "&", '"', "'", "<script>alert(1)</script>", "&amp;", "&lt;", "\n", "\n    ", "\n        ", "\n\t", " ", "\t", "    ",
       "a", "b", "é", " ", "\x0b", "\r", "\r\n", "\x00", "\ud800", "😀", "</p>", "<!--", "]]>", "&#x27;", "  \n  \n", "x" * 7]
STATUS = [400, 502, 413, 408, 418, 500, 504, 599, 100, 999]

E2E = [
    b"GET http://example.com/<script>x</script> HTTP/1.1\r\nHost: example.com\r\nContent-Length: 1\r\nTransfer-Encoding: chunked\r\n\r\n",
    b"GET / HTTP/1.1\r\nHost: <b>&\"'\r\n\r\n",
    b"<script>alert(1)</script> / HTTP/1.1\r\n\r\n",
    b"GET http://example.com/ HTTP/1.1\r\nBad<Name>: v\r\n\r\n",
    b"GET http://exa<mple>.com/ HTTP/1.1\r\nHost: x\r\n\r\n",
    b"GET http://example.com/ HTTP/1.1\r\nHost: example.com\r\nContent-Length: <1>\r\n\r\n",
    b"GET http://example.com/ HTTP/1.1\r\nHost: example.com\r\nTransfer-Encoding: <gzip>\r\n\r\n",
    b"CONNECT <evil>&:443 HTTP/1.1\r\n\r\n",
    b"GET http://example.com:<80>/ HTTP/1.1\r\n\r\n",
    b"GET http://example.com/ HTTP/<1.1>\r\n\r\n",
]


def gen(rng, n, tier):
    out = []
    for _ in range(n):
        if rng.chance(0.10):
            # a whole exchange with a fault at a generated point: the error page (if any) must be a complete response
            # that starts at a message boundary of the bytes sent to the client
            total = rng.choice([0, 1, 6, 40])
            out.append({"k": "xchg", "expect": rng.chance(0.5), "method": rng.choice(["POST", "PUT", "GET"]),
                        "req_body": rng.randint(0, 8), "stream_req": rng.chance(0.3), "stream_resp": rng.chance(0.6),
                        "resp_framing": rng.choice(["cl", "chunked", "close"]), "resp_total": total,
                        "resp_sent": rng.randint(0, total), "interim": rng.choice([None, None, 100, 102, 103]),
                        "fault": rng.choice(["close", "garbage", "connect_err", "limit", "none", "close_before_head", "bad_head"]),
                        "markup": rng.choice(["<script>x</script>", "<b>&\"'", "plain"])})
            if rng.chance(0.3):
                # a client still uploading a (streamed, chunked) body when the early response has been relayed, then a malformed chunk
                out[-1].update({"req_fault": rng.choice(["bad_chunk", "bad_chunk", "close"]), "early": rng.choice(["partial", "complete", "none"]),
                                "method": "POST", "stream_req": rng.chance(0.8)})
            continue
        r = rng.random()
        msg = "".join(rng.choice(TOK) for _ in range(rng.randint(0, 7)))
        if rng.chance(0.04):
            # long messages (overlong request lines, header values, upstream error texts): boundary sizes
            pad = rng.choice([1000, 2040, 2048, 2049, 4096, 6000])
            filler = rng.choice(["a", "x<", "&", "é", "<b>"])
            msg = rng.choice([msg + filler * (pad // len(filler)), filler * (pad // len(filler)) + msg,
                              "<script>" + "A" * pad + "</script>"])
        if r < 0.5:
            out.append({"k": "page", "code": rng.choice(STATUS), "msg": [ord(c) for c in msg]})
        elif r < 0.7:
            out.append({"k": "resp", "code": rng.choice(STATUS), "msg": [ord(c) for c in msg]})
        elif r < 0.85:
            base = bytearray(rng.choice(E2E))
            if rng.chance(0.5):
                i = rng.below(len(base))
                base[i:i] = rng.choice([b"<", b">", b"&", b'"', b"'", b"<x>"])
            if rng.chance(0.15):
                j = base.find(b" ")
                base[j + 1:j + 1] = b"/<img src=x>" + b"A" * rng.choice([2100, 5000])
            out.append({"k": "e2e", "client": bytes(base).hex(), "connect_err": None, "limit": None})
        elif r < 0.95:
            err = "".join(rng.choice(TOK) for _ in range(rng.randint(1, 4)))
            if rng.chance(0.2):
                err = "<script>x</script>" + "e" * rng.choice([2100, 5000]) + err
            err = err.encode("utf8", "replace").decode("utf8")
            out.append({"k": "e2e", "client": b"GET http://example.com/ HTTP/1.1\r\nHost: example.com\r\n\r\n".hex(),
                        "connect_err": err, "limit": None})
        else:
            out.append({"k": "e2e", "client": (b"POST http://example.com/<i> HTTP/1.1\r\nHost: example.com\r\nContent-Length: 50\r\n\r\n" + b"x" * 50).hex(),
                        "connect_err": None, "limit": "10"})
    return out


def setup_impl():
    global format_error, make_error_response, status_codes, version, Driver, http_layers, HTTPMode
    from mitmproxy.proxy.layers.http._base import format_error
    from mitmproxy.proxy.layers.http._http1 import make_error_response
    from mitmproxy.net.http import status_codes
    from mitmproxy import version
    from lib.sansio import Driver
    from mitmproxy.proxy.layers import http as http_layers
    from mitmproxy.proxy.layers.http import HTTPMode


def _s(cps):
    return "".join(chr(c) for c in cps)


def run_impl(case):
    if case["k"] == "page":
        reason = status_codes.RESPONSES.get(case["code"], "Unknown")
        return {"reason": reason, "page": format_error(case["code"], _s(case["msg"])).hex()}
    if case["k"] == "resp":
        reason = status_codes.RESPONSES.get(case["code"], "Unknown")
        return {"reason": reason, "line_reason": status_codes.RESPONSES.get(case["code"], ""), "ver": version.MITMPROXY,
                "resp": make_error_response(case["code"], _s(case["msg"])).hex()}
    if case["k"] == "xchg":
        return run_xchg(case)
    over = {}
    if case["limit"]:
        over["body_size_limit"] = case["limit"]
    err = case["connect_err"]
    d = Driver(lambda ctx: http_layers.HttpLayer(ctx, HTTPMode.regular), options_overrides=over,
               connect=(lambda conn, drv: err) if err else None)
    d.start()
    d.data(0, bytes.fromhex(case["client"]))
    return {"to_client": d.sent(0).hex(), "crashed": d.crashed, "hooks": d.hook_names()}


def run_xchg(case):
    over = {}
    if case["fault"] == "limit":
        over["body_size_limit"] = "3"
    err = ("refused " + case["markup"]) if case["fault"] == "connect_err" else None

    def policy(hook, drv):
        f = hook.args()[0]
        if hook.name == "requestheaders" and case["stream_req"]:
            f.request.stream = True
        if hook.name == "responseheaders" and case["stream_resp"]:
            f.response.stream = True
    d = Driver(lambda ctx: http_layers.HttpLayer(ctx, HTTPMode.regular), options_overrides=over, policy=policy,
               connect=(lambda conn, drv: err) if err else None)
    d.start()
    nb = case["req_body"] if case["method"] != "GET" else 0
    head = (f"{case['method']} http://example.com/{case['markup'].replace(' ', '')} HTTP/1.1\r\nHost: example.com\r\n"
            + (f"Content-Length: {nb}\r\n" if case["method"] != "GET" else "")
            + ("Expect: 100-continue\r\n" if case["expect"] else "") + "\r\n").encode()
    if case.get("req_fault"):
        head = (f"POST http://example.com/{case['markup'].replace(' ', '')} HTTP/1.1\r\nHost: example.com\r\n"
                "Transfer-Encoding: chunked\r\n" + ("Expect: 100-continue\r\n" if case["expect"] else "") + "\r\n").encode()
        d.data(0, head)
        if d.crashed is None:
            d.data(0, b"3\r\nabc\r\n")
        if d.crashed is None and len(d.conns) > 1 and any(t[0] == "open" for t in d.trace) and not err:
            if case["early"] == "partial":
                d.data(1, b"HTTP/1.1 200 OK\r\nContent-Length: 400\r\n\r\n" + b"r" * 10)
            elif case["early"] == "complete":
                d.data(1, b"HTTP/1.1 413 Too Large\r\nContent-Length: 5\r\n\r\nlarge")
        if d.crashed is None:
            if case["req_fault"] == "bad_chunk":
                d.data(0, b"zz<" + case["markup"].encode() + b">\r\n")
            else:
                d.close(0)
        return {"to_client": d.sent(0).hex(), "crashed": d.crashed, "hooks": d.hook_names(), "method": "POST",
                "client_closed": any(t[0] == "close" and t[1] == 0 for t in d.trace)}
    d.data(0, head)
    if nb and d.crashed is None:
        d.data(0, b"b" * nb)
    have_server = len(d.conns) > 1 and any(t[0] == "open" for t in d.trace) and not err
    if have_server and d.crashed is None:
        if case["interim"]:
            d.data(1, b"HTTP/1.1 %d Interim\r\n\r\n" % case["interim"])
        if case["fault"] == "close_before_head":
            d.close(1)
        elif case["fault"] == "bad_head":
            d.data(1, b"HTTP/1.1 <200> " + case["markup"].encode() + b"\r\n\r\n")
        else:
            total, sent = case["resp_total"], case["resp_sent"]
            fr = case["resp_framing"]
            h = b"HTTP/1.1 200 OK\r\n" + (b"Content-Length: %d\r\n\r\n" % total if fr == "cl" else
                                            b"Transfer-Encoding: chunked\r\n\r\n" if fr == "chunked" else b"\r\n")
            d.data(1, h)
            body = b"r" * sent
            if d.crashed is None and sent:
                d.data(1, (b"%x\r\n%s\r\n" % (sent, body)) if fr == "chunked" else body)
            if d.crashed is None:
                if case["fault"] == "garbage" and fr == "chunked":
                    d.data(1, b"zz<" + case["markup"].encode() + b">\r\n")
                elif case["fault"] in ("close", "garbage"):
                    d.close(1)
                elif case["fault"] in ("none", "limit"):
                    rest = b"r" * (total - sent)
                    if fr == "chunked":
                        d.data(1, ((b"%x\r\n%s\r\n" % (len(rest), rest)) if rest else b"") + b"0\r\n\r\n")
                    elif fr == "cl":
                        if rest:
                            d.data(1, rest)
                    else:
                        d.close(1)
    return {"to_client": d.sent(0).hex(), "crashed": d.crashed, "hooks": d.hook_names(), "method": case["method"],
            "client_closed": any(t[0] == "close" and t[1] == 0 for t in d.trace)}


def read_responses(raw: bytes, method: str):
    """independent reader of the response stream a client sees: list of (status, headers, body, complete?) + rest"""
    out = []
    while raw:
        head, sep, rest = raw.partition(b"\r\n\r\n")
        if not sep:
            out.append((None, {}, raw, False))
            return out
        lines = head.split(b"\r\n")
        parts = lines[0].split(b" ", 2)
        if len(parts) < 2 or not parts[0].startswith(b"HTTP/1.") or not parts[1].isdigit():
            out.append((None, {}, raw, False))
            return out
        code = int(parts[1])
        h = {}
        for l in lines[1:]:
            k, _, v = l.partition(b":")
            h[k.strip().lower()] = v.strip()
        if 100 <= code < 200 or code in (204, 304) or method == "HEAD":
            out.append((code, h, b"", True))
            raw = rest
        elif b"chunked" in h.get(b"transfer-encoding", b"").lower():
            body, ok = b"", False
            while True:
                line, sep2, rest2 = rest.partition(b"\r\n")
                if not sep2:
                    break
                try:
                    n = int(line.split(b";")[0], 16)
                except ValueError:
                    break
                if n == 0:
                    t, sep3, rest3 = rest2.partition(b"\r\n")
                    if sep3 and t == b"":
                        ok, rest = True, rest3
                    break
                if len(rest2) < n + 2:
                    break
                body += rest2[:n]
                rest = rest2[n + 2:]
            out.append((code, h, body if ok else rest, ok))
            if not ok:
                return out
            raw = rest
        elif h.get(b"content-length", b"").isdigit():
            n = int(h[b"content-length"])
            if len(rest) < n:
                out.append((code, h, rest, False))
                return out
            out.append((code, h, rest[:n], True))
            raw = rest[n:]
        else:
            out.append((code, h, rest, True))   # read-until-close
            return out
    return out


def coq_case(case, obs):
    if case["k"] == "page":
        return (f"Page {cN(case['code'])} {clist([cN(ord(c)) for c in obs['reason']], 'N')} "
                f"{clist([cN(c) for c in case['msg']], 'N')} {cbytes(bytes.fromhex(obs['page']))}")
    if case["k"] == "resp":
        return (f"Resp {cN(case['code'])} {cbytes(obs['line_reason'].encode())} {clist([cN(ord(c)) for c in obs['reason']], 'N')} {cbytes(obs['ver'].encode())} "
                f"{clist([cN(c) for c in case['msg']], 'N')} {cbytes(bytes.fromhex(obs['resp']))}")
    return None


# ------------------------------------------------------------------ oracle: an HTML tokenizer on the page
TEMPLATE_RE = re.compile(
    rb"\A<html>\n\s*<head>\n\s*<title>(\d{3}) ([^<>&\"]*)</title>\n\s*</head>\n\s*<body>\n\s*<h1>\1 \2</h1>\n\s*<p>(.*)</p>\n\s*</body>\n\s*</html>\Z",
    re.S)
ENTITY = re.compile(rb"&(amp|lt|gt|quot|#x27);")


def page_violations(page: bytes, what: str):
    m = TEMPLATE_RE.match(page)
    if not m:
        return [{"key": "page-structure", "what": f"{what}: page does not have the fixed template structure: {page[:120]!r}"}]
    dyn = m.group(3)
    for ch in (b"<", b">", b'"', b"'"):
        if ch in dyn:
            return [{"key": "unescaped-markup", "what": f"{what}: dynamic part contains raw {ch!r}: {dyn[:120]!r}"}]
    if b"&" in ENTITY.sub(b"", dyn):
        return [{"key": "unescaped-markup", "what": f"{what}: dynamic part contains a bare ampersand: {dyn[:120]!r}"}]
    return []


def split_response(raw: bytes):
    """independent minimal HTTP/1 response reader: (status, headers, body, rest) or None"""
    head, sep, rest = raw.partition(b"\r\n\r\n")
    if not sep:
        return None
    lines = head.split(b"\r\n")
    hdrs = [l.split(b":", 1) for l in lines[1:]]
    if any(len(h) != 2 for h in hdrs):
        return None
    h = {k.strip().lower(): v.strip() for k, v in hdrs}
    if not h.get(b"content-length", b"").isdigit():
        return None
    n = int(h[b"content-length"])
    if len(rest) < n:
        return None
    return lines[0], h, rest[:n], rest[n:]


def oracle(case, obs):
    if case["k"] == "page":
        page = bytes.fromhex(obs["page"])
        v = page_violations(page, "format_error")
        if not v:
            import html as _html
            dyn = TEMPLATE_RE.match(page).group(3).decode("utf8")
            want = _s(case["msg"]).encode("utf8", "replace").decode("utf8")
            norm = lambda s: re.sub(r"[ \t\n]+", "", s)
            if norm(_html.unescape(dyn)) != norm(want) and "&" not in want:
                v.append({"key": "message-mangled", "what": f"unescaped page text {dyn[:80]!r} is not the message {want[:80]!r} (whitespace ignored)"})
        return v
    if case["k"] == "xchg":
        if obs["crashed"]:
            return [{"key": "layer-crash", "what": f"HTTP layer raised {obs['crashed']}"}]
        raw = bytes.fromhex(obs["to_client"])
        v = []
        msgs = read_responses(raw, obs["method"])
        finals = [m for m in msgs if m[0] is None or not (100 <= m[0] < 200)]
        if len(finals) > 1:
            v.append({"key": "extra-response", "what": f"one request was sent but the client received {len(finals)} final responses (statuses {[m[0] for m in finals]}): an error response was written after a response had already been sent"})
        for code, h, body, complete in msgs:
            is_page = body.lstrip().startswith(b"<html>") and b"</html>" in body
            if code is None:
                v.append({"key": "error-response-framing", "what": f"bytes sent to the client do not continue with a response head: {body[:80]!r}"})
            elif not complete and b"<html>" in body and b"<title>" in body:
                v.append({"key": "error-page-inside-message", "what": f"an error page was written into the unfinished body of a {code} response: {body[:100]!r}"})
            elif complete and code == 200 and b"<html>\n" in body and b"<title>" in body:
                v.append({"key": "error-page-inside-message", "what": f"an error page was written into the body of the relayed 200 response: {body[:100]!r}"})
            elif complete and is_page and code >= 400:
                if not h.get(b"content-type", b"").lower().startswith(b"text/html"):
                    v.append({"key": "content-type", "what": f"HTML error page without an HTML content type: {h.get(b'content-type')!r}"})
                if b"content-length" not in h:
                    v.append({"key": "error-response-framing", "what": "error page response without Content-Length"})
                v += page_violations(body, "error response")
        return v
    raw = bytes.fromhex(obs["resp"] if case["k"] == "resp" else obs["to_client"])
    if case["k"] == "e2e":
        if obs["crashed"]:
            return [{"key": "layer-crash", "what": f"HTTP layer raised {obs['crashed']}"}]
        if not raw:
            return []
    sp = split_response(raw)
    if sp is None:
        return [{"key": "error-response-framing", "what": f"error response is not one complete Content-Length framed HTTP/1 response: {raw[:100]!r}"}]
    status, h, body, rest = sp
    v = []
    if rest:
        v.append({"key": "error-response-framing", "what": f"bytes after the error response body: {rest[:60]!r}"})
    if body.lstrip().startswith(b"<html>"):
        if not h.get(b"content-type", b"").lower().startswith(b"text/html"):
            v.append({"key": "content-type", "what": f"HTML error page without an HTML content type: {h.get(b'content-type')!r}"})
        v += page_violations(body, "error response")
    return v


def nontrivial(case, obs):
    if case["k"] == "xchg":
        return bool(obs["to_client"])
    if case["k"] in ("page", "resp"):
        return any(c in (38, 60, 62, 34, 39, 10) for c in case["msg"])
    return bool(obs["to_client"])


def classify(case, obs):
    if case["k"] == "xchg":
        raw = bytes.fromhex(obs["to_client"])
        return ["xchg", "xchg-page" if b"<html>" in raw else "xchg-nopage",
                ("xchg-reqfault-" + case["req_fault"] + "-early-" + case["early"]) if case.get("req_fault") else ("xchg-fault-" + case["fault"])]
    if case["k"] == "e2e":
        raw = bytes.fromhex(obs["to_client"])
        return ["e2e", "e2e-page" if b"<html>" in raw else ("e2e-other" if raw else "e2e-silent")]
    t = [case["k"]]
    if 10 in case["msg"]:
        t.append("multiline")
    if any(c in (38, 60, 62, 34, 39) for c in case["msg"]):
        t.append("markup")
    if any(0xD800 <= c <= 0xDFFF for c in case["msg"]):
        t.append("surrogate")
    return t
