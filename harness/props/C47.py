"""C47 — Flow edits through mitmweb are atomic (mitmproxy/tools/web/app.py FlowHandler.put, mitmproxy/flow.py).

A case is a pre-state recipe for one HTTP flow plus a short history of PUT /flows/<id> bodies sent through a
real tornado Application (tornado.testing.AsyncHTTPTestCase client, real sockets on localhost). After every PUT
the complete Flow.get_state() is compared with the one before it (oracle) and the edit-relevant part is handed to
the Coq model (correspondence)."""
import copy
import json
import traceback

from lib.coqterm import cbytes, cbool, cZ, cN, clist, copt

ID = "C47"
QUICK_N = 800
THOROUGH_N = 4000
SHARD = 100
COQ_PRELUDE = "From MV Require Import Model.WebFlowEdit.\n"
RULE = ("A case = flow recipe (response present or not, request headers incl. Host/transfer-encoding/duplicate "
        "content-length, authority, trailers) + a history of 1-3 PUT bodies, so later edits meet a backup left by "
        "earlier ones. ~65% of the documents are valid edits over all 15 known fields; the rest mix in one or more "
        "invalid parts from a token dictionary: unknown keys at each level, ports/status codes that int() refuses "
        "(words, empty, double underscore, hex, null, lists, Infinity/NaN), header lists of wrong shape (scalars, "
        "strings, entries of length 0/1/3, non-string and null components, 2-char strings and dicts as pairs), "
        "contents of non-string type, strings with lone surrogates / non-latin-1 / astral code points, non-dict "
        "sub-documents and bodies, malformed JSON and wrong Content-Type. Invalid parts are placed before, between "
        "and after valid ones. Thorough adds every ordered pair (valid field, invalid field) x {fresh, already "
        "edited} flow. Non-trivial = at least one PUT of the history changed or had to restore something "
        "(an edit with >= 1 field, or a rejected edit); distinct by canonical JSON.")
TRUSTED = ["Coq 8.16.1 kernel (coqc), vm_compute for case evaluation",
           "harness/props/C47.py (generator, tornado test client glue, state printer, the static in-model filter) and Corr/C47.v",
           "hand model of CPython str()/int() on JSON values, utf-8/surrogateescape and latin-1 encoders, Request/Response/"
           "Message setters and url.hostport (coq/Model/WebFlowEdit.v), tied by correspondence only",
           "Model/Headers.v (multidict add/setitem/contains), tied by C35's correspondence and again here",
           "Flow.get_state()/set_state() are treated as an exact whole-state copy (checked by the oracle on every rejected edit: "
           "the complete get_state() dict must be equal before and after)",
           "tornado maps APIError to its status (400) and any other exception to 500; the exception class is read through "
           "RequestHandler.log_exception"]
ASSUMPTIONS = ["HTTP flows only (the property speaks of requests and responses); one flow in the view; XSRF check off, auth cookie valid as in test_app.py",
               "code variant flags vx (except clause catches every exception) and vb (snapshot restored instead of revert()) are read "
               "from the live code by a two-request probe and carried in every case; theorems quantify over them",
               "steps the model does not describe (JSON floats, str() of a list/dict, int() of a non-ASCII string, null inside a header "
               "pair, text assignment with content-type/content-encoding present, IDNA authority) are judged by the oracle only"]

_st = {}

# ------------------------------------------------------------------------------------------ generator
STR_OK = ["GET", "PATCH", "https", "http", "example.com", "/p?q=1", "HTTP/2.0", "HTTP/1.1", "", "a b", "x" * 70]
STR_UNI = ["é", "Non-Autorisé", "ÿ", "\udc80", "\U0001f600", "né.example", "\udcff\udc7f", "€"]
STR_OTHER = [5, -3, True, False, None, 10 ** 20]
STR_CONTAINER = [[1, "a"], {"a": 1}, []]
INT_OK = [80, 443, 8080, 0, -1, 70000, 10 ** 30, "80", " 8_0 ", "+12", "-0", "\t7\n", "007", True, False, "443"]
INT_BAD = ["abc", "", "1__0", "_1", "1_", "0x10", "- 1", "+", "1 0", "\x1c5", "1\x00", "++1", None, [1], {"a": 1}, [], "z", "80a"]
INT_UNMODELLED = ["５", " 5", 1.5, -0.0, float("inf"), float("nan"), "١"]
HNAMES = ["a", "X-Foo", "Host", "hOst", "content-length", "Content-Length", "transfer-encoding", "cookie", "", "né",
          "\udc80", "content-type", "content-encoding"]
HVALS = ["b", "", "chunked", "1", "example.org:81", "vé", "\udcfe", "gzip", "text/plain; charset=latin-1", "€"]
CONTENT_OK = ["req", "", "café", "ÿþ", None, "line1\nline2", "€ uro", "\udc80", "\U0001f600"]
CONTENT_BAD = [5, True, [1], {"a": 1}, "\ud800", "x\ud9ff"]
REQ_STR_KEYS = ["method", "scheme", "host", "path", "http_version"]
REQ_KEYS = REQ_STR_KEYS + ["port", "headers", "trailers", "content"]
RESP_KEYS = ["reason", "http_version", "code", "headers", "trailers", "content"]
UNKNOWN = ["foo", "Method", "status_code", "", "port ", "request", "é", "id", "timestamp_start"]


def _pairs(rng, n, hot):
    out = []
    for _ in range(n):
        name = rng.choice(HNAMES[:10] if not hot else HNAMES)
        out.append([name, rng.choice(HVALS[:7] if not hot else HVALS)])
    return out


def _hdr_val(rng, bad, hot=False):
    if not bad:
        v = _pairs(rng, rng.randint(0, 4), hot)
        r = rng.random()
        if r < 0.06 and v:
            v[rng.below(len(v))] = "ab"
        elif r < 0.10 and v:
            v[rng.below(len(v))] = {"k1": 1, "k2": 2}
        elif r < 0.13:
            v = {"ab": 1, "cd": 2}
        elif r < 0.15:
            v = ""
        return v
    kind = rng.below(12)
    if kind == 0:
        return rng.choice([5, None, True, "abcd", "a", 1.5])
    v = _pairs(rng, rng.randint(1, 3), hot)
    pos = rng.below(len(v) + 1)
    badentry = [["c"], [], ["a", "b", "c"], ["c", 1], [1, "c"], ["c", None], [None, "c"], ["c", ["d"]], 5, None, "abc", "a",
                {"a": 1}, ["\ud800", "x"], ["x", "\ud800"], [True, False]][rng.below(16)]
    v.insert(pos, badentry)
    return v


def _field_val(rng, key, bad, hot=False):
    if key in ("port", "code"):
        if bad:
            return rng.choice(INT_BAD)
        return rng.choice(INT_UNMODELLED) if rng.chance(0.04) else rng.choice(INT_OK)
    if key in ("headers", "trailers"):
        return _hdr_val(rng, bad, hot)
    if key == "content":
        return rng.choice(CONTENT_BAD) if bad else rng.choice(CONTENT_OK)
    # str() fields never raise on conversion; "bad" = a value whose encoding fails
    if bad:
        return rng.choice(["\ud800", "h\ud800", "€", "Ā"])
    r = rng.random()
    if r < 0.70:
        return rng.choice(STR_OK)
    if r < 0.85:
        return rng.choice(STR_UNI)
    if r < 0.96:
        return rng.choice(STR_OTHER)
    return rng.choice(STR_CONTAINER)


def _subdoc(rng, keys, nbad, hot):
    ks = rng.sample(keys, rng.randint(0, min(5, len(keys))))
    items = [[k, _field_val(rng, k, False, hot)] for k in ks]
    for _ in range(nbad):
        r = rng.random()
        if r < 0.35:
            it = [rng.choice(UNKNOWN), rng.choice([42, "x", None, [1]])]
        else:
            k = rng.choice(keys)
            items = [x for x in items if x[0] != k]
            it = [k, _field_val(rng, k, True, hot)]
        items = [x for x in items if x[0] != it[0]]
        items.insert(rng.below(len(items) + 1), it)
    return {k: v for k, v in items}


def _doc(rng, invalid, has_resp=True):
    """-> ("json", obj) | ("raw", text, content_type)"""
    r = rng.random()
    if invalid and r < 0.06:
        return ["raw", rng.choice(["!!", "", "{", "{\"comment\": }", "[1,"]), "application/json"]
    if invalid and r < 0.09:
        return ["raw", "{\"comment\": \"x\"}", rng.choice(["text/plain", ""])]
    if invalid and r < 0.14:
        return ["json", rng.choice([[1, 2], 5, "ab", None, True, [], [["comment", "x"]]])]
    hot = rng.chance(0.12)
    tops = []
    where = rng.below(3) if invalid else -1     # 0: request part, 1: response part, 2: top level
    more = invalid and rng.chance(0.25)
    if rng.chance(0.72) or where == 0:
        tops.append(["request", _subdoc(rng, REQ_KEYS, (1 if where == 0 else 0) + (1 if more and rng.chance(0.5) else 0), hot)])
    if rng.chance(0.60 if has_resp else 0.08) or where == 1:
        tops.append(["response", _subdoc(rng, RESP_KEYS, (1 if where == 1 else 0) + (1 if more and rng.chance(0.5) else 0), hot)])
    if rng.chance(0.22):
        tops.append(["marked", rng.choice([":red_circle:", "", "x", True, 5, None])])
    if rng.chance(0.28):
        tops.append(["comment", rng.choice(["I'm a comment", "", "café \U0001f600", 7, None, ["l"], {"k": "v"}])])
    rng.shuffle(tops)
    if where == 2:
        r2 = rng.random()
        if r2 < 0.6:
            it = [rng.choice(["foo", "Request", "requests", "", "id", "intercepted", "é"]), rng.choice([42, {"method": "X"}, None])]
        elif r2 < 0.8:
            it = ["request", rng.choice([5, "ab", None, [["method", "X"]], True])]
        else:
            it = ["response", rng.choice([5, "ab", None, [], False])]
        tops = [x for x in tops if x[0] != it[0]]
        tops.insert(rng.below(len(tops) + 1), it)
    return ["json", {k: v for k, v in tops}]


def _recipe(rng):
    rec = {"resp": not rng.chance(0.15)}
    if rng.chance(0.45):
        rec["req_headers"] = [[n, v] for n, v in _pairs(rng, rng.randint(0, 3), False) if n.isascii() and v.isascii()]
        if rng.chance(0.6):
            rec["req_headers"].insert(rng.below(len(rec["req_headers"]) + 1), [rng.choice(["Host", "host", "HOST"]), "address:22"])
    if rng.chance(0.2):
        rec["authority"] = rng.choice(["address:22", "example.com"])
    if rng.chance(0.2):
        rec["req_trailers"] = [["t", "1"]]
    if rec["resp"] and rng.chance(0.2):
        rec["resp_trailers"] = [["u", "2"], ["U", "3"]]
    if rng.chance(0.1):
        rec["scheme"] = "https"
    return rec


def gen(rng, n, tier):
    out = []
    if tier == "thorough":
        good = [("request", k, v) for k, v in [("method", "PATCH"), ("port", 81), ("headers", [["a", "b"]]), ("content", "x"), ("host", "h")]] + \
               [("response", k, v) for k, v in [("reason", "R"), ("code", 404), ("trailers", [["t", "v"]])]] + [("comment", None, "c")]
        bad = [("request", "port", "abc"), ("request", "headers", [["a"]]), ("request", "zz", 1), ("request", "content", 5),
               ("response", "code", None), ("response", "headers", 5), ("response", "reason", "€"), ("zz", None, 1),
               ("request", "method", "\ud800")]
        for g in good:
            for b in bad:
                for first in (g, b):
                    second = b if first is g else g
                    doc = {}
                    for (a, k, v) in (first, second):
                        if k is None:
                            doc[a] = v
                        else:
                            doc.setdefault(a, {})[k] = v
                    for pre in ([], [["json", {"comment": "earlier", "request": {"path": "/edited"}}]]):
                        out.append({"rec": {"resp": True}, "puts": pre + [["json", doc]]})
    for _ in range(n):
        puts = []
        rec = _recipe(rng)
        for j in range(rng.weighted([(45, 1), (40, 2), (15, 3)])):
            puts.append(_doc(rng, rng.chance(0.27), rec["resp"]))
        out.append({"rec": rec, "puts": puts})
    return out


# ------------------------------------------------------------------------------------------ implementation
def setup_impl():
    import logging
    import tornado.testing
    from tornado.web import create_signed_value
    from mitmproxy import options
    from mitmproxy.test import tflow
    from mitmproxy.tools.web import app
    from mitmproxy.tools.web import master as webmaster
    from mitmproxy import http
    for name in ("tornado.access", "tornado.application", "tornado.general"):
        logging.getLogger(name).disabled = True

    class Client(tornado.testing.AsyncHTTPTestCase):
        def runTest(self):
            pass

        def get_app(self):
            async def make_master():
                return webmaster.WebMaster(options.Options(http2=False), with_termlog=False)
            m = self.io_loop.asyncio_loop.run_until_complete(make_master())
            self.master = m
            self.view = m.view
            a = app.Application(m, None)
            a.settings["xsrf_cookies"] = False
            return a

    t = Client()
    t.setUp()
    cookie_name = t._app.settings["auth_cookie_name"]()
    cookie = create_signed_value(secret=t._app.settings["cookie_secret"], name=cookie_name,
                                 value=app.AuthRequestHandler.AUTH_COOKIE_VALUE).decode()
    excs = []

    def log_exception(self, typ, value, tb):
        excs.append((typ, [fs.name for fs in traceback.extract_tb(tb)]))
    app.FlowHandler.log_exception = log_exception      # observation only: which exception ended the request
    _st.update(t=t, cookie=f"{cookie_name}={cookie}", excs=excs, tflow=tflow, http=http, app=app)
    # probe the code variant (see Model/WebFlowEdit.v): does a ValueError restore the flow; does a failed edit keep an older backup
    f = _new_flow({"resp": True})
    _put(["json", {"comment": "probe", "request": {"port": "z"}}])
    _st["vx"] = f.comment != "probe"
    f = _new_flow({"resp": True})
    _put(["json", {"comment": "first"}])
    _put(["json", {"comment": "second", "zz": 1}])
    _st["vb"] = f.comment == "first" and f._backup is not None


def _new_flow(rec):
    tflow, http = _st["tflow"], _st["http"]
    f = tflow.tflow(resp=rec.get("resp", True))
    f.id = "42"
    if "scheme" in rec:
        f.request.scheme = rec["scheme"]
    if "req_headers" in rec:
        f.request.headers = http.Headers([(a.encode(), b.encode()) for a, b in rec["req_headers"]])
    if "authority" in rec:
        f.request.authority = rec["authority"]
    if "req_trailers" in rec:
        f.request.trailers = http.Headers([(a.encode(), b.encode()) for a, b in rec["req_trailers"]])
    if "resp_trailers" in rec and f.response:
        f.response.trailers = http.Headers([(a.encode(), b.encode()) for a, b in rec["resp_trailers"]])
    view = _st["t"].view
    view.clear()
    view.add([f])
    _st["flow"] = f
    return f


def _put(put):
    t = _st["t"]
    if put[0] == "json":
        body, ctype = json.dumps(put[1]), "application/json"
    else:
        body, ctype = put[1], put[2]
    headers = {"Cookie": _st["cookie"]}
    if ctype:
        headers["Content-Type"] = ctype
    _st["excs"].clear()
    r = t.fetch("/flows/42", method="PUT", body=body, headers=headers, allow_nonstandard_methods=True)
    return r.code


def _exc_class(typ):
    app = _st["app"]
    if typ is None:
        return None
    for cls, name in ((app.APIError, "EApi"), (UnicodeError, "EUnicode"), (ValueError, "EValue"), (TypeError, "EType"),
                      (AttributeError, "EAttr")):
        if issubclass(typ, cls):
            return name
    return "Other:" + typ.__name__


def _hdrs(fields):
    return [[None if a is None else a.hex(), None if b is None else b.hex()] for a, b in fields]


def _msg(d):
    return {"version": d["http_version"].hex(), "headers": _hdrs(d["headers"]),
            "trailers": None if d["trailers"] is None else _hdrs(d["trailers"]),
            "content": None if d["content"] is None else d["content"].hex()}


def _core(st):
    """the edit-relevant part of a Flow.get_state() dict, JSON-serialisable"""
    rq, rs = st["request"], st["response"]
    out = {"request": dict(_msg(rq), method=rq["method"].hex(), scheme=rq["scheme"].hex(), host=rq["host"], port=rq["port"],
                           path=rq["path"].hex(), authority=rq["authority"].hex()),
           "response": None if rs is None else dict(_msg(rs), code=rs["status_code"], reason=rs["reason"].hex()),
           "marked": st["marked"], "comment": st["comment"]}
    return out


def _flowobs(st):
    return {"cur": _core(st), "backup": None if st["backup"] is None else _core(st["backup"]),
            "nested_backup": st["backup"] is not None and st["backup"].get("backup") is not None}


def _diff_keys(a, b, prefix=""):
    out = []
    for k in a:
        if a[k] != b.get(k, "<missing>"):
            if isinstance(a[k], dict) and isinstance(b.get(k), dict) and k in ("request", "response", "backup"):
                out += _diff_keys(a[k], b[k], prefix + k + ".")
            else:
                out.append(prefix + k)
    return out


def _none_in_headers(st):
    for m in (st["request"], st["response"]):
        if m:
            for h in (m["headers"], m["trailers"] or ()):
                if any(a is None or b is None for a, b in h):
                    return True
    return False


def _applied_mismatch(f, doc):
    """independent reading of an accepted edit: which submitted fields are not reflected by the flow afterwards"""
    bad = []
    enc = lambda s: s.encode("utf-8", "surrogateescape")
    def pairs(v):
        return tuple((enc(h[0]), enc(h[1])) for h in (list(x) for x in v))
    for a, b in doc.items():
        if a in ("marked", "comment"):
            if getattr(f, a) != b:
                bad.append(a)
            continue
        msg = getattr(f, a)
        keys = list(b.keys())
        for i, (k, v) in enumerate(b.items()):
            later = keys[i + 1:]
            try:
                if a == "request" and k in ("method", "scheme", "path"):
                    ok = getattr(msg.data, k) == enc(str(v))
                elif k == "http_version":
                    ok = msg.data.http_version == enc(str(v))
                elif a == "request" and k == "host":
                    ok = msg.data.host == str(v)
                elif a == "request" and k == "port":
                    ok = msg.data.port == int(v)
                elif a == "response" and k == "code":
                    ok = msg.data.status_code == int(v)
                elif a == "response" and k == "reason":
                    ok = msg.data.reason == str(v).encode("latin-1")
                elif k == "headers":
                    if any(x in later for x in ("content", "host", "port")):
                        ok = True       # later setters legitimately rewrite content-length/content-type/Host
                    else:
                        ok = msg.data.headers.fields == pairs(v)
                elif k == "trailers":
                    ok = msg.data.trailers is not None and msg.data.trailers.fields == pairs(v)
                elif k == "content":
                    if v is None:
                        ok = msg.data.content is None
                    elif v.isascii() and "content-encoding" not in msg.headers:
                        ok = msg.data.content == v.encode()
                    else:
                        ok = msg.data.content is not None
                else:
                    ok = False
            except Exception as e:       # the reference reading itself failed: report it, do not hide it
                ok = False
            if not ok:
                bad.append(f"{a}.{k}")
    return bad


def run_impl(case):
    f = _new_flow(case["rec"])
    steps = []
    for put in case["puts"]:
        before = f.get_state()
        code = _put(put)
        excs = list(_st["excs"])
        after = f.get_state()
        typ = excs[0][0] if excs else None
        step = {"status": code, "exc": _exc_class(typ), "n_exc": len(excs),
                "exc_in_put_body": bool(excs) and "put" in excs[0][1] and "broadcast_flow" not in excs[0][1] and "update" not in excs[0][1],
                "before": _flowobs(before), "after": _flowobs(after),
                "same_full": before == after,
                "diff": _diff_keys(before, after)[:8],
                "had_backup": before["backup"] is not None,
                "none_in_headers": _none_in_headers(after)}
        if code == 200 and put[0] == "json" and isinstance(put[1], dict) and not step["none_in_headers"]:
            step["not_applied"] = _applied_mismatch(f, put[1])
        steps.append(step)
        if step["none_in_headers"]:
            break           # the flow object is corrupt from here on (None inside a header tuple)
    return {"vx": _st["vx"], "vb": _st["vb"], "steps": steps}


# ------------------------------------------------------------------------------------------ Coq printer
def custr(s):
    if all(ord(c) < 256 for c in s):
        return "(@nil N)" if not s else f"(ub {cbytes(s.encode('latin-1'))})"
    return clist((cN(ord(c)) for c in s), "N")


class _Unmodelled(Exception):
    pass


class _Share:
    """let-binds repeated sub-terms (flow states repeat across the steps of a history) to keep the case term small:
    coqc spends its time parsing and type-checking the literals, not evaluating them"""

    def __init__(self):
        self.seen = {}
        self.binds = []

    def __call__(self, text):
        if len(text) < 24:
            return text
        v = self.seen.get(text)
        if v is None:
            v = f"v{len(self.binds)}"
            self.seen[text] = v
            self.binds.append((v, text))
        return v

    def wrap(self, body):
        return "(" + "".join(f"let {v} := {t} in " for v, t in self.binds) + body + ")"


def cjv(v):
    if v is None:
        return "JNull"
    if v is True or v is False:
        return f"(JBool {cbool(v)})"
    if isinstance(v, int):
        return f"(JInt {cZ(v)})"
    if isinstance(v, float):
        raise _Unmodelled("float")
    if isinstance(v, str):
        return f"(JStr {custr(v)})"
    if isinstance(v, list):
        return f"(JList {clist((cjv(x) for x in v), 'jv')})"
    if isinstance(v, dict):
        return "(JDict " + clist((f"({custr(k)}, {cjv(x)})" for k, x in v.items()), "(ustr * jv)") + ")"
    raise _Unmodelled(type(v).__name__)


def chdrs(h, sh):
    if any(a is None or b is None for a, b in h):
        raise _Unmodelled("None header")
    return sh("(" + clist((f"({cbytes(bytes.fromhex(a))}, {cbytes(bytes.fromhex(b))})" for a, b in h), "Headers.field") + " : hdrs)") \
        if h else "(@nil Headers.field)"


def cmsg(m, sh):
    return sh(f"(mkMsg {cbytes(bytes.fromhex(m['version']))} {chdrs(m['headers'], sh)} "
              f"{copt(m['trailers'], lambda t: chdrs(t, sh), 'hdrs')} {copt(m['content'], lambda c: cbytes(bytes.fromhex(c)), 'bytes')})")


def ccore(c, sh):
    rq, rs = c["request"], c["response"]
    b = lambda k: cbytes(bytes.fromhex(rq[k]))
    if not isinstance(rq["host"], str) or not isinstance(rq["port"], int):
        raise _Unmodelled("host/port type")
    creq = sh(f"(mkReq {cmsg(rq, sh)} {b('method')} {b('scheme')} {custr(rq['host'])} {cZ(rq['port'])} {b('path')} {b('authority')})")
    cresp = copt(rs, lambda r: sh(f"(mkResp {cmsg(r, sh)} {cZ(r['code'])} {cbytes(bytes.fromhex(r['reason']))})"), "response")
    return sh(f"(mkCore {creq} {cresp} {cjv(c['marked'])} {cjv(c['comment'])})")


def cflow(fo, sh):
    if fo["nested_backup"]:
        raise _Unmodelled("nested backup")
    return f"(mkFlow {ccore(fo['cur'], sh)} {copt(fo['backup'], lambda c: ccore(c, sh), 'core')})"


def _has_hdr(hexfields, names):
    return any(a is not None and bytes.fromhex(a).lower() in names for a, _ in hexfields)


def _in_model(put, before):
    """Static, conservative mirror of the model's [Unmodelled] results. If this says yes and the model says
    Unmodelled, check_case fails (fail closed); if it says no, the step is judged by the oracle only."""
    if put[0] != "json" or not isinstance(put[1], dict):
        return True
    doc = put[1]
    cur = before["cur"]
    special = {b"content-type", b"content-encoding"}
    names_in_doc = set()
    for a in ("request", "response"):
        sub = doc.get(a)
        if not isinstance(sub, dict):
            continue
        for k in ("headers", "trailers"):
            v = sub.get(k)
            entries = v if isinstance(v, list) else []
            for h in entries:
                comps = h if isinstance(h, list) else []
                if any(c is None for c in comps):
                    return False
                for c in comps[:1]:
                    if isinstance(c, str):
                        names_in_doc.add(c.encode("utf-8", "replace").lower())
            if isinstance(v, dict) or any(isinstance(h, (str, dict)) for h in entries):
                # 2-char strings / dict keys as pairs: names are single characters or keys, never the special ones
                pass
        for k in (REQ_STR_KEYS if a == "request" else ["reason", "http_version"]):
            if isinstance(sub.get(k), (list, dict)):
                return False
        for k in ("port", "code"):
            v = sub.get(k)
            if isinstance(v, str) and not v.isascii():
                return False
    for a in ("request", "response"):
        sub = doc.get(a)
        if isinstance(sub, dict) and isinstance(sub.get("content"), str) and cur[a] is not None:
            if names_in_doc & special or _has_hdr(cur[a]["headers"], special):
                return False
    if cur["request"]["authority"]:
        sub = doc.get("request")
        hosts = [cur["request"]["host"]] + ([str(sub["host"])] if isinstance(sub, dict) and "host" in sub else [])
        if any(not h.isascii() for h in hosts):
            return False
    return True


def coq_case(case, obs):
    steps = []
    sh = _Share()
    prev_emitted = False
    for put, st in zip(case["puts"], obs["steps"]):
        was_prev, prev_emitted = prev_emitted, False
        try:
            if not _in_model(put, st["before"]):
                continue
            if put[0] == "json":
                body = f"(Some {cjv(put[1])})"
            else:
                body = "(@None jv)"
            init, final = cflow(st["before"], sh), cflow(st["after"], sh)
        except _Unmodelled:
            continue
        if st["status"] == 200 and st["exc"] is None:
            out = "Done"
        elif st["exc"] in ("EApi", "EValue", "EType", "EUnicode", "EAttr") and st["n_exc"] == 1 and st["exc_in_put_body"]:
            out = f"(Failed {st['exc']})"
        else:
            out = "OutOfModel"      # never equal to a model result: reported as a disagreement
        init = "None" if was_prev else f"(Some {init})"
        steps.append(f"(mkStep {init} {body} {out} {cN(st['status'])} {final})")
        prev_emitted = True
    if not steps:
        return None
    return sh.wrap(f"Hist {cbool(obs['vx'])} {cbool(obs['vb'])} {clist(steps, 'step')}")


# ------------------------------------------------------------------------------------------ oracle
def _int_ok(v):
    try:
        int(v)
        return True
    except (ValueError, TypeError, OverflowError):
        return False


def _hdr_shape(v):
    """'ok' | 'bad' | 'null' (a null where a name/value is expected) | 'unclear' (shapes Python happens to star-unpack)"""
    if not isinstance(v, list):
        if isinstance(v, (str, dict)):
            return "unclear" if (len(v) == 0 or isinstance(v, dict)) else "bad"
        return "bad"
    res = "ok"
    for h in v:
        if isinstance(h, list):
            if len(h) != 2:
                return "bad"
            if any(c is None for c in h):
                res = "null" if res != "bad" else res
            elif not all(isinstance(c, str) for c in h):
                return "bad"
        elif isinstance(h, (str, dict)):
            if len(h) != 2:
                return "bad"
            res = "unclear" if res == "ok" else res
        else:
            return "bad"
    return res


def _invalid_parts(put):
    """parts of the submitted edit that the property statement calls invalid, independent of the implementation"""
    if put[0] != "json":
        return ["body"]
    doc = put[1]
    if not isinstance(doc, dict):
        return ["body-not-an-object"]
    out = []
    for a, b in doc.items():
        if a in ("request", "response"):
            if not isinstance(b, dict):
                out.append(f"{a}-not-an-object")
                continue
            known = REQ_KEYS if a == "request" else RESP_KEYS
            for k, v in b.items():
                if k not in known:
                    out.append(f"unknown:{a}.{k}")
                elif k in ("port", "code") and not _int_ok(v):
                    out.append(f"malformed-int:{a}.{k}")
                elif k in ("headers", "trailers") and _hdr_shape(v) == "bad":
                    out.append(f"malformed-headers:{a}.{k}")
        elif a not in ("marked", "comment"):
            out.append(f"unknown:{a}")
    return out


def oracle(case, obs):
    v = []
    for i, (put, st) in enumerate(zip(case["puts"], obs["steps"])):
        label = f"PUT #{i} {json.dumps(put[1])[:160]}"
        if st["none_in_headers"]:
            v.append({"key": "null-header-component-accepted",
                      "what": f"{label}: a null header name/value was stored in the flow (status {st['status']})"})
            continue
        if st["status"] != 200:
            if not st["same_full"]:
                if st["exc"] == "EApi" and st["had_backup"]:
                    key = "failed-edit-reverts-earlier-edits"
                elif st["exc"] != "EApi" and st["exc_in_put_body"]:
                    key = "non-apierror-not-reverted"
                else:
                    key = "rejected-edit-changed-flow"
                v.append({"key": key, "what": f"{label}: rejected with {st['status']} ({st['exc']}) but the flow changed: {st['diff']}"})
        else:
            inv = _invalid_parts(put)
            if inv:
                v.append({"key": "invalid-edit-accepted", "what": f"{label}: accepted (200) although {inv[:3]} is invalid"})
            elif st.get("not_applied"):
                v.append({"key": "accepted-edit-incomplete", "what": f"{label}: accepted (200) but {st['not_applied'][:4]} not applied"})
            if st["before"]["backup"] is not None and st["after"]["backup"] != st["before"]["backup"]:
                v.append({"key": "accepted-edit-lost-original", "what": f"{label}: the saved original (backup) changed"})
            if st["before"]["backup"] is None and st["after"]["backup"] != st["before"]["cur"]:
                v.append({"key": "accepted-edit-lost-original", "what": f"{label}: the state before the edit was not saved as backup"})
    return v


def nontrivial(case, obs):
    for put, st in zip(case["puts"], obs["steps"]):
        if st["status"] != 200:
            return True
        if put[0] == "json" and isinstance(put[1], dict) and any(
                (isinstance(b, dict) and b) or a in ("marked", "comment") for a, b in put[1].items()):
            return True
    return False


def classify(case, obs):
    tags = [f"puts={len(case['puts'])}", f"variant vx={int(obs['vx'])} vb={int(obs['vb'])}"]
    for put, st in zip(case["puts"], obs["steps"]):
        tags.append("accepted" if st["status"] == 200 else f"rejected-{st['status']}-{st['exc']}")
        if st["status"] != 200:
            tags.append("restored" if st["same_full"] else "not-restored")
            if st["had_backup"]:
                tags.append("rejected-with-earlier-backup")
        try:
            inm = _in_model(put, st["before"])
            if inm and put[0] == "json":
                cjv(put[1]); cflow(st["before"], _Share()); cflow(st["after"], _Share())
        except _Unmodelled:
            inm = False
        tags.append("in-model" if inm else "oracle-only")
        b, a = st["before"]["cur"]["request"], st["after"]["cur"]["request"]
        doc = put[1] if put[0] == "json" and isinstance(put[1], dict) else {}
        sub = lambda part: doc.get(part) if isinstance(doc.get(part), dict) else {}
        if b["authority"] != a["authority"]:
            tags.append("authority-rewritten")
        hosth = lambda r: [v for n, v in r["headers"] if n is not None and bytes.fromhex(n).lower() == b"host"]
        if st["status"] == 200 and hosth(b) and hosth(b) != hosth(a) and "headers" not in sub("request"):
            tags.append("host-header-rewritten")
        for part in ("request", "response"):
            mb, ma = st["before"]["cur"][part], st["after"]["cur"][part]
            if mb and ma:
                if mb["trailers"] is None and ma["trailers"] is not None:
                    tags.append("trailers-created")
                ct = lambda m: any(n is not None and bytes.fromhex(n).lower() == b"content-type" for n, _ in m["headers"])
                if not ct(mb) and ct(ma) and "content" in sub(part) and "headers" not in sub(part):
                    tags.append("text-utf8-fallback")
        for p in _invalid_parts(put)[:2]:
            tags.append("invalid:" + p.split(":")[0])
    if not case["rec"].get("resp", True):
        tags.append("no-response")
    return tags
