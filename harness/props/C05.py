"""C05 -- HTTP/2 streams are isolated and correctly mapped
(Http2Client stream-id mapping + stream_queue, Http2Connection.streams, BufferedH2Connection; proxy/layers/http/_http2.py, _http_h2.py)."""
from lib.coqterm import cbool, cbytes, clist, cN, cZ

ID = "C05"
QUICK_N = 1500
THOROUGH_N = 12000
SHARD = 125
COQ_PRELUDE = "From MV Require Import Model.Http2Streams.\n"
RULE = ("70% end-to-end schedules: a real HttpLayer (regular mode, HTTP/2 client, HTTP/2 upstream) between two real in-memory "
        "hyper-h2 peers; <=6 concurrent requests with marked headers/bodies/trailers, peer ops (headers, data, trailers, reset, "
        "window updates per stream and connection, SETTINGS lowering/raising MAX_CONCURRENT_STREAMS in {0,1,2,3,10} and "
        "INITIAL_WINDOW_SIZE, informational responses, GOAWAY, close) interleaved arbitrarily, frames coalesced and re-segmented at "
        "generated cut points, hooks and the upstream connect deferred and completed out of order, streamed and buffered bodies; "
        "30% direct schedules: a real Http2Client fed arbitrary (also ill-formed) HttpEvent sequences over <=5 client stream ids "
        "against a real h2 server peer with tiny windows. Every call into the two connection objects is recorded with its "
        "outputs and dict snapshots. Non-trivial = >=2 streams opened upstream or a stream queued or data buffered by flow "
        "control; distinct by canonical JSON.")
TRUSTED = ["Coq 8.16.1 kernel; vm_compute for case evaluation",
           "hyper-h2 4.4.1 is represented by the mini-h2 of Model/Http2Streams.v (stream states, open_outbound_streams, "
           "get_next_available_stream_id, flow-control windows, SETTINGS effects, error checks of send_headers/send_data/reset_stream); "
           "it is tied to the library only by the correspondence runs; HPACK/framing are outside the model (frames are parsed by "
           "hyperframe/hpack in the harness)",
           "HttpStream (the relay between the two connections) is not modelled: the events it delivers are recorded from the real "
           "run; the contract wf_first (first event of a stream is RequestHeaders) is checked on every recorded end-to-end history",
           "whole-history per-stream byte order is proved per BufferedH2Connection operation only (C05_send_data_conserve, "
           "C05_flush_conserve); its composition over histories is covered by the correspondence runs and the end-to-end oracle",
           "logging subclasses of Http2Server/Http2Client that only record and delegate; lib/sansio.py driver"]
ASSUMPTIONS = ["runs in which h2_conn.receive_data raised (caught by the layer as HTTP/2 protocol error) or a connection object was "
               "re-entered while its generator was suspended are checked by the oracle but skipped for the correspondence (tag skipped-*)",
               "peers are protocol-conforming h2 endpoints that see the proxy output before their next action (no frames for "
               "streams the proxy already closed); padding, PRIORITY, CONTINUATION, push are not generated",
               "inbound flow control of the proxy (WINDOW_UPDATE frames it emits) is not compared",
               "header content is an opaque token (x-id / x-tr); header translation is property C06"]
ALLOWED_AXIOMS = []
CASE_TYPE = "case"

_S = {}


# =========================================================================================== generator
def _payload(rng, idx, off, n):
    """bytes that encode (stream index, running offset): cross-stream mix-ups and reorderings change them"""
    return bytes(((idx & 15) << 4) | ((off + k) & 15) for k in range(n))


_SIZES = [0, 1, 1, 2, 3, 5, 8, 13, 21, 40, 64]


def _gen_e2e(rng, tier):
    nreq = rng.weighted([(1, 1), (3, 2), (4, 3), (3, 4), (2, 5), (1, 6)])
    cfg = {
        "s_maxconc": rng.choice([None, None, 1, 1, 2, 2, 3, 10]),
        "s_initwin": rng.choice([None, None, None, 0, 1, 7, 20, 50]),
        "c_initwin": rng.choice([None, None, None, 0, 1, 7, 20, 50]),
        "defer_connect": rng.chance(0.25),
        "stream_req": [rng.chance(0.4) for _ in range(nreq)],
        "stream_resp": [rng.chance(0.4) for _ in range(nreq)],
        "defer": [],
    }
    for i in range(nreq):
        for h in ("requestheaders", "request", "responseheaders", "response"):
            if rng.chance(0.12):
                cfg["defer"].append([h, i])
    ops = []
    coff = [0] * nreq
    soff = [0] * 16
    nresp = 0
    steps = rng.randint(6, 14) + 5 * nreq
    opened = 0

    def fl(o):
        if rng.chance(0.75):
            cuts = [rng.random() for _ in range(rng.choice([0, 0, 0, 1, 1, 2, 3]))]
            ops.append(["fl", o, [round(c, 3) for c in cuts]])

    for _ in range(steps):
        r = rng.random()
        if opened < nreq and (r < 0.22 or opened == 0):
            ops.append(["creq", opened, rng.chance(0.35)]); opened += 1; fl(0)
        elif r < 0.36:
            k = rng.below(max(opened, 1)); n = rng.choice(_SIZES)
            ops.append(["cdata", k, _payload(rng, k, coff[k], n).hex(), rng.chance(0.4)]); coff[k] += n; fl(0)
        elif r < 0.40:
            ops.append(["ctrl", rng.below(max(opened, 1)), 500 + rng.below(50)]); fl(0)
        elif r < 0.44:
            ops.append(["crst", rng.below(max(opened, 1)), rng.choice([8, 8, 2, 13, 0])]); fl(0)
        elif r < 0.50:
            ops.append(["cwin", rng.choice([-1, -1] + list(range(nreq))), rng.choice([1, 2, 5, 10, 30, 100, 1000])]); fl(0)
        elif r < 0.52:
            ops.append(["cset", rng.choice([0, 1, 5, 20, 100, 65535])]); fl(0)
        elif r < 0.62:
            nresp += 1
            ops.append(["sresp", rng.below(8), 1000 + nresp, rng.chance(0.3)]); fl(1)
        elif r < 0.64:
            ops.append(["sinfo", rng.below(8)]); fl(1)
        elif r < 0.76:
            k = rng.below(8); n = rng.choice(_SIZES)
            ops.append(["sdata", k, _payload(rng, 8 + k, soff[k], n).hex(), rng.chance(0.4)]); soff[k] += n; fl(1)
        elif r < 0.79:
            ops.append(["strl", rng.below(8), 700 + rng.below(50)]); fl(1)
        elif r < 0.82:
            ops.append(["srst", rng.below(8), rng.choice([8, 2, 13, 7, 0])]); fl(1)
        elif r < 0.88:
            ops.append(["swin", rng.choice([-1, -1] + list(range(6))), rng.choice([1, 2, 5, 10, 30, 100, 1000])]); fl(1)
        elif r < 0.915:
            s = {}
            if rng.chance(0.7):
                s["maxconc"] = rng.choice([0, 1, 1, 2, 3, 10])
            if rng.chance(0.4) or not s:
                s["initwin"] = rng.choice([0, 1, 5, 20, 100, 65535])
            ops.append(["sset", s]); fl(1)
        elif r < 0.925:
            ops.append(["sgoaway"]); fl(1)
        elif r < 0.935:
            ops.append(["sclose"])
        elif r < 0.94:
            ops.append(["cclose"])
        elif r < 0.97:
            ops.append(["hook", rng.below(4)])
        else:
            ops.append(["connect"])
    if rng.chance(0.85):
        ops.append(["drain"])
    return {"k": "e2e", "cfg": cfg, "ops": ops}


_ERRCODES = ["GENERIC_CLIENT_ERROR", "CANCEL", "CLIENT_DISCONNECTED", "KILL", "HTTP_1_1_REQUIRED", "PASSTHROUGH_CLOSE",
             "REQUEST_TOO_LARGE", "GENERIC_SERVER_ERROR"]


def _gen_direct(rng, tier):
    wf = rng.chance(0.7)
    cfg = {"s_maxconc": rng.choice([None, 1, 1, 2, 2, 3, 10]), "s_initwin": rng.choice([None, 0, 1, 4, 9, 30]),
           "early_settings": rng.chance(0.6)}
    sids = [1, 3, 5, 7, 9][: rng.randint(1, 5)]
    off = {s: 0 for s in sids}
    soff = [0] * 16
    ops = []
    nresp = 0

    def fl():
        if rng.chance(0.8):
            ops.append(["fl", 1, [round(rng.random(), 3) for _ in range(rng.choice([0, 0, 1, 2]))]])

    phase = {}     # wf: per stream 0 = not started, 1 = body, 2 = trailers sent, 3 = finished
    for _ in range(rng.randint(5, 12) + 4 * len(sids)):
        r = rng.random()
        if r < 0.55:
            s = rng.choice(sids)
            if wf:
                ph = phase.get(s, 0)
                if ph == 0:
                    end = rng.chance(0.3)
                    ops.append(["ev", "hdr", s, s, end])
                    if end:
                        ops.append(["ev", "eom", s])
                    phase[s] = 3 if end else 1
                    continue
                if ph == 3:
                    if rng.chance(0.3):
                        ops.append(["ev", "err", s, rng.choice(_ERRCODES)])
                    continue
                kind = rng.weighted([(5, "data"), (1.2, "trl"), (2.5, "eom"), (1.0, "err")]) if ph == 1 else rng.weighted([(5, "eom"), (1, "err")])
                phase[s] = {"data": 1, "trl": 2, "eom": 3, "err": 3}[kind]
            else:
                kind = rng.weighted([(2, "hdr"), (5, "data"), (1.2, "trl"), (2.5, "eom"), (1.3, "err")])
            if kind == "hdr":
                ops.append(["ev", "hdr", s, s, rng.chance(0.3)])
            elif kind == "data":
                n = rng.choice(_SIZES)
                ops.append(["ev", "data", s, _payload(rng, s, off[s], n).hex()]); off[s] += n
            elif kind == "trl":
                ops.append(["ev", "trl", s, 500 + s])
            elif kind == "eom":
                ops.append(["ev", "eom", s])
            else:
                ops.append(["ev", "err", s, rng.choice(_ERRCODES)])
        elif r < 0.63:
            nresp += 1
            ops.append(["sresp", rng.below(6), 1000 + nresp, rng.chance(0.35)]); fl()
        elif r < 0.70:
            k = rng.below(6); n = rng.choice(_SIZES)
            ops.append(["sdata", k, _payload(rng, 8 + k, soff[k], n).hex(), rng.chance(0.4)]); soff[k] += n; fl()
        elif r < 0.73:
            ops.append(["strl", rng.below(6), 700 + rng.below(50)]); fl()
        elif r < 0.78:
            ops.append(["srst", rng.below(6), rng.choice([8, 2, 13, 0])]); fl()
        elif r < 0.90:
            ops.append(["swin", rng.choice([-1, -1, 0, 1, 2, 3, 4]), rng.choice([1, 2, 3, 5, 10, 30, 100])]); fl()
        elif r < 0.96:
            s = {}
            if rng.chance(0.6):
                s["maxconc"] = rng.choice([0, 1, 1, 2, 3, 10])
            if rng.chance(0.5) or not s:
                s["initwin"] = rng.choice([0, 1, 3, 8, 20, 65535])
            ops.append(["sset", s]); fl()
        elif r < 0.975:
            ops.append(["sinfo", rng.below(6)]); fl()
        elif r < 0.985:
            ops.append(["sgoaway"]); fl()
        else:
            ops.append(["sclose"])
    ops.append(["fl", 1, []])
    return {"k": "direct", "wf": wf, "cfg": cfg, "ops": ops}


def gen(rng, n, tier):
    out = []
    for _ in range(n):
        out.append(_gen_e2e(rng, tier) if rng.chance(0.7) else _gen_direct(rng, tier))
    return out


# =========================================================================================== implementation
def setup_impl():
    import h2.config, h2.connection, h2.events, h2.exceptions, h2.settings, h2.errors, h2.stream
    import hpack
    import hyperframe.frame as hf
    from mitmproxy import http as mhttp
    from mitmproxy.connection import ConnectionState, Server
    from mitmproxy.proxy import commands, events
    from mitmproxy.proxy.layers import http as httpmod
    from mitmproxy.proxy.layers.http import _base, _events, _http2
    from lib import sansio

    class _LogMixin:
        def __init__(self, *a, **kw):
            super().__init__(*a, **kw)
            self._c05 = _S["cur"].register(self)

        def handle_event(self, event):
            run, log = _S["cur"], self._c05
            step = {"in": run.abs_in(log, event), "out": [], "nested": log["depth"] > 0}
            log["steps"].append(step)
            log["depth"] += 1
            try:
                for cmd in super().handle_event(event):
                    step["out"].extend(run.abs_out(log, cmd))
                    yield cmd
            except BaseException:
                step["exc"] = True
                if run.crash_origin is None:
                    run.crash_origin = log
                raise
            finally:
                log["depth"] -= 1
                step["snap"] = run.snapshot(self)

    class LogServer(_LogMixin, _http2.Http2Server):
        pass

    class LogClient(_LogMixin, _http2.Http2Client):
        pass

    httpmod.Http2Server = LogServer
    httpmod.Http2Client = LogClient
    import inspect
    from mitmproxy.proxy.layers.http import _http_h2
    # which BufferedH2Connection.send_data is under test: the shipped one tests `if available_window:`, the repaired one `> 0`
    _S["fixed"] = "if available_window > 0:" in inspect.getsource(_http_h2.BufferedH2Connection.send_data)
    _S["fixq"] = "self._handle_event == self.done" in inspect.getsource(_http2.Http2Client._handle_event)
    _S.update(h2=h2, hpack=hpack, hf=hf, mhttp=mhttp, CS=ConnectionState, Server=Server, commands=commands, events=events,
              httpmod=httpmod, base=_base, ev=_events, http2=_http2, sansio=sansio, LogServer=LogServer, LogClient=LogClient)


class _Deframer:
    """hyperframe + hpack view of one direction of one connection: byte segments -> abstract frames"""

    def __init__(self, skip_preface):
        self.buf = b""
        self.skip = 24 if skip_preface else 0
        self.dec = _S["hpack"].Decoder()
        self.bad = False

    def feed(self, data):
        hf = _S["hf"]
        self.buf += bytes(data)
        if self.skip:
            n = min(self.skip, len(self.buf))
            self.buf = self.buf[n:]
            self.skip -= n
        out = []
        while len(self.buf) >= 9 and not self.bad:
            try:
                f, length = hf.Frame.parse_frame_header(memoryview(self.buf[:9]))
                if len(self.buf) < 9 + length:
                    break
                f.parse_body(memoryview(self.buf[9:9 + length]))
            except Exception:
                self.bad = True
                break
            self.buf = self.buf[9 + length:]
            out.append(self.abstract(f))
        return out

    def abstract(self, f):
        hf = _S["hf"]
        if isinstance(f, hf.HeadersFrame):
            if "END_HEADERS" not in f.flags or "PADDED" in f.flags:
                self.bad = True
            hdrs = dict((bytes(k), bytes(v)) for k, v in self.dec.decode(f.data, raw=True))
            end = "END_STREAM" in f.flags
            xid = int(hdrs[b"x-id"]) if b"x-id" in hdrs else None
            if b":method" in hdrs:
                return ["H", f.stream_id, "req", xid if xid is not None else 0, end]
            if b":status" in hdrs:
                st = int(hdrs[b":status"])
                if st < 200:
                    return ["H", f.stream_id, "info", st, end]
                if xid is None:
                    return ["H", f.stream_id, "errresp", st, end]
                return ["H", f.stream_id, "resp", xid, end]
            return ["H", f.stream_id, "trl", int(hdrs.get(b"x-tr", b"0")), end]
        if isinstance(f, hf.DataFrame):
            if "PADDED" in f.flags:
                self.bad = True
            return ["D", f.stream_id, bytes(f.data).hex(), "END_STREAM" in f.flags]
        if isinstance(f, hf.RstStreamFrame):
            return ["R", f.stream_id, int(f.error_code)]
        if isinstance(f, hf.WindowUpdateFrame):
            return ["W", f.stream_id, int(f.window_increment)]
        if isinstance(f, hf.SettingsFrame):
            if "ACK" in f.flags:
                return ["SA"]
            return ["S", [[int(k), int(v)] for k, v in f.settings.items()]]
        if isinstance(f, hf.PingFrame):
            return ["P", "ACK" in f.flags]
        if isinstance(f, hf.GoAwayFrame):
            return ["G", int(f.error_code)]
        self.bad = True
        return ["X"]


class _Run:
    def __init__(self, case):
        self.case = case
        self.logs = []
        self.crash_origin = None
        self.negwin_empty_frames = []
        self.executed = []
        self.bad = False          # something outside the modelled alphabet happened -> no Coq case
        self.peer_errors = []
        self.outbox = {}
        self.peers = {}           # conn ordinal -> h2 peer
        self.pev = {}             # conn ordinal -> list of peer events (abstract)
        self.seen = 0
        self.creqs = []           # client requests: dict(marker,sid,body,ended,trl,rst)
        self.sreqs = []           # requests seen by server peers: dict(ord,j,marker,...)
        self.resp_tok = {}        # response token -> index into sreqs

    # ---- registration of the real connection objects
    def register(self, obj):
        S = _S
        role = "client" if isinstance(obj, S["http2"].Http2Client) else "server"
        log = {"role": role, "obj": obj, "steps": [], "depth": 0, "din": _Deframer(role == "server"), "dout": _Deframer(role == "client"),
               "arrivals": []}
        self.logs.append(log)
        return log

    def _tok(self, headers, name=b"x-id"):
        try:
            return int(headers[name])
        except Exception:
            return 0

    def abs_in(self, log, e):
        S = _S
        ev, E = S["events"], S["ev"]
        if isinstance(e, ev.Start):
            return ["start"]
        if isinstance(e, ev.DataReceived):
            fr = log["din"].feed(e.data)
            if log["din"].bad:
                self.bad = True
            return ["frames", fr]
        if isinstance(e, ev.ConnectionClosed):
            return ["closed"]
        if isinstance(e, (E.RequestHeaders, E.ResponseHeaders)):
            msg = e.request if isinstance(e, E.RequestHeaders) else e.response
            r = ["hdr", e.stream_id, self._tok(msg.headers), bool(e.end_stream)]
        elif isinstance(e, (E.RequestData, E.ResponseData)):
            r = ["data", e.stream_id, bytes(e.data).hex()]
        elif isinstance(e, (E.RequestTrailers, E.ResponseTrailers)):
            r = ["trl", e.stream_id, self._tok(e.trailers, b"x-tr")]
        elif isinstance(e, (E.RequestEndOfMessage, E.ResponseEndOfMessage)):
            r = ["eom", e.stream_id]
        elif isinstance(e, (E.RequestProtocolError, E.ResponseProtocolError)):
            st = e.code.http_status_code()
            body = S["base"].format_error(st, e.message) if st is not None else b""
            r = ["err", e.stream_id, e.code.value, body.hex(), isinstance(e, E.ResponseProtocolError)]
        else:
            self.bad = True
            return ["other", type(e).__name__]
        if log["role"] == "client" and e.stream_id not in log["arrivals"] and not self._dead(log["obj"]):
            log["arrivals"].append(e.stream_id)
        return ["http"] + r

    def _dead(self, obj):
        return getattr(obj._handle_event, "__func__", None) is _S["http2"].Http2Connection.done

    def abs_out(self, log, c):
        S = _S
        cm, E, B = S["commands"], S["ev"], S["base"]
        if isinstance(c, cm.SendData):
            fr = log["dout"].feed(c.data)
            if log["dout"].bad or log["dout"].buf:
                self.bad = True
            return [["F"] + f for f in fr if f[0] in ("H", "D", "R", "G")]
        if isinstance(c, B.ReceiveHttp):
            e = c.event
            if isinstance(e, (E.RequestHeaders, E.ResponseHeaders)):
                msg = e.request if isinstance(e, E.RequestHeaders) else e.response
                return [["R", "hdr", e.stream_id, self._tok(msg.headers), bool(e.end_stream)]]
            if isinstance(e, (E.RequestData, E.ResponseData)):
                return [["R", "data", e.stream_id, bytes(e.data).hex()]]
            if isinstance(e, (E.RequestTrailers, E.ResponseTrailers)):
                return [["R", "trl", e.stream_id, self._tok(e.trailers, b"x-tr")]]
            if isinstance(e, (E.RequestEndOfMessage, E.ResponseEndOfMessage)):
                return [["R", "eom", e.stream_id]]
            if isinstance(e, (E.RequestProtocolError, E.ResponseProtocolError)):
                return [["R", "err", e.stream_id, e.code.value]]
            self.bad = True
            return []
        if isinstance(c, cm.CloseConnection):
            return [["C"]]
        if isinstance(c, cm.Log):
            if "HTTP/2 protocol error" in str(c.message):
                self.bad = True    # receive_data raised (h2 rejected a frame, or a flush failed inside it): outside the model
            return []
        if isinstance(c, cm.RequestWakeup):
            return []
        self.bad = True
        return []

    def snapshot(self, obj):
        S = _S
        h = obj.h2_conn
        snap = {
            "streams": [[k, v.value] for k, v in obj.streams.items()],
            "bufs": [[k, [[len(c.data), bool(c.end_stream)] for c in dq]] for k, dq in h.stream_buffers.items()],
            "trl": list(h.stream_trailers.keys()),
            "dead": self._dead(obj),
        }
        if isinstance(obj, S["http2"].Http2Client):
            snap["our"] = [[k, v] for k, v in obj.our_stream_id.items()]
            snap["their"] = [[k, v] for k, v in obj.their_stream_id.items()]
            snap["queue"] = [[k, len(v)] for k, v in obj.stream_queue.items()]
            snap["prov"] = obj.provisional_max_concurrency is not None
        return snap

    # ---- peers
    def _mkpeer(self, o, client_side, initwin, maxconc):
        h2 = _S["h2"]
        p = h2.connection.H2Connection(h2.config.H2Configuration(client_side=client_side, header_encoding=False,
                                                                 validate_inbound_headers=False))
        p.initiate_connection()
        st = {}
        if initwin is not None:
            st[h2.settings.SettingCodes.INITIAL_WINDOW_SIZE] = initwin
        if maxconc is not None:
            st[h2.settings.SettingCodes.MAX_CONCURRENT_STREAMS] = maxconc
        if st:
            p.update_settings(st)
        self.peers[o] = p
        self.pev[o] = []
        self.outbox[o] = p.data_to_send()
        return p

    def _pump(self):
        """deliver what the proxy wrote to the peers, immediately"""
        d, h2 = self.d, _S["h2"]
        tr = d.trace
        while self.seen < len(tr):
            t = tr[self.seen]
            self.seen += 1
            if t[0] == "open" and self.case["k"] == "e2e":
                self._mkpeer(t[1], False, self.case["cfg"]["s_initwin"], self.case["cfg"]["s_maxconc"])
            elif t[0] == "send" and t[1] in self.peers:
                p = self.peers[t[1]]
                if p.state_machine.state == h2.connection.ConnectionState.CLOSED:
                    continue      # the peer has said GOAWAY; what crosses it on the wire is not its problem
                evs = self._feed_peer(t[1], p, bytes.fromhex(t[2]))
                self.outbox[t[1]] += p.data_to_send()
                for e in evs:
                    self._peer_event(t[1], e)

    def _feed_peer(self, o, p, data):
        """frame by frame.  hyper-h2 as a receiver treats ANY DATA frame on a stream whose window is negative as a flow-control
        error, also the empty ones RFC 9113 6.9.1 allows; such a frame is noted (the shipped send_data emits it) and let through."""
        evs = []
        pos = 0
        if data.startswith(b"PRI * HTTP/2.0"):
            pos = 24
        chunks = [data[:pos]] if pos else []
        while pos + 9 <= len(data):
            ln = int.from_bytes(data[pos:pos + 3], "big")
            chunks.append(data[pos:pos + 9 + ln])
            pos += 9 + ln
        if pos < len(data):
            chunks.append(data[pos:])
        for c in chunks:
            wm = saved = None
            if len(c) >= 9 and c[3] == 0 and c[:3] == b"\0\0\0":
                st = p.streams.get(int.from_bytes(c[5:9], "big") & 0x7FFFFFFF)
                if st is not None and st._inbound_window_manager.current_window_size < 0:
                    wm = st._inbound_window_manager
                    saved, wm.current_window_size = wm.current_window_size, 0
                    self.negwin_empty_frames.append([o, bool(c[4] & 1)])
            try:
                evs += p.receive_data(c)
            except Exception as exc:
                self.peer_errors.append([o, type(exc).__name__, str(exc)[:120]])
            if wm is not None:
                wm.current_window_size = saved
        return evs

    def _peer_event(self, o, e):
        ev = _S["h2"].events
        if o == 0:
            cs = {c["sid"]: c for c in self.creqs}
            c = cs.get(getattr(e, "stream_id", None))
            if c is None:
                return
            if isinstance(e, ev.ResponseReceived):
                h = dict(e.headers)
                c["resp"].append([int(h.get(b":status", b"0")), self._tok(h) if b"x-id" in h else None])
            elif isinstance(e, ev.DataReceived):
                c["rbody"] += bytes(e.data)
            elif isinstance(e, ev.TrailersReceived):
                c["rtrl"] = self._tok(dict(e.headers), b"x-tr")
            elif isinstance(e, ev.StreamEnded):
                c["rended"] = True
            elif isinstance(e, ev.StreamReset):
                c["rrst"] = int(e.error_code)
        else:
            if isinstance(e, ev.RequestReceived):
                h = dict(e.headers)
                self.sreqs.append({"ord": o, "j": e.stream_id, "marker": self._tok(h), "body": b"", "ended": False, "trl": None,
                                   "rst": None, "resp": None, "sbody": b"", "sended": False, "strl": None, "srst": None})
                return
            s = next((s for s in self.sreqs if s["ord"] == o and s["j"] == getattr(e, "stream_id", None)), None)
            if s is None:
                return
            if isinstance(e, ev.DataReceived):
                s["body"] += bytes(e.data)
            elif isinstance(e, ev.TrailersReceived):
                s["trl"] = self._tok(dict(e.headers), b"x-tr")
            elif isinstance(e, ev.StreamEnded):
                s["ended"] = True
            elif isinstance(e, ev.StreamReset):
                s["rst"] = int(e.error_code)

    def _flush(self, o, cuts=()):
        data = self.outbox.get(o, b"")
        if not data or o >= len(self.d.conns) or not (self.d.conns[o].state & _S["CS"].CAN_READ):
            return
        self.outbox[o] = b""
        pos = sorted({int(c * len(data)) for c in cuts} - {0, len(data)})
        segs = [data[a:b] for a, b in zip([0] + pos, pos + [len(data)])]
        for s in segs:
            if self.d.crashed:
                break
            if o != 0 and not (self.d.conns[o].state & _S["CS"].CAN_READ):
                break
            self.d.data(o, s)
            self._pump()

    def _can_send(self, o, sid, n=0):
        """only attempt what a conforming endpoint may do (a failed h2 call would corrupt the peer state machine)"""
        p = self.peers.get(o)
        if p is None:
            return False
        SS = _S["h2"].stream.StreamState
        st = p.streams.get(sid)
        if st is None or st.state_machine.state not in (SS.OPEN, SS.HALF_CLOSED_REMOTE):
            return False
        if p.state_machine.state == _S["h2"].connection.ConnectionState.CLOSED:
            return False
        return n == 0 or p.local_flow_control_window(sid) >= n

    def _no_race(self, side):
        """frames of one peer may be coalesced, but nothing stays in flight while the other side acts: a conforming peer
        that has seen everything the proxy wrote never sends on a stream the proxy has closed"""
        if side == -1:
            return
        for o in sorted(self.outbox):
            if (o == 0) != (side == 0) or side is None:
                self._flush(o)

    def _peer_op(self, o, fn):
        p = self.peers.get(o)
        if p is None or p.state_machine.state == _S["h2"].connection.ConnectionState.CLOSED:
            return False
        try:
            fn(p)
        except Exception:
            return False   # the conforming peer refuses to do this now
        self.outbox[o] += p.data_to_send()
        return True

    # ---- common server-peer ops
    def _server_op(self, op):
        h2 = _S["h2"]
        k = op[0]
        if k in ("sresp", "sinfo", "sdata", "strl", "srst"):
            if not self.sreqs:
                return
            s = self.sreqs[op[1] % len(self.sreqs)]
            o, j = s["ord"], s["j"]
            if k != "srst" and not self._can_send(o, j, len(op[2]) // 2 if k == "sdata" else 0):
                return
            if k in ("sresp", "sinfo") and s["resp"] is not None or k in ("sdata", "strl") and s["resp"] is None:
                return
            if k == "sresp":
                if self._peer_op(o, lambda p: p.send_headers(j, [(b":status", b"200"), (b"x-id", b"%d" % op[2])], end_stream=op[3])):
                    s["resp"] = op[2]; s["sended"] = s["sended"] or op[3]
            elif k == "sinfo":
                self._peer_op(o, lambda p: p.send_headers(j, [(b":status", b"103")]))
            elif k == "sdata":
                data = bytes.fromhex(op[2])
                if self._peer_op(o, lambda p: p.send_data(j, data, end_stream=op[3])):
                    s["sbody"] += data; s["sended"] = s["sended"] or op[3]
            elif k == "strl":
                if self._peer_op(o, lambda p: p.send_headers(j, [(b"x-tr", b"%d" % op[2])], end_stream=True)):
                    s["strl"] = op[2]; s["sended"] = True
            elif k == "srst":
                if self._peer_op(o, lambda p: p.reset_stream(j, op[2])):
                    s["srst"] = op[2]
                    self._flush(o)     # a conforming peer may treat frames on a stream it reset as errors: no race here
        elif k == "swin":
            o = max(self.peers) if self.peers else None
            if o in (None, 0):
                return
            if op[1] < 0:
                self._peer_op(o, lambda p: p.increment_flow_control_window(op[2]))
            else:
                js = [s["j"] for s in self.sreqs if s["ord"] == o]
                if js:
                    self._peer_op(o, lambda p: p.increment_flow_control_window(op[2], js[op[1] % len(js)]))
        elif k == "sset":
            o = max(self.peers) if self.peers else None
            if o in (None, 0):
                return
            sc = h2.settings.SettingCodes
            st = {}
            if "maxconc" in op[1]:
                st[sc.MAX_CONCURRENT_STREAMS] = op[1]["maxconc"]
            if "initwin" in op[1]:
                st[sc.INITIAL_WINDOW_SIZE] = op[1]["initwin"]
            self._peer_op(o, lambda p: p.update_settings(st))
        elif k == "sgoaway":
            o = max(self.peers) if self.peers else None
            if o not in (None, 0):
                self.executed.append("sgoaway")
                self._flush(o)    # GOAWAY travels alone: exceptions inside BufferedH2Connection.receive_data are not modelled
                self._peer_op(o, lambda p: p.close_connection())
                self._flush(o)
        elif k == "sclose":
            o = max(self.peers) if self.peers else None
            if o not in (None, 0) and o < len(self.d.conns) and (self.d.conns[o].state & _S["CS"].CAN_READ):
                self._flush(o)
                self.executed.append("sclose")
                self.d.close(o)
                self._pump()

    # ---- end to end
    def run_e2e(self):
        S, case = _S, self.case
        cfg = case["cfg"]
        HTTPMode = S["httpmod"].HTTPMode
        DEFER = S["sansio"].DEFER
        defer = {(h, i) for h, i in cfg["defer"]}

        def policy(hook, drv):
            name = hook.name
            args = hook.args()
            flow = args[0] if args else None
            if not hasattr(flow, "request") or flow.request is None:
                return None
            i = self._tok(flow.request.headers)
            if name == "requestheaders" and cfg["stream_req"][i % len(cfg["stream_req"])]:
                flow.request.stream = True
            if name == "responseheaders" and flow.response is not None and cfg["stream_resp"][i % len(cfg["stream_resp"])]:
                flow.response.stream = True
            if hook.blocking and (name, i) in defer:
                return DEFER
            return None

        def connect(conn, drv):
            conn.alpn = b"h2"
            return DEFER if cfg["defer_connect"] else None

        def factory(ctx):
            ctx.client.alpn = b"h2"
            return S["httpmod"].HttpLayer(ctx, HTTPMode.regular)

        self.d = d = S["sansio"].Driver(factory, options_overrides={"http2_ping_keepalive": 0}, policy=policy, connect=connect)
        d.start()
        self._mkpeer(0, True, cfg["c_initwin"], None)
        self._pump()
        self._flush(0)
        cp = self.peers[0]
        for op in case["ops"]:
            if d.crashed:
                break
            k = op[0]
            self._no_race(0 if k[0] == "c" and k != "connect" else 1 if k[0] == "s" else None if k != "fl" else -1)
            if k == "creq":
                i = op[1]
                sid = None
                try:
                    sid = cp.get_next_available_stream_id()
                    cp.send_headers(sid, [(b":method", b"POST"), (b":scheme", b"http"), (b":path", b"/s%d" % i),
                                          (b":authority", b"example.com"), (b"x-id", b"%d" % i)], end_stream=op[2])
                except Exception:
                    continue
                self.outbox[0] += cp.data_to_send()
                self.creqs.append({"marker": i, "sid": sid, "body": b"", "ended": bool(op[2]), "trl": None, "rst": None,
                                   "resp": [], "rbody": b"", "rended": False, "rtrl": None, "rrst": None})
            elif k in ("cdata", "ctrl", "crst"):
                if not self.creqs:
                    continue
                c = self.creqs[op[1] % len(self.creqs)]
                if k != "crst" and not self._can_send(0, c["sid"], len(op[2]) // 2 if k == "cdata" else 0):
                    continue
                if k == "cdata":
                    data = bytes.fromhex(op[2])
                    if self._peer_op(0, lambda p: p.send_data(c["sid"], data, end_stream=op[3])):
                        c["body"] += data; c["ended"] = c["ended"] or op[3]
                elif k == "ctrl":
                    if self._peer_op(0, lambda p: p.send_headers(c["sid"], [(b"x-tr", b"%d" % op[2])], end_stream=True)):
                        c["trl"] = op[2]; c["ended"] = True
                else:
                    if self._peer_op(0, lambda p: p.reset_stream(c["sid"], op[2])):
                        c["rst"] = op[2]
                        self._flush(0)
            elif k == "cwin":
                if op[1] < 0:
                    self._peer_op(0, lambda p: p.increment_flow_control_window(op[2]))
                elif self.creqs:
                    c = self.creqs[op[1] % len(self.creqs)]
                    self._peer_op(0, lambda p: p.increment_flow_control_window(op[2], c["sid"]))
            elif k == "cset":
                self._peer_op(0, lambda p: p.update_settings({S["h2"].settings.SettingCodes.INITIAL_WINDOW_SIZE: op[1]}))
            elif k == "cclose":
                if d.conns[0].state & S["CS"].CAN_READ:
                    self._flush(0)
                    self.executed.append("cclose")
                    d.close(0)
                    self._pump()
            elif k == "fl":
                self._flush(op[1] if op[1] == 0 else (max(self.peers) if len(self.peers) > 1 else 1), op[2])
            elif k == "hook":
                hooks = [c for c in d.deferred if isinstance(c, S["commands"].StartHook)]
                if hooks:
                    d.complete(hooks[op[1] % len(hooks)])
                    self._pump()
            elif k == "connect":
                opens = [c for c in d.deferred if isinstance(c, S["commands"].OpenConnection)]
                if opens:
                    d.complete(opens[0])
                    self._pump()
            elif k == "drain":
                self._drain()
            else:
                self._server_op(op)
        self._finish()

    def _drain(self):
        S, d = _S, self.d
        for _ in range(4):
            for _ in range(50):
                if not d.deferred or d.crashed:
                    break
                d.complete(d.deferred[0])
                self._pump()
            for o in sorted(self.peers):
                self._flush(o)
            for o, p in sorted(self.peers.items()):
                self._peer_op(o, lambda p: p.increment_flow_control_window(1 << 20))
                for sid in list(p.streams):
                    self._peer_op(o, lambda p: p.increment_flow_control_window(1 << 20, sid))
                self._flush(o)

    def _finish(self):
        pass

    # ---- direct drive of an Http2Client
    def run_direct(self):
        S, case = _S, self.case
        cfg = case["cfg"]
        E = S["ev"]

        def factory(ctx):
            srv = S["Server"](address=("example.com", 80))
            srv.state = S["CS"].OPEN
            srv.alpn = b"h2"
            ctx.server = srv
            return S["LogClient"](ctx)

        self.d = d = S["sansio"].Driver(factory, options_overrides={"http2_ping_keepalive": 0})
        d.conn_ord(d.ctx.server)
        d.start()
        self._mkpeer(1, False, cfg["s_initwin"], cfg["s_maxconc"])
        self._pump()
        if cfg["early_settings"]:
            self._flush(1)
        codes = {c.name: c for c in E.ErrorCode}
        for op in case["ops"]:
            if d.crashed:
                break
            k = op[0]
            self._no_race(1 if k[0] == "s" else None if k != "fl" else -1)
            if k == "ev":
                kind, sid = op[1], op[2]
                if kind == "hdr":
                    req = S["mhttp"].Request(host="example.com", port=80, method=b"POST", scheme=b"http", authority=b"example.com",
                                             path=b"/s%d" % op[3], http_version=b"HTTP/2.0",
                                             headers=S["mhttp"].Headers([(b"x-id", b"%d" % op[3])]), content=None, trailers=None,
                                             timestamp_start=0.0, timestamp_end=None)
                    e = E.RequestHeaders(sid, req, end_stream=op[4])
                elif kind == "data":
                    e = E.RequestData(sid, bytes.fromhex(op[3]))
                elif kind == "trl":
                    e = E.RequestTrailers(sid, S["mhttp"].Headers([(b"x-tr", b"%d" % op[3])]))
                elif kind == "eom":
                    e = E.RequestEndOfMessage(sid)
                else:
                    e = E.RequestProtocolError(sid, "err", codes[op[3]])
                d.event(e)
                self._pump()
            elif k == "fl":
                self._flush(1, op[2])
            else:
                self._server_op(op)

    # ---- result
    def result(self):
        d = self.d
        hx = lambda b: b.hex()
        logs = []
        for l in self.logs:
            logs.append({"role": l["role"], "steps": l["steps"], "arrivals": l["arrivals"],
                         "nested": any(s["nested"] for s in l["steps"]), "crash_origin": l is self.crash_origin})
        flows = []
        for f in d.flows:
            if not hasattr(f, "request") or f.request is None:
                continue
            fl = {"marker": self._tok(f.request.headers), "req_streamed": bool(f.request.stream),
                  "req": hx(f.request.raw_content) if f.request.raw_content is not None else None,
                  "req_trl": self._tok(f.request.trailers, b"x-tr") if f.request.trailers else None,
                  "resp": None, "error": f.error.msg if f.error else None}
            if f.response is not None:
                fl["resp"] = {"status": f.response.status_code, "tok": self._tok(f.response.headers) if "x-id" in f.response.headers else None,
                              "streamed": bool(f.response.stream),
                              "body": hx(f.response.raw_content) if f.response.raw_content is not None else None,
                              "trl": self._tok(f.response.trailers, b"x-tr") if f.response.trailers else None}
            flows.append(fl)
        cre = [{**c, "body": hx(c["body"]), "rbody": hx(c["rbody"])} for c in self.creqs]
        sre = [{**s, "body": hx(s["body"]), "sbody": hx(s["sbody"])} for s in self.sreqs]
        return {"logs": logs, "bad": self.bad, "fixed": _S["fixed"], "fixq": _S["fixq"], "peer_errors": self.peer_errors, "crashed": d.crashed, "creqs": cre, "sreqs": sre,
                "flows": flows, "hooks_left": len(d.deferred), "negwin_empty_frames": self.negwin_empty_frames,
                "conn_closed_ops": self.executed,
                "alive": [bool(c.state & _S["CS"].CAN_READ) and bool(c.state & _S["CS"].CAN_WRITE) for c in d.conns]}


def run_impl(case):
    run = _Run(case)
    _S["cur"] = run
    if case["k"] == "e2e":
        run.run_e2e()
    else:
        run.run_direct()
    return run.result()


# =========================================================================================== Coq terms
_HK = {"req": "HReq", "resp": "HResp", "info": "HInfo", "trl": "HTrail", "errresp": "HErr"}


def _cb(hexs):
    return cbytes(bytes.fromhex(hexs))


def _c_frame(f):
    k = f[0]
    if k == "H":
        return f"(FHeaders {cN(f[1])} {_HK[f[2]]} {cN(f[3])} {cbool(f[4])})"
    if k == "D":
        return f"(FData {cN(f[1])} {_cb(f[2])} {cbool(f[3])})"
    if k == "R":
        return f"(FRst {cN(f[1])} {cN(f[2])})"
    if k == "W":
        return f"(FWin {cN(f[1])} {cZ(f[2])})"
    if k == "S":
        return "(FSettings %s)" % clist([f"({cN(a)}, {cN(b)})" for a, b in f[1]], "(N * N)")
    if k == "SA":
        return "FSettingsAck"
    if k == "P":
        return f"(FPing {cbool(f[1])})"
    if k == "G":
        return f"(FGoaway {cN(f[1])})"
    raise ValueError(f)


def _c_hev(r):
    k = r[0]
    if k == "hdr":
        return f"(EHeaders {cN(r[1])} {cN(r[2])} {cbool(r[3])})"
    if k == "data":
        return f"(EData {cN(r[1])} {_cb(r[2])})"
    if k == "trl":
        return f"(ETrailers {cN(r[1])} {cN(r[2])})"
    if k == "eom":
        return f"(EEom {cN(r[1])})"
    if k == "err":
        return f"(EErr {cN(r[1])} {cN(r[2])} {_cb(r[3])} {cbool(r[4])})"
    raise ValueError(r)


def _c_input(i):
    if i[0] == "start":
        return "IStart"
    if i[0] == "closed":
        return "IClosed"
    if i[0] == "frames":
        return "(IFrames %s)" % clist([_c_frame(f) for f in i[1]], "frame")
    if i[0] == "http":
        return f"(IHttp {_c_hev(i[1:])})"
    raise ValueError(i)


def _c_out(o, client):
    if o[0] == "F":
        return f"(OFrame {_c_frame(o[1:])})"
    if o[0] == "C":
        return "OClose"
    r = o[1:]
    if r[0] == "err":
        r = ["err", r[1], r[2], "", client]
    return f"(ORecv {_c_hev(r)})"


def _c_snap(sn):
    NN = lambda l: clist([f"({cN(a)}, {cN(b)})" for a, b in l], "(N * N)")
    ss = clist([f"({cN(k)}, {cbool(v == 2)})" for k, v in sn["streams"]], "(N * bool)")
    sb = clist(["(%s, %s)" % (cN(k), clist([f"({cN(n)}, {cbool(e)})" for n, e in l], "(N * bool)")) for k, l in sn["bufs"]],
               "(N * list (N * bool))")
    st = clist([cN(k) for k in sn["trl"]], "N")
    return (f"(Snap {ss} {sb} {st} {cbool(sn['dead'])} {NN(sn.get('our', []))} {NN(sn.get('their', []))} "
            f"{NN(sn.get('queue', []))} {cbool(sn.get('prov', True))})")


def coq_case(case, obs):
    if obs["bad"] or any(l["nested"] for l in obs["logs"]):
        return None
    logs = []
    for l in obs["logs"]:
        client = l["role"] == "client"
        steps = []
        for s in l["steps"]:
            if s.get("exc"):
                if l["crash_origin"]:
                    steps.append(f"(StepCrash {_c_input(s['in'])})")
                break
            steps.append("(Step %s %s %s)" % (_c_input(s["in"]), clist([_c_out(o, client) for o in s["out"]], "out"), _c_snap(s["snap"])))
        st = clist(steps, "step")
        if client:
            logs.append(f"(LogClient {cbool(obs['fixed'])} {cbool(obs['fixq'])} {cbool(case['k'] == 'e2e')} {st})")
        else:
            logs.append(f"(LogServer {cbool(obs['fixed'])} {st})")
    return "Case %s" % clist(logs, "connlog")


def _is_prefix(a, b):
    return b.startswith(a)


def oracle(case, obs):
    """the property evaluated on the real objects: markers in headers / bodies / trailers identify every stream end to end"""
    v = []

    def bad(key, what):
        if not any(x["key"] == key for x in v):
            v.append({"key": key, "what": what})

    wf = case["k"] == "e2e" or case.get("wf")
    if obs["crashed"]:
        name, msg = obs["crashed"]
        if name == "FlowControlError" and not obs["fixed"]:
            bad("negative-window-crash", f"BufferedH2Connection.send_data raised out of the layer: {msg[:80]}")
        elif wf:
            bad("crash-" + name, f"exception escaped the connection object: {msg[:80]}")
    if obs["negwin_empty_frames"]:
        if not obs["fixed"]:
            bad("negative-window-crash", "empty DATA frame sent on a stream whose flow-control window is negative (data[:window] slice)")
        else:
            bad("negative-window-empty-frame", "empty DATA frame sent on a stream whose flow-control window is negative")
    for o, name, msg in obs["peer_errors"]:
        bad("peer-protocol-error", f"conforming h2 peer on connection {o} rejected the proxy output: {name} {msg[:60]}")

    # ---- mapping and queue of every Http2Client (implementation state)
    for l in obs["logs"]:
        if l["role"] != "client" or not l["steps"]:
            continue
        last = None
        for s in l["steps"]:
            sn = s.get("snap")
            if sn is None or s.get("exc"):
                continue
            last = sn
            if wf:
                our, their = dict(map(tuple, sn["our"])), dict(map(tuple, sn["their"]))
                if any(their.get(j) != c for c, j in our.items()) or any(our.get(c) != j for j, c in their.items()):
                    bad("mapping-not-bijective", f"our_stream_id={sn['our']} their_stream_id={sn['their']}")
                if len(set(our.values())) != len(our):
                    bad("server-stream-shared", f"two client streams on one server stream: {sn['our']}")
            if not sn["dead"]:
                pass
            elif sn["queue"]:
                bad("queued-stream-lost-on-close" if not obs["fixq"] else "queued-stream-left-after-close",
                    f"connection closed while client streams {[k for k, _ in sn['queue']]} were waiting for capacity: "
                    "they are never opened and get no error")
        if last is not None and not last["dead"]:
            got = [k for k, _ in last["our"]] + [k for k, _ in last["queue"]]
            if got != l["arrivals"]:
                bad("queue-order", f"opened {last['our']} + waiting {last['queue']} is not the arrival order {l['arrivals']}")

    if case["k"] == "direct":
        # wire view of a directly driven Http2Client: client stream id == marker
        seen = [s["marker"] for s in obs["sreqs"]]
        if len(set(seen)) != len(seen) and wf:
            bad("stream-duplicated", f"request markers on the wire: {seen}")
        for l in obs["logs"]:
            if l["role"] == "client" and l["steps"]:
                sn = [s["snap"] for s in l["steps"] if s.get("snap") and not s.get("exc")]
                if sn and wf and seen != [k for k, _ in sn[-1]["our"]][:len(seen)]:
                    bad("open-order", f"requests reached the server in order {seen}, opened in order {sn[-1]['our']}")
        given = {}
        for op in case["ops"]:
            if op[0] == "ev" and op[1] == "data":
                given[op[2]] = given.get(op[2], b"") + bytes.fromhex(op[3])
        if wf:
            for s in obs["sreqs"]:
                if not _is_prefix(bytes.fromhex(s["body"]), given.get(s["marker"], b"")):
                    bad("request-body-mixup", f"server stream {s['j']} (marker {s['marker']}) carries bytes that are not a prefix of that stream's data")
        return v

    # ---- end to end
    creq = {c["marker"]: c for c in obs["creqs"]}
    markers = [s["marker"] for s in obs["sreqs"]]
    if len(set(markers)) != len(markers):
        bad("stream-duplicated", f"a request reached the server twice: markers {markers}")
    tok_owner = {}
    for s in obs["sreqs"]:
        if s["resp"] is not None:
            tok_owner[s["resp"]] = s
    quiet = "drain" in [op[0] for op in case["ops"]] and not obs["conn_closed_ops"] and not obs["crashed"] \
        and not obs["peer_errors"] and not obs["hooks_left"]
    for s in obs["sreqs"]:
        c = creq.get(s["marker"])
        if c is None:
            bad("request-from-nowhere", f"server saw marker {s['marker']} that no client stream sent")
            continue
        sb, cbd = bytes.fromhex(s["body"]), bytes.fromhex(c["body"])
        if not _is_prefix(sb, cbd):
            bad("request-body-mixup", f"server stream {s['j']} for request {s['marker']} carries {s['body'][:40]}.., client sent {c['body'][:40]}..")
        if s["ended"] and (sb != cbd or not c["ended"] or s["trl"] != c["trl"]):
            bad("request-mismatch", f"request {s['marker']} ended upstream with body/trailers different from what the client sent")
        if quiet and c["ended"] and c["rst"] is None and s["rst"] is None and s["srst"] is None and c["rrst"] is None \
                and not s["ended"] and not c["resp"]:
            bad("request-incomplete", f"request {s['marker']} was completely sent by the client but did not completely reach the server")
    for c in obs["creqs"]:
        for status, tok in c["resp"]:
            if tok is None:
                continue
            s = tok_owner.get(tok)
            if s is None or s["marker"] != c["marker"]:
                bad("response-on-wrong-stream", f"client stream {c['sid']} (request {c['marker']}) received response {tok} "
                    f"sent for request {s['marker'] if s else None}")
                continue
            rb, sbd = bytes.fromhex(c["rbody"]), bytes.fromhex(s["sbody"])
            if not _is_prefix(rb, sbd):
                bad("response-body-mixup", f"client stream {c['sid']} received {c['rbody'][:40]}.., server sent {s['sbody'][:40]}..")
            if c["rended"] and (rb != sbd or c["rtrl"] != s["strl"] or not s["sended"]):
                bad("response-mismatch", f"response for request {c['marker']} ended at the client with body/trailers different from the server's")
        if c["rtrl"] is not None and not any(t is not None for _, t in c["resp"]):
            bad("trailers-without-response", f"client stream {c['sid']} received trailers but no response")
    if quiet:
        for s in obs["sreqs"]:
            c = creq.get(s["marker"])
            if c is None or s["resp"] is None or not s["sended"] or s["srst"] is not None or s["rst"] is not None:
                continue
            if c["ended"] and c["rst"] is None and c["rrst"] is None and not (c["rended"] and any(t == s["resp"] for _, t in c["resp"])):
                bad("response-incomplete", f"complete response {s['resp']} for request {s['marker']} did not completely reach the client")
    for f in obs["flows"]:
        c = creq.get(f["marker"])
        if c is None:
            continue
        if not f["req_streamed"] and f["req"] is not None and f["req"] != c["body"] and f["req"] != "":
            bad("flow-request-mixup", f"flow of request {f['marker']} holds request body {f['req'][:40]}.., client sent {c['body'][:40]}..")
        r = f["resp"]
        if r and r["tok"] is not None:
            s = tok_owner.get(r["tok"])
            if s is None or s["marker"] != f["marker"]:
                bad("flow-response-mixup", f"flow of request {f['marker']} holds response {r['tok']} of request {s['marker'] if s else None}")
            elif not r["streamed"] and r["body"] not in (None, "") and r["body"] != s["sbody"]:
                bad("flow-response-mixup", f"flow of request {f['marker']} holds response body {r['body'][:40]}.., server sent {s['sbody'][:40]}..")
    return v


def nontrivial(case, obs):
    for l in obs["logs"]:
        for s in l["steps"]:
            sn = s.get("snap") or {}
            if len(sn.get("our", [])) >= 2 or sn.get("queue") or sn.get("bufs"):
                return True
    return False


def classify(case, obs):
    t = [case["k"] if case["k"] == "e2e" else ("direct-wf" if case.get("wf") else "direct-illformed")]
    if obs["bad"]:
        t.append("skipped-unmodelled")
    if any(l["nested"] for l in obs["logs"]):
        t.append("skipped-nested")
    if obs["crashed"]:
        t.append("crash")
    snaps = [s["snap"] for l in obs["logs"] for s in l["steps"] if s.get("snap")]
    if any(sn.get("queue") for sn in snaps):
        t.append("queued")
    if any(len(sn.get("queue", [])) >= 2 for sn in snaps):
        t.append("queued>=2")
    if any(sn["bufs"] for sn in snaps):
        t.append("buffered")
    if any(sn["trl"] for sn in snaps):
        t.append("trailers-queued")
    if any(sn["dead"] for sn in snaps):
        t.append("conn-dead")
    mx = max([len(sn.get("our", [])) for sn in snaps] or [0])
    t.append("opened=%d" % min(mx, 4))
    if obs["negwin_empty_frames"]:
        t.append("negative-window")
    if any(len(l["steps"]) and l["role"] == "server" and any(o[0] == "F" and o[1] == "H" and o[3] == "errresp" for s in l["steps"] for o in s["out"]) for l in obs["logs"]):
        t.append("error-response")
    return t
