"""C04 — Blocked layers process events exactly once, in order (mitmproxy/proxy/layer.py)."""
from lib.coqterm import cbool, clist, copt

ID = "C04"
QUICK_N = 2500
THOROUGH_N = 20000
SHARD = 400
RULE = ("4% real-layer cases (an h2 client with 2-4 concurrent streams on a real HttpLayer, HTTP/1 or HTTP/2 upstream, hooks and connection attempts deferred and completed in a generated order: at quiescence no layer is paused, no completion sits in a foreign queue, every request went upstream once); otherwise handler tables (<=4 entries, each a program of <=5 yields with blocking flags and reply-dependent branches) x "
        "schedules of <=16 events mixing external events with completions for the awaited command (60%), for other "
        "outstanding/unknown commands (sibling completions) and duplicates; 45% of cases run the real NextLayer with a "
        "table-driven child and hook answers with/without a decision. Non-trivial = at least one event arrived while the "
        "layer was waiting (queued) or the NextLayer replayed buffered events; distinct by canonical JSON.")
TRUSTED = ["Coq 8.16.1 kernel; vm_compute for case evaluation",
           "model of Python generator send/next semantics as resumption programs (Model/LayerCore.v), tied by correspondence",
           "harness test layer interpreting the same handler tables as Model.LayerCore.table_handler",
           "command identity (`is`) modelled as equality of unique command ids"]
ASSUMPTIONS = ["debug logging branch (Layer.debug) not modelled", "no re-entrant handle_event calls while a command list is consumed"]

ME, NL, NLCTR = 7, 9, 2000
COQ_PRELUDE = "From MV Require Import Model.LayerCore.\n"


# ------------------------------------------------------------------ generator
def gen_ast(rng, depth):
    if depth == 0 or rng.chance(0.25):
        return ["ret"]
    if rng.chance(0.2):
        return ["if", gen_ast(rng, depth - 1), gen_ast(rng, depth - 1)]
    if rng.chance(0.15):
        # the handler installs another handler (self._handle_event = ...), possibly before or after a blocking yield
        return ["switch", rng.randint(0, 3), gen_ast(rng, depth - 1)]
    return ["yield", rng.randint(1, 9), rng.chance(0.45), gen_ast(rng, depth - 1)]


def gen_sched(rng, n, nl):
    evs = []
    eid = 0
    for _ in range(n):
        r = rng.random()
        if r < 0.5:
            eid += 1
            evs.append(["ext", rng.randint(0, 3), eid])
        else:
            evs.append(["done", None, rng.randint(0, 5)])  # cid filled adaptively while running the implementation
    return evs


def gen(rng, n, tier):
    out = []
    for _ in range(n):
        if rng.chance(0.04):
            # real layers: an HTTP/2 client with several concurrent streams on a real HttpLayer; every stream layer blocks on
            # its own commands (hooks, GetHttpConnection) while its siblings and its parent block on theirs.  Deferred hooks and
            # connection attempts are completed in a generated order; at quiescence nothing may still be paused.
            k = rng.randint(2, 4)
            out.append({"k": "httpmux", "n": k, "upstream": rng.choice(["h1", "h1", "h2"]), "same_host": rng.chance(0.8),
                        "defer_hooks": [rng.choice(["", "requestheaders", "request"]) for _ in range(k)],
                        "defer_open": rng.chance(0.8), "order": [rng.below(1000) for _ in range(24)]})
            continue
        table = [gen_ast(rng, rng.randint(1, 5)) for _ in range(rng.randint(1, 4))]
        nl = rng.chance(0.45)
        out.append({"k": "next" if nl else "layer", "aos": rng.chance(0.5), "table": table,
                    "evs": gen_sched(rng, rng.randint(1, 16), nl), "pick": [rng.below(1000) for _ in range(16)]})
    return out


# ------------------------------------------------------------------ implementation
def setup_impl():
    global layer, events, commands, context, connection, options, Proxyserver, TCmd, TEv, TDone, TL
    from dataclasses import dataclass
    from typing import Any
    from mitmproxy import connection, options
    from mitmproxy.addons.proxyserver import Proxyserver
    from mitmproxy.proxy import layer, events, commands, context

    class TCmd(commands.Command):
        def __init__(self, cid, tag, blocking):
            self.cid, self.tag, self.blocking = cid, tag, blocking

    class TEv(events.Event):
        def __init__(self, k):
            self._k = k

    @dataclass(repr=False)
    class TDone(events.CommandCompleted):
        command: TCmd
        reply: Any = None

    class TL(layer.Layer):
        def __init__(self, ctx, table):
            super().__init__(ctx)
            self.table, self.ctr, self.log = table, 0, []
            self.installed, self.stale = 0, []
            self._handle_event = self._handler(0)

        def _handler(self, mode):
            # one handler object per mode, installed by assigning self._handle_event (as real layers change state)
            def handle(ev, mode=mode):
                return self._run(ev, mode)
            return handle

        def _handle_event(self, ev):  # replaced in __init__
            raise AssertionError

        def _run(self, ev, mode):
            key = ev._k
            self.log.append(["H"] + list(key))
            if mode != self.installed:
                self.stale.append([list(key), mode, self.installed])
            k = key[1] if key[0] == "ext" else len(self.table) - 1
            a = self.table[(k + mode) % len(self.table)]
            last = None
            while True:
                if a[0] == "ret":
                    return
                if a[0] == "yield":
                    cmd = TCmd(self.ctr, a[1], a[2])
                    self.ctr += 1
                    if a[2]:
                        self.log.append(["P", cmd.cid])
                    r = yield cmd
                    if a[2]:
                        self.log.append(["R", cmd.cid, r])
                        last = r
                    a = a[3]
                elif a[0] == "switch":
                    self._handle_event = self._handler(a[1])
                    self.installed = a[1]
                    a = a[2]
                else:
                    a = a[1] if (last is not None and last % 2 == 1) else a[2]

    globals().update(TCmd=TCmd, TEv=TEv, TDone=TDone, TL=TL)


def _ctx():
    opts = options.Options()
    Proxyserver().load(opts)
    return context.Context(connection.Client(peername=("client", 1234), sockname=("127.0.0.1", 8080),
                                             timestamp_start=1605699329, state=connection.ConnectionState.OPEN), opts)


def _layers_of(top):
    seen, todo = [], [top]
    while todo:
        l = todo.pop()
        if l is None or any(l is x for x in seen) or not isinstance(l, layer.Layer):
            continue
        seen.append(l)
        for attr in ("child_layer", "layer", "_child_layer"):
            todo.append(getattr(l, attr, None))
        for attr in ("streams",):
            d = getattr(l, attr, None)
            if isinstance(d, dict):
                todo.extend(d.values())
    return seen


def run_httpmux(case):
    import h2.connection, h2.config, h2.events
    from lib.sansio import Driver, DEFER
    from mitmproxy.proxy.layers import http as http_layers
    from mitmproxy.proxy.layers.http import HTTPMode
    k = case["n"]
    state = {"flows": []}

    def policy(hook, drv):
        f = hook.args()[0]
        if hook.name in ("requestheaders", "request"):
            if not any(f is x for x in state["flows"]):
                state["flows"].append(f)
            i = [j for j, x in enumerate(state["flows"]) if x is f][0]
            if i < k and case["defer_hooks"][i] == hook.name:
                return DEFER

    def connect(conn, drv):
        if case["upstream"] == "h2":
            conn.alpn = b"h2"
        return DEFER if case["defer_open"] else None
    d = Driver(lambda ctx: http_layers.HttpLayer(ctx, HTTPMode.regular), policy=policy, connect=connect,
               client_kwargs={"alpn": b"h2"})
    d.start()
    cl = h2.connection.H2Connection(h2.config.H2Configuration(client_side=True))
    cl.initiate_connection()
    for i in range(k):
        host = "example.com" if case["same_host"] else f"h{i}.example.com"
        cl.send_headers(1 + 2 * i, [(":method", "GET"), (":scheme", "http"), (":authority", host), (":path", f"/{i}")], end_stream=True)
    d.data(0, cl.data_to_send())
    # complete everything that was deferred, in the generated order, until nothing is outstanding
    picks = list(case["order"])
    guard = 0
    while d.deferred and d.crashed is None and guard < 200:
        guard += 1
        j = (picks.pop(0) if picks else 0) % len(d.deferred)
        d.complete(d.deferred[j])
    paused, foreign = [], []
    for l in _layers_of(d.layer):
        if l._paused is not None:
            paused.append([type(l).__name__, type(l._paused.command).__name__])
        for ev in l._paused_event_queue:
            if isinstance(ev, events.CommandCompleted):
                foreign.append([type(l).__name__, type(ev).__name__])
    sent_paths = []
    if case["upstream"] == "h1":
        for t in d.trace:
            if t[0] == "send" and t[1] >= 1:
                b = bytes.fromhex(t[2])
                if b.startswith(b"GET /"):
                    sent_paths.append(b.split(b" ")[1].decode())
    else:
        for ci in range(1, len(d.conns)):
            sv = h2.connection.H2Connection(h2.config.H2Configuration(client_side=False, validate_inbound_headers=False))
            try:
                for ev in sv.receive_data(d.sent(ci)):
                    if isinstance(ev, h2.events.RequestReceived):
                        sent_paths.append(dict((a if isinstance(a, str) else a.decode(), b if isinstance(b, str) else b.decode()) for a, b in ev.headers)[":path"])
            except Exception as e:
                sent_paths.append("unparsable:" + type(e).__name__)
    return {"paused": paused, "foreign": foreign, "sent_paths": sent_paths, "crashed": d.crashed, "opens": sum(1 for t in d.trace if t[0] == "open"),
            "hooks": d.hook_names()}


def run_impl(case):
    if case["k"] == "httpmux":
        return run_httpmux(case)
    ctx = _ctx()
    child = TL(ctx, case["table"])
    nl = None
    top = child
    delivered = []
    orig = child.handle_event

    def logged(ev, _orig=orig):
        own = bool(child._paused and isinstance(ev, events.CommandCompleted) and ev.command is child._paused.command)
        delivered.append([list(ev._k), own])
        return _orig(ev)
    child.handle_event = logged
    top = child
    if case["k"] == "next":
        nl = layer.NextLayer(ctx, ask_on_start=case["aos"])
        top = nl
    cmds = {}       # cid -> command object
    out = []
    nlctr = [NLCTR]
    outstanding = []  # cids of blocking commands emitted, in order
    evs_used = []

    def blk(c):
        b = c.blocking
        if b is False:
            return ["n"]
        if b is True:
            return ["b"]
        return ["o", ME if b is child else (NL if b is nl else 99)]

    def note(c):
        if isinstance(c, TCmd):
            cid, tag = c.cid, c.tag
        else:
            cid = nlctr[0]
            nlctr[0] += 1
            tag = 1000 if isinstance(c, layer.NextLayerHook) else (1001 if isinstance(c, commands.CloseConnection) else 1999)
            c.cid = cid
        cmds[cid] = c
        if c.blocking is not False:
            outstanding.append(cid)
        out.append([cid, tag] + blk(c))

    for i, e in enumerate(case["evs"]):
        if e[0] == "ext":
            kind, eid = e[1], e[2]
            if nl is not None:
                if kind == 0:
                    ev = events.Start()
                elif kind == 1:
                    ev = events.DataReceived(ctx.client, bytes([eid % 256]))
                elif kind == 2:
                    ev = events.ConnectionClosed(ctx.client)
                else:
                    ev = events.ConnectionClosed(ctx.server)
                ev._k = ("ext", kind, eid)
            else:
                ev = TEv(("ext", kind, eid))
            evs_used.append(["ext", kind, eid])
        else:
            # choose the command this completion refers to: mostly the most recent outstanding blocking command
            p = case["pick"][i % len(case["pick"])]
            if e[1] is not None:
                cid = e[1]
            elif outstanding and p < 600:
                cid = outstanding[-1]
            elif outstanding and p < 800:
                cid = outstanding[p % len(outstanding)]
            else:
                cid = 500 + p % 12 if p < 950 else NLCTR + 500 + p % 3  # never the id of a command emitted later
            r = e[2]
            cmd = cmds.get(cid)
            if cmd is None:
                cmd = TCmd(cid, 999, False)
                cmds[cid] = cmd
            if nl is not None and isinstance(cmd, layer.NextLayerHook):
                if r % 2 == 1 and nl._paused and nl._paused.command is cmd and nl.layer is None:
                    nl.layer = child
                ev = events.HookCompleted(cmd)
            elif isinstance(cmd, TCmd):
                ev = TDone(cmd, r)
            else:
                ev = events.HookCompleted(cmd) if isinstance(cmd, commands.StartHook) else TDone(TCmd(cid, 999, False), r)
            ev._k = ("done", cid, r)
            evs_used.append(["done", cid, r])
        for c in top.handle_event(ev):
            note(c)
    case["evs"] = evs_used  # the concrete schedule (completion targets resolved), so the case replays exactly
    q = lambda l: [list(e._k) for e in l._paused_event_queue]
    w = lambda l: (l._paused.command.cid if l._paused else None)
    obs = {"out": out, "log": child.log, "child_waiting": w(child), "child_q": q(child),
           "delivered": [d[0] for d in delivered], "own": [d[1] for d in delivered], "stale": child.stale}
    if nl is not None:
        obs.update({"chosen": nl._handle is not None, "buffered": [list(e._k) for e in nl.events],
                    "pq": q(nl), "nl_waiting": w(nl)})
    return obs


# ------------------------------------------------------------------ Coq terms
def c_ast(a):
    if a[0] == "ret":
        return "ARet"
    if a[0] == "yield":
        return f"(AYield {a[1]} {cbool(a[2])} {c_ast(a[3])})"
    if a[0] == "switch":
        return f"(ASwitch {a[1]} {c_ast(a[2])})"
    return f"(AIfOdd {c_ast(a[1])} {c_ast(a[2])})"


def c_ev(e):
    return f"(Ext {e[1]} {e[2]})" if e[0] == "ext" else f"(Completed {e[1]} {e[2]})"


def c_cmd(c):
    b = {"n": "NotBlocking", "b": "Blocking"}.get(c[2]) or f"(Owned {c[3]})"
    return f"(mkCmd {c[0]} {c[1]} {b})"


def c_tr(log):
    items = []
    for l in log:
        if l[0] == "H":
            items.append(f"(THandle {c_ev(l[1:])})")
        elif l[0] == "R":
            items.append(f"(TResume {l[1]} {l[2]})")
    return clist(items, "titem")


def coq_case(case, obs):
    if case["k"] == "httpmux":
        return None
    table = clist([c_ast(a) for a in case["table"]], "ast")
    evs = clist([c_ev(e) for e in case["evs"]], "event")
    out = clist([c_cmd(c) for c in obs["out"]], "cmd")
    cw = copt(obs["child_waiting"], str, "nat")
    cq = clist([c_ev(e) for e in obs["child_q"]], "event")
    if case["k"] == "layer":
        return f"CLayer {table} {evs} {out} {c_tr(obs['log'])} {cw} {cq}"
    L = lambda k: clist([c_ev(e) for e in obs[k]], "event")
    return f"CNext {cbool(case['aos'])} {table} {evs} {out} {cbool(obs['chosen'])} {L('delivered')} {L('buffered')} {L('pq')} {cw} {cq}"


# ------------------------------------------------------------------ oracle (property on the implementation)
def oracle(case, obs):
    v = []
    if case["k"] == "httpmux":
        if obs["crashed"]:
            return [{"key": "real-layer-crash", "what": f"HttpLayer raised {obs['crashed']}"}]
        if obs["foreign"]:
            v.append({"key": "foreign-completion-queued", "what": f"at quiescence a paused layer holds a command completion in its event queue: {obs['foreign'][:3]} (a completion was delivered to a layer that did not issue the command)"})
        if obs["paused"]:
            v.append({"key": "never-resumed", "what": f"every deferred hook and connection attempt was completed, yet layers are still paused: {obs['paused'][:3]}"})
        want = sorted(f"/{i}" for i in range(case["n"]))
        if sorted(obs["sent_paths"]) != want:
            v.append({"key": "stream-not-resumed-with-own-completion", "what": f"requests {want} were made on {case['n']} concurrent streams, upstream saw {sorted(obs['sent_paths'])}"})
        return v
    if obs.get("stale"):
        ev, used, inst = obs["stale"][0]
        v.append({"key": "stale-handler", "what": f"event {ev} was handled by handler {used} although the layer had installed handler {inst} (self._handle_event) before the event was replayed: queued events must be handled by the layer as it is when they are replayed"})
    if any(c[2] == "b" for c in obs["out"]):
        v.append({"key": "blocking-leaks", "what": "a command left the layer with blocking=True"})
    # bracket discipline in the child/test layer log
    pending = None
    for l in obs["log"]:
        if l[0] == "H" and pending is not None:
            v.append({"key": "handled-while-waiting", "what": f"handler started for {l[1:]} while waiting for command {pending}"}); break
        if l[0] == "P":
            if pending is not None:
                v.append({"key": "handled-while-waiting", "what": "second pause while waiting"}); break
            pending = l[1]
        if l[0] == "R":
            if pending != l[1]:
                v.append({"key": "wrong-completion", "what": f"generator waiting for {pending} resumed with completion of {l[1]}"}); break
            pending = None
    handled = [l[1:] for l in obs["log"] if l[0] == "H"]
    resumed = [["done", l[1], l[2]] for l in obs["log"] if l[0] == "R"]
    if case["k"] == "layer" and obs["delivered"] != case["evs"]:
        v.append({"key": "harness", "what": "test layer did not receive the schedule"})
    rest = [e for e, own in zip(obs["delivered"], obs["own"]) if not own]
    owns = [e for e, own in zip(obs["delivered"], obs["own"]) if own]
    if handled + obs["child_q"] != rest:
        v.append({"key": "not-exactly-once-in-order", "what": f"handled+queued {handled + obs['child_q']} != arrivals minus own completions {rest}"})
    if resumed != owns:
        v.append({"key": "wrong-completion", "what": f"resumptions {resumed} != own completions that arrived {owns}"})
    if case["k"] == "next":
        hook_done = [e for e in case["evs"] if e[0] == "done" and e[1] >= NLCTR]
        # consumed hook completions: those that were awaited at arrival; recompute from the output: each hook command is awaited once
        allv = obs["delivered"] + obs["buffered"] + obs["pq"]
        rest2 = [e for e in case["evs"]]
        # remove consumed hook completions = first completion of each emitted hook id that arrives after its emission;
        # conservatively: the multiset difference must consist of hook completions only, and order of the rest must match
        it = iter(rest2)
        matched = all(any(x == e for x in it) for e in allv)  # allv is a subsequence of arrivals
        missing = len(rest2) - len(allv)
        if not matched:
            v.append({"key": "nextlayer-order", "what": "events delivered/buffered by NextLayer are not a subsequence of the arrivals"})
        else:
            # every arrival not accounted for must be a hook completion
            i = 0
            for e in rest2:
                if i < len(allv) and allv[i] == e:
                    i += 1
                elif not (e[0] == "done" and e[1] >= NLCTR):
                    v.append({"key": "nextlayer-lost-event", "what": f"event {e} neither delivered to the chosen layer nor buffered"}); break
        if obs["chosen"] and (obs["buffered"] or obs["pq"]):
            v.append({"key": "nextlayer-leftover", "what": "events still buffered after the layer was chosen"})
    return v


def nontrivial(case, obs):
    if case["k"] == "httpmux":
        return len(obs["sent_paths"]) >= 2
    if case["k"] == "layer":
        return any(l[0] == "R" for l in obs["log"]) and len(obs["log"]) > 3
    return obs["chosen"] and len(obs["delivered"]) > 1


def classify(case, obs):
    if case["k"] == "httpmux":
        return ["httpmux", "httpmux-" + case["upstream"], "httpmux-opens-%d" % min(obs["opens"], 4)]
    t = [case["k"]]
    if any(l[0] == "R" for l in obs["log"]):
        t.append("resumed")
    if obs["child_waiting"] is not None:
        t.append("ends-waiting")
    if obs["child_q"]:
        t.append("ends-with-queue")
    if case["k"] == "next":
        t.append("chosen" if obs["chosen"] else "undecided")
        if obs["pq"]:
            t.append("nl-queue")
    return t
