"""C04 — Blocked layers process events exactly once, in order (mitmproxy/proxy/layer.py)."""
from lib.coqterm import cbool, clist, copt

ID = "C04"
QUICK_N = 2500
THOROUGH_N = 40000
SHARD = 400
RULE = ("handler tables (<=4 entries, each a program of <=5 yields with blocking flags and reply-dependent branches) x "
        "schedules of <=16 events mixing external events with completions for the awaited command (60%), for other "
        "outstanding/unknown commands (sibling completions) and duplicates; 45% of cases run the real NextLayer with a "
        "table-driven child and hook answers with/without a decision. Non-trivial = at least one event arrived while the "
        "layer was waiting (queued) or the NextLayer replayed buffered events; distinct by canonical JSON.")
TRUSTED = ["Coq 8.16.1 kernel; vm_compute for case evaluation",
           "model of Python generator send/next semantics as resumption programs (Model/LayerCore.v), tied by correspondence",
           "harness test layer interpreting the same handler tables as Model.LayerCore.table_handler",
           "command identity (`is`) modelled as equality of unique command ids"]
ASSUMPTIONS = ["debug logging branch (Layer.debug) not modelled", "no re-entrant handle_event calls while a command list is consumed"]

ME, NL, NLCTR = 7, 9, 2000
COQ_PRELUDE = "From MV Require Import Model.LayerCore.\n"


# ------------------------------------------------------------------ generator
def gen_ast(rng, depth):
    if depth == 0 or rng.chance(0.25):
        return ["ret"]
    if rng.chance(0.2):
        return ["if", gen_ast(rng, depth - 1), gen_ast(rng, depth - 1)]
    return ["yield", rng.randint(1, 9), rng.chance(0.45), gen_ast(rng, depth - 1)]


def gen_sched(rng, n, nl):
    evs = []
    eid = 0
    for _ in range(n):
        r = rng.random()
        if r < 0.5:
            eid += 1
            evs.append(["ext", rng.randint(0, 3), eid])
        else:
            evs.append(["done", None, rng.randint(0, 5)])  # cid filled adaptively while running the implementation
    return evs


def gen(rng, n, tier):
    out = []
    for _ in range(n):
        table = [gen_ast(rng, rng.randint(1, 5)) for _ in range(rng.randint(1, 4))]
        nl = rng.chance(0.45)
        out.append({"k": "next" if nl else "layer", "aos": rng.chance(0.5), "table": table,
                    "evs": gen_sched(rng, rng.randint(1, 16), nl), "pick": [rng.below(1000) for _ in range(16)]})
    return out


# ------------------------------------------------------------------ implementation
def setup_impl():
    global layer, events, commands, context, connection, options, Proxyserver, TCmd, TEv, TDone, TL
    from dataclasses import dataclass
    from typing import Any
    from mitmproxy import connection, options
    from mitmproxy.addons.proxyserver import Proxyserver
    from mitmproxy.proxy import layer, events, commands, context

    class TCmd(commands.Command):
        def __init__(self, cid, tag, blocking):
            self.cid, self.tag, self.blocking = cid, tag, blocking

    class TEv(events.Event):
        def __init__(self, k):
            self._k = k

    @dataclass(repr=False)
    class TDone(events.CommandCompleted):
        command: TCmd
        reply: Any = None

    class TL(layer.Layer):
        def __init__(self, ctx, table):
            super().__init__(ctx)
            self.table, self.ctr, self.log = table, 0, []

        def _handle_event(self, ev):
            key = ev._k
            self.log.append(["H"] + list(key))
            k = key[1] if key[0] == "ext" else len(self.table) - 1
            a = self.table[k] if 0 <= k < len(self.table) else ["ret"]
            last = None
            while True:
                if a[0] == "ret":
                    return
                if a[0] == "yield":
                    cmd = TCmd(self.ctr, a[1], a[2])
                    self.ctr += 1
                    if a[2]:
                        self.log.append(["P", cmd.cid])
                    r = yield cmd
                    if a[2]:
                        self.log.append(["R", cmd.cid, r])
                        last = r
                    a = a[3]
                else:
                    a = a[1] if (last is not None and last % 2 == 1) else a[2]

    globals().update(TCmd=TCmd, TEv=TEv, TDone=TDone, TL=TL)


def _ctx():
    opts = options.Options()
    Proxyserver().load(opts)
    return context.Context(connection.Client(peername=("client", 1234), sockname=("127.0.0.1", 8080),
                                             timestamp_start=1605699329, state=connection.ConnectionState.OPEN), opts)


def run_impl(case):
    ctx = _ctx()
    child = TL(ctx, case["table"])
    nl = None
    top = child
    delivered = []
    orig = child.handle_event

    def logged(ev, _orig=orig):
        own = bool(child._paused and isinstance(ev, events.CommandCompleted) and ev.command is child._paused.command)
        delivered.append([list(ev._k), own])
        return _orig(ev)
    child.handle_event = logged
    top = child
    if case["k"] == "next":
        nl = layer.NextLayer(ctx, ask_on_start=case["aos"])
        top = nl
    cmds = {}       # cid -> command object
    out = []
    nlctr = [NLCTR]
    outstanding = []  # cids of blocking commands emitted, in order
    evs_used = []

    def blk(c):
        b = c.blocking
        if b is False:
            return ["n"]
        if b is True:
            return ["b"]
        return ["o", ME if b is child else (NL if b is nl else 99)]

    def note(c):
        if isinstance(c, TCmd):
            cid, tag = c.cid, c.tag
        else:
            cid = nlctr[0]
            nlctr[0] += 1
            tag = 1000 if isinstance(c, layer.NextLayerHook) else (1001 if isinstance(c, commands.CloseConnection) else 1999)
            c.cid = cid
        cmds[cid] = c
        if c.blocking is not False:
            outstanding.append(cid)
        out.append([cid, tag] + blk(c))

    for i, e in enumerate(case["evs"]):
        if e[0] == "ext":
            kind, eid = e[1], e[2]
            if nl is not None:
                if kind == 0:
                    ev = events.Start()
                elif kind == 1:
                    ev = events.DataReceived(ctx.client, bytes([eid % 256]))
                elif kind == 2:
                    ev = events.ConnectionClosed(ctx.client)
                else:
                    ev = events.ConnectionClosed(ctx.server)
                ev._k = ("ext", kind, eid)
            else:
                ev = TEv(("ext", kind, eid))
            evs_used.append(["ext", kind, eid])
        else:
            # choose the command this completion refers to: mostly the most recent outstanding blocking command
            p = case["pick"][i % len(case["pick"])]
            if e[1] is not None:
                cid = e[1]
            elif outstanding and p < 600:
                cid = outstanding[-1]
            elif outstanding and p < 800:
                cid = outstanding[p % len(outstanding)]
            else:
                cid = 500 + p % 12 if p < 950 else NLCTR + 500 + p % 3  # never the id of a command emitted later
            r = e[2]
            cmd = cmds.get(cid)
            if cmd is None:
                cmd = TCmd(cid, 999, False)
                cmds[cid] = cmd
            if nl is not None and isinstance(cmd, layer.NextLayerHook):
                if r % 2 == 1 and nl._paused and nl._paused.command is cmd and nl.layer is None:
                    nl.layer = child
                ev = events.HookCompleted(cmd)
            elif isinstance(cmd, TCmd):
                ev = TDone(cmd, r)
            else:
                ev = events.HookCompleted(cmd) if isinstance(cmd, commands.StartHook) else TDone(TCmd(cid, 999, False), r)
            ev._k = ("done", cid, r)
            evs_used.append(["done", cid, r])
        for c in top.handle_event(ev):
            note(c)
    case["evs"] = evs_used  # the concrete schedule (completion targets resolved), so the case replays exactly
    q = lambda l: [list(e._k) for e in l._paused_event_queue]
    w = lambda l: (l._paused.command.cid if l._paused else None)
    obs = {"out": out, "log": child.log, "child_waiting": w(child), "child_q": q(child),
           "delivered": [d[0] for d in delivered], "own": [d[1] for d in delivered]}
    if nl is not None:
        obs.update({"chosen": nl._handle is not None, "buffered": [list(e._k) for e in nl.events],
                    "pq": q(nl), "nl_waiting": w(nl)})
    return obs


# ------------------------------------------------------------------ Coq terms
def c_ast(a):
    if a[0] == "ret":
        return "ARet"
    if a[0] == "yield":
        return f"(AYield {a[1]} {cbool(a[2])} {c_ast(a[3])})"
    return f"(AIfOdd {c_ast(a[1])} {c_ast(a[2])})"


def c_ev(e):
    return f"(Ext {e[1]} {e[2]})" if e[0] == "ext" else f"(Completed {e[1]} {e[2]})"


def c_cmd(c):
    b = {"n": "NotBlocking", "b": "Blocking"}.get(c[2]) or f"(Owned {c[3]})"
    return f"(mkCmd {c[0]} {c[1]} {b})"


def c_tr(log):
    items = []
    for l in log:
        if l[0] == "H":
            items.append(f"(THandle {c_ev(l[1:])})")
        elif l[0] == "R":
            items.append(f"(TResume {l[1]} {l[2]})")
    return clist(items, "titem")


def coq_case(case, obs):
    table = clist([c_ast(a) for a in case["table"]], "ast")
    evs = clist([c_ev(e) for e in case["evs"]], "event")
    out = clist([c_cmd(c) for c in obs["out"]], "cmd")
    cw = copt(obs["child_waiting"], str, "nat")
    cq = clist([c_ev(e) for e in obs["child_q"]], "event")
    if case["k"] == "layer":
        return f"CLayer {table} {evs} {out} {c_tr(obs['log'])} {cw} {cq}"
    L = lambda k: clist([c_ev(e) for e in obs[k]], "event")
    return f"CNext {cbool(case['aos'])} {table} {evs} {out} {cbool(obs['chosen'])} {L('delivered')} {L('buffered')} {L('pq')} {cw} {cq}"


# ------------------------------------------------------------------ oracle (property on the implementation)
def oracle(case, obs):
    v = []
    if any(c[2] == "b" for c in obs["out"]):
        v.append({"key": "blocking-leaks", "what": "a command left the layer with blocking=True"})
    # bracket discipline in the child/test layer log
    pending = None
    for l in obs["log"]:
        if l[0] == "H" and pending is not None:
            v.append({"key": "handled-while-waiting", "what": f"handler started for {l[1:]} while waiting for command {pending}"}); break
        if l[0] == "P":
            if pending is not None:
                v.append({"key": "handled-while-waiting", "what": "second pause while waiting"}); break
            pending = l[1]
        if l[0] == "R":
            if pending != l[1]:
                v.append({"key": "wrong-completion", "what": f"generator waiting for {pending} resumed with completion of {l[1]}"}); break
            pending = None
    handled = [l[1:] for l in obs["log"] if l[0] == "H"]
    resumed = [["done", l[1], l[2]] for l in obs["log"] if l[0] == "R"]
    if case["k"] == "layer" and obs["delivered"] != case["evs"]:
        v.append({"key": "harness", "what": "test layer did not receive the schedule"})
    rest = [e for e, own in zip(obs["delivered"], obs["own"]) if not own]
    owns = [e for e, own in zip(obs["delivered"], obs["own"]) if own]
    if handled + obs["child_q"] != rest:
        v.append({"key": "not-exactly-once-in-order", "what": f"handled+queued {handled + obs['child_q']} != arrivals minus own completions {rest}"})
    if resumed != owns:
        v.append({"key": "wrong-completion", "what": f"resumptions {resumed} != own completions that arrived {owns}"})
    if case["k"] == "next":
        hook_done = [e for e in case["evs"] if e[0] == "done" and e[1] >= NLCTR]
        # consumed hook completions: those that were awaited at arrival; recompute from the output: each hook command is awaited once
        allv = obs["delivered"] + obs["buffered"] + obs["pq"]
        rest2 = [e for e in case["evs"]]
        # remove consumed hook completions = first completion of each emitted hook id that arrives after its emission;
        # conservatively: the multiset difference must consist of hook completions only, and order of the rest must match
        it = iter(rest2)
        matched = all(any(x == e for x in it) for e in allv)  # allv is a subsequence of arrivals
        missing = len(rest2) - len(allv)
        if not matched:
            v.append({"key": "nextlayer-order", "what": "events delivered/buffered by NextLayer are not a subsequence of the arrivals"})
        else:
            # every arrival not accounted for must be a hook completion
            i = 0
            for e in rest2:
                if i < len(allv) and allv[i] == e:
                    i += 1
                elif not (e[0] == "done" and e[1] >= NLCTR):
                    v.append({"key": "nextlayer-lost-event", "what": f"event {e} neither delivered to the chosen layer nor buffered"}); break
        if obs["chosen"] and (obs["buffered"] or obs["pq"]):
            v.append({"key": "nextlayer-leftover", "what": "events still buffered after the layer was chosen"})
    return v


def nontrivial(case, obs):
    if case["k"] == "layer":
        return any(l[0] == "R" for l in obs["log"]) and len(obs["log"]) > 3
    return obs["chosen"] and len(obs["delivered"]) > 1


def classify(case, obs):
    t = [case["k"]]
    if any(l[0] == "R" for l in obs["log"]):
        t.append("resumed")
    if obs["child_waiting"] is not None:
        t.append("ends-waiting")
    if obs["child_q"]:
        t.append("ends-with-queue")
    if case["k"] == "next":
        t.append("chosen" if obs["chosen"] else "undecided")
        if obs["pq"]:
            t.append("nl-queue")
    return t
