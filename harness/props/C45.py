"""C45 — Command-line arguments reach commands unchanged (mitmproxy/command_lexer.py, mitmproxy/command.py)."""
from lib.coqterm import cbool, clist, copt, ccodepoints, cN

ID = "C45"
QUICK_N = 5000
THOROUGH_N = 40000
SHARD = 400
COQ_PRELUDE = "From MV Require Import Model.Command.\n"
RULE = ("40% round trips: 1-3 arguments built from a dictionary of whitespace / both quotes / backslash escapes / "
        "unicode-space / astral / surrogate tokens, quoted with the REAL quote(), joined behind t.raw (CmdArgs, identity "
        "parse) or t.str (str, escape parse) and run through the REAL CommandManager.execute; 25% arbitrary command "
        "lines (adjacent tokens, unclosed quotes, tabs, unknown commands, fixed-arity t.two); 10% quote/unquote, 10% "
        "raw lexer, 10% _StrType.parse, 5% str.isspace; corpus adds the full isspace table and the finding seeds. "
        "thorough adds every argument of length <= 3 over a 10-character alphabet x 2 commands and every line tail of "
        "length <= 4 over a 6-character alphabet. Non-trivial = quoting changed the argument / the line has a quote, "
        "a tab or >= 2 words / the text has a backslash; distinct by canonical JSON.")
TRUSTED = ["Coq 8.16.1 kernel (coqc), vm_compute for case evaluation and witnesses",
           "harness/props/C45.py generator, observation of execute via a CommandManager subclass recording call_strings, comparison glue (Corr/C45.v)",
           "hand model of pyparsing 3.3 (Regex / Word / CharsNotIn / MatchFirst / ZeroOrMore.leave_whitespace / parse_string incl. expandtabs), of str.isspace, str.expandtabs and of re.sub + codecs unicode-escape in _StrType.parse; tied by correspondence only",
           "parse_partial's type bookkeeping (expected / next_params / valid) is abstracted: only value and the Space flag are modelled"]
ASSUMPTIONS = ["no registered command has a parameter annotated mitmproxy.types.Space (execute drops parts by that type)",
               "named unicode escapes (backslash N{name}) in str arguments are outside the model (cases skipped, counted by tag)",
               "keepTabs of command_lexer.expr is read from the live object and passed to the model as the keep_tabs parameter; theorems quantify over it"]

WS4 = " \r\n\t"
ARG_TOKENS = ["a", "b", "xyz", "0", "-", "=", "/", "~", "é", "λ", "\U0001F600", "\ud800", " ", "  ", "\t", "\n", "\r",
              '"', "'", '""', "''", "\\", "\\\\", "\\n", "\\t", "\\x22", "\\x41", "\\xZZ", "\\x4", "\\u00e9", "\\u12",
              "\\101", "\\7", "\\8", "\\777", "\\'", '\\"', "\\z", "\\N", "\\U0001F600", "\\U00110000", "\x0b", "\x0c",
              "\u00a0", "\u2003", "\u3000", "\x85", "\x1c", "\u200b", "x22", "{", "}", "\"'", "'\"", "say \"it's\""]
LINE_TOKENS = ["t.raw", "t.str", "t.two", "nope", " ", " ", " ", "  ", "\t", "\n", "\r", '"', "'", '"a b"', "'a b'", '"a"',
               "''", '""', "a", "b", "xy", '"t.raw"', "\x0b", "\u00a0", "\u3000", "\\n", "\\x22", "\\xZZ", "é", '"\t"',
               "'\"'", '"\'"', "\\", "a\tb", "\x1f", "\\N{DIGIT ONE}", "\\N{"]
ESC_TOKENS = ["\\", "\\\\", "\\n", "\\r", "\\t", "\\a", "\\b", "\\f", "\\v", "\\'", '\\"', "\\x", "\\x4", "\\x41", "\\xe9",
              "\\xfg", "\\x\n1", "\\0", "\\12", "\\123", "\\777", "\\1234", "\\8", "\\z", "\\u", "\\u00e9", "\\ud800",
              "\\u12g4", "\\U0001F600", "\\U00110000", "\\U0000004", "\\N", "\\N{", "\\N{}", "\\N{DIGIT ONE}", "\\N{nope}",
              "a", "1", "é", "\n", "}", "{", "x", "u", "\U0001F600", "\ud800", " "]


def _join(rng, toks, lo, hi):
    return "".join(rng.choice(toks) for _ in range(rng.randint(lo, hi)))


def gen(rng, n, tier):
    out = []
    if tier == "thorough":
        alpha = ["a", " ", "\t", '"', "'", "\\", "x", "2", "\x0b", "\u00a0"]

        def rec(prefix, depth, al):
            yield prefix
            if depth:
                for a in al:
                    yield from rec(prefix + a, depth - 1, al)
        for s in rec("", 3, alpha):
            for cmd in ("t.raw", "t.str"):
                out.append({"k": "rt", "cmd": cmd, "args": [s], "sep": " "})
        for s in rec("", 4, ["a", '"', "'", " ", "\t", "\x0b"]):
            out.append({"k": "line", "line": "t.raw " + s})
    for _ in range(n):
        r = rng.random()
        if r < 0.34:
            args = [_join(rng, ARG_TOKENS, 0, 5) for _ in range(rng.weighted([(6, 1), (3, 2), (1, 3)]))]
            out.append({"k": "rt", "cmd": rng.weighted([(6, "t.raw"), (4, "t.str")]), "args": args,
                        "sep": rng.weighted([(8, " "), (1, "  "), (1, "\t"), (1, "\n")])})
        elif r < 0.55:
            head = rng.weighted([(5, "t.raw "), (3, "t.str "), (1, "t.two "), (1, "")])
            out.append({"k": "line", "line": head + _join(rng, LINE_TOKENS, 0, 7)})
        elif r < 0.67:
            keys = rng.weighted([(6, ["tab"]), (1, ["tab", "tab"]), (1, ["shift tab"]), (1, ["tab", "shift tab"]),
                                 (1, ["left", "tab"]), (1, ["home", "tab"]), (1, ["tab", "end", "tab"]), (1, [])])
            c = {"k": "seq", "keys": keys, "pre": rng.chance(0.5)}
            if rng.chance(0.6):
                c.update({"cmd": rng.weighted([(6, "t.raw"), (4, "t.str")]), "sep": " ",
                          "args": [_join(rng, ARG_TOKENS, 0, 4) for _ in range(rng.weighted([(5, 1), (3, 2), (1, 3), (1, 0)]))]})
            else:
                head = rng.weighted([(4, "t.raw "), (3, "t.str "), (1, "t.two "), (1, "t.r"), (1, "t."), (1, "")])
                c["line"] = head + _join(rng, LINE_TOKENS, 0, 5)
            out.append(c)
        elif r < 0.72:
            out.append({"k": "q", "s": _join(rng, ARG_TOKENS, 0, 6)})
        elif r < 0.75:
            out.append({"k": "unq", "s": _join(rng, ['"', "'", "a", " ", "\\", '"a', "b'"], 0, 4)})
        elif r < 0.85:
            out.append({"k": "lex", "s": _join(rng, LINE_TOKENS + ARG_TOKENS, 0, 8)})
        elif r < 0.95:
            out.append({"k": "strparse", "s": _join(rng, ESC_TOKENS, 0, 7)})
        else:
            out.append({"k": "isspace", "s": _join(rng, [" ", "\t", "\x0b", "\u00a0", "\u2003", "\u3000", "\x85", "\x1c", "a",
                                                          "\u200b", "\x08", "\x0e", "\x21", "\u1680", "\u180e", "\u2028",
                                                          "\u202f", "\u205f", "\ufeff"], 0, 3)})
    return out


class _T:
    pass


_t = _T()


def setup_impl():
    import mitmproxy.types
    from mitmproxy import command, command_lexer, exceptions
    from mitmproxy.test import taddons

    class Rec(command.CommandManager):
        def call_strings(self, command_name, args):
            _t.call = [command_name, list(args)]
            return super().call_strings(command_name, args)

    class Addon:
        @command.command("t.raw")
        def raw(self, *args: mitmproxy.types.CmdArgs) -> None:
            _t.got = ["t.raw", list(args)]

        @command.command("t.str")
        def s(self, *args: str) -> None:
            _t.got = ["t.str", list(args)]

        @command.command("t.two")
        def two(self, a: str, b: mitmproxy.types.CmdArgs) -> None:
            _t.got = ["t.two", [a, b]]

    _t.ctx = taddons.context()
    _t.ctx.__enter__()
    def new_cm():
        cm = Rec(_t.ctx.master)
        cm.collect_commands(Addon())
        return cm

    _t.new_cm = new_cm
    _t.cm = new_cm()
    _t.space = mitmproxy.types.Space
    _t.lexer = command_lexer
    _t.exc = exceptions
    _t.strtype = mitmproxy.types.CommandTypes.get(str)
    _t.kt = bool(command_lexer.expr.keepTabs)


def _execute(line, cm=None):
    cm = cm or _t.cm
    _t.call = None
    _t.got = None
    try:
        cm.execute(line)
        out = ["ok"] + _t.got if _t.got is not None else ["other", "command not run"]
    except _t.exc.CommandError as e:
        if _t.call is None:
            out = ["invalid"]
        elif _t.call[0] not in cm.commands:
            out = ["unknown"]
        elif isinstance(e.__cause__, ValueError):
            out = ["parse"]
        else:
            out = ["mismatch"]
    except ValueError as e:
        out = ["unpack"] if _t.call is None else ["other", "ValueError"]
    except Exception as e:  # noqa
        out = ["other", type(e).__name__]
    return {"kt": _t.kt, "line": line, "call": _t.call, "out": out}


def _snap(cm, line):
    parts, _ = cm.parse_partial(line)
    return [[p.value, p.type == _t.space] for p in parts]


def _run_seq(case):
    """One CommandManager for a whole console interaction: (optional) parse, type the line into the real
    CommandEdit key by key, press the completion keys, then Enter (= execute the prompt text on the same manager);
    the same line on a fresh manager is the reference."""
    from mitmproxy.tools.console.commander import commander
    if "line" in case:
        want = case["line"]
    else:
        want = case["cmd"] + "".join(case["sep"] + _t.lexer.quote(a) for a in case["args"])
    master = _t.ctx.master
    cm = _t.new_cm()
    old = master.commands
    master.commands = cm
    try:
        pb = _snap(cm, want) if case["pre"] else None
        mode = "edit"
        try:
            edit = commander.CommandEdit(master, "")
            for ch in want:
                edit.keypress((80,), ch)
            line = edit.get_edit_text()
            for key in case["keys"]:
                edit.keypress((80,), key)
            text_after = edit.get_edit_text()
        except Exception:  # urwid cannot render some code points: drive the CommandBuffer directly
            mode = "buffer"
            buf = commander.CommandBuffer(master, "")
            for ch in want:
                buf.insert(ch)
            line = buf.text
            for key in case["keys"]:
                if key == "tab":
                    buf.cycle_completion()
                elif key == "shift tab":
                    buf.cycle_completion(False)
                elif key == "left":
                    buf.left()
                elif key == "home":
                    buf.cursor = 0
                elif key == "end":
                    buf.cursor = len(buf.text)
            text_after = buf.text
        r1 = _execute(line, cm)
        r2 = _execute(text_after, cm) if text_after != line else None
        pa = _snap(cm, line)
    finally:
        master.commands = old
    fresh = _t.new_cm()
    pf = _snap(fresh, line)
    f1 = _execute(line, fresh)
    f2 = _execute(text_after, fresh) if text_after != line else None
    return {"kt": _t.kt, "line": line, "typed_as_wanted": line == want, "mode": mode, "text_after": text_after,
            "pb": pb if (pb is not None and line == want) else pf, "pa": pa, "pf": pf,
            "call": r1["call"], "out": r1["out"], "out_f": f1["out"], "call_f": f1["call"],
            "out2": r2 and r2["out"], "out2_f": f2 and f2["out"]}


def run_impl(case):
    k = case["k"]
    if k == "seq":
        return _run_seq(case)
    if k == "rt":
        line = case["cmd"] + "".join(case["sep"] + _t.lexer.quote(a) for a in case["args"])
        return _execute(line)
    if k == "line":
        return _execute(case["line"])
    if k == "q":
        q = _t.lexer.quote(case["s"])
        return {"q": q, "back": _t.lexer.unquote(q)}
    if k == "unq":
        return {"r": _t.lexer.unquote(case["s"])}
    if k == "lex":
        import pyparsing
        try:
            return {"kt": _t.kt, "toks": list(_t.lexer.expr.parse_string(case["s"], parse_all=True))}
        except pyparsing.ParseException:
            return {"kt": _t.kt, "toks": None}
    if k == "strparse":
        try:
            return {"r": _t.strtype.parse(_t.cm, str, case["s"])}
        except ValueError:
            return {"r": None}
    if k == "isspace":
        return {"r": case["s"].isspace()}
    if k == "sptable":
        return {"r": [c for c in range(0x110000) if chr(c).isspace()]}
    raise KeyError(k)


def _cs(s):
    return ccodepoints(s)


def _cobs(out):
    if out[0] == "ok":
        return f"(OReceived {_cs(out[1])} {clist((_cs(a) for a in out[2]), 'str')})"
    return {"invalid": "OInvalid", "unpack": "OUnpack", "unknown": "OUnknown", "mismatch": "OMismatch",
            "parse": "OParse"}.get(out[0], "OOther")


def _ccall(call):
    if call is None:
        return "(@None (str * list str))"
    return f"(Some ({_cs(call[0])}, {clist((_cs(a) for a in call[1]), 'str')}))"


def coq_case(case, obs):
    k = case["k"]
    if k == "rt":
        if case["sep"] != " ":
            return f"Exec {cbool(obs['kt'])} {_cs(obs['line'])} {_ccall(obs['call'])} {_cobs(obs['out'])}"
        return (f"RoundTrip {cbool(obs['kt'])} {_cs(case['cmd'])} {clist((_cs(a) for a in case['args']), 'str')} "
                f"{_cs(obs['line'])} {_ccall(obs['call'])} {_cobs(obs['out'])}")
    if k == "seq":
        pp = lambda l: clist((f"({_cs(v)}, {cbool(sp)})" for v, sp in l), "(str * bool)")
        return (f"Session {cbool(obs['kt'])} {_cs(obs['line'])} {pp(obs['pb'])} {pp(obs['pa'])} "
                f"{_ccall(obs['call'])} {_cobs(obs['out'])}")
    if k == "line":
        return f"Exec {cbool(obs['kt'])} {_cs(obs['line'])} {_ccall(obs['call'])} {_cobs(obs['out'])}"
    if k == "q":
        return f"Quote {_cs(case['s'])} {_cs(obs['q'])} {_cs(obs['back'])}"
    if k == "unq":
        return f"Unq {_cs(case['s'])} {_cs(obs['r'])}"
    if k == "lex":
        return f"Lex {cbool(obs['kt'])} {_cs(case['s'])} {copt(obs['toks'], lambda t: clist((_cs(x) for x in t), 'str'), 'list str')}"
    if k == "strparse":
        return f"StrParse {_cs(case['s'])} {copt(obs['r'], _cs, 'str')}"
    if k == "isspace":
        return f"IsSpace {_cs(case['s'])} {cbool(obs['r'])}"
    if k == "sptable":
        return f"SpTable {clist((cN(c) for c in obs['r']), 'N')}"
    return None


# ---------------------------------------------------------------------------------------------
# Oracle: the property evaluated on the implementation's observation, with independent reference
# code (never the Coq model, never mitmproxy functions).

SIGS = {"t.raw": ("var", "arg"), "t.str": ("var", "str"), "t.two": ("fixed", ["str", "arg"])}


def ref_words(line, adj):
    """Split at unquoted whitespace. adj=True additionally splits at quote boundaries (the known deviation)."""
    words, cur, q = [], None, None
    for ch in line:
        if q is not None:
            cur += ch
            if ch == q:
                q = None
                if adj:
                    words.append(cur); cur = None
        elif ch in WS4:
            if cur is not None:
                words.append(cur); cur = None
        elif ch in "'\"":
            if adj and cur is not None:
                words.append(cur); cur = None
            cur = (cur or "") + ch
            q = ch
        else:
            cur = (cur or "") + ch
    if cur is not None:
        words.append(cur)
    return words


def ref_unq(w):
    return w[1:-1] if len(w) >= 2 and w[0] in "'\"" and w[-1] == w[0] else w


_SIMPLE = {"\\": "\\", "'": "'", '"': '"', "a": "\a", "b": "\b", "f": "\f", "n": "\n", "r": "\r", "t": "\t", "v": "\v"}
_HEX = "0123456789abcdefABCDEF"


def ref_unescape(s):
    """Python-literal style escapes as documented for str arguments; raises ValueError on a malformed one."""
    import unicodedata
    out, i, n = [], 0, len(s)
    while i < n:
        c = s[i]
        if c != "\\" or i + 1 >= n:
            out.append(c); i += 1; continue
        d = s[i + 1]
        if d in _SIMPLE:
            out.append(_SIMPLE[d]); i += 2; continue
        if d in "01234567":
            j = i + 1
            while j < n and j < i + 4 and s[j] in "01234567":
                j += 1
            out.append(chr(int(s[i + 1:j], 8))); i = j; continue
        width = {"x": 2, "u": 4, "U": 8}.get(d)
        if width:
            ds = s[i + 2:i + 2 + width]
            if len(ds) == width and "\n" not in ds:
                if all(x in _HEX for x in ds) and int(ds, 16) < 0x110000:
                    out.append(chr(int(ds, 16))); i += 2 + width; continue
                raise ValueError("bad hex escape")
        if d == "N" and s[i + 2:i + 3] == "{":
            j = s.find("}", i + 3)
            if j > i + 3:
                try:
                    out.append(unicodedata.lookup(s[i + 3:j]))
                except KeyError:
                    raise ValueError("unknown name")
                i = j + 1; continue
        out.append(c); i += 1
    return "".join(out)


def _deliver(words, esc):
    """What the registered test command should see for these (already unquoted) words."""
    if not words:
        return None
    name, args = words[0], words[1:]
    sig = SIGS.get(name)
    if sig is None:
        return None
    types = [sig[1]] * len(args) if sig[0] == "var" else sig[1]
    if len(types) != len(args):
        return ["mismatch"]
    vals = []
    for t, a in zip(types, args):
        if t == "str" and esc:
            try:
                a = ref_unescape(a)
            except ValueError:
                return ["parse"]
        vals.append(a)
    return ["ok", name, vals]


DEVS = ("tab-expanded", "adjacent-tokens-split", "unicode-space-dropped", "str-escape-interpreted")


def _explained(line, kt, devs):
    if "tab-expanded" in devs and not kt:
        line = line.expandtabs()
    words = ref_words(line, "adjacent-tokens-split" in devs)
    if "unicode-space-dropped" in devs:
        words = [w for w in words if not w.isspace()]
    return _deliver([ref_unq(w) for w in words], "str-escape-interpreted" in devs)


def oracle(case, obs):
    """Arguments reach the command unchanged (rt); arguments are split exactly at unquoted whitespace (line)."""
    k = case["k"]
    if k == "q":
        # quoting rule: the quoted form is one word for the reference splitter and unquotes to the input
        # unless the input has both quote characters (no representation exists; counted under x22 in rt cases)
        s = case["s"]
        if '"' in s and "'" in s:
            return []
        w = ref_words(obs["q"], False)
        if w != [obs["q"]] or ref_unq(obs["q"]) != s or obs["back"] != s:
            return [{"key": "quote-not-one-word", "what": f"quote({ascii(s)}) = {ascii(obs['q'])}"}]
        return []
    if k == "seq":
        v = []
        if obs["pb"] != obs["pf"] or obs["pa"] != obs["pf"]:
            v.append({"key": "parse-partial-not-pure",
                      "what": f"parse_partial({ascii(obs['line'])}) on one manager around keys {case['keys']}: before "
                              f"{ascii(obs['pb'])}, after {ascii(obs['pa'])}, fresh manager {ascii(obs['pf'])}"})
        if obs["out"] != obs["out_f"] or obs["call"] != obs["call_f"] or obs["out2"] != obs["out2_f"]:
            v.append({"key": "session-changes-execute",
                      "what": f"type {ascii(obs['line'])}, keys {case['keys']}, Enter -> {ascii(obs['out'])} / {ascii(obs['out2'])}; "
                              f"fresh manager -> {ascii(obs['out_f'])} / {ascii(obs['out2_f'])}"})
        if "args" in case and obs["typed_as_wanted"]:
            return v + oracle({"k": "rt", "cmd": case["cmd"], "args": case["args"], "sep": case["sep"]}, obs)
        return v + oracle({"k": "line", "line": obs["line"]}, obs)
    if k not in ("rt", "line"):
        return []
    line, kt, out = obs["line"], obs["kt"], obs["out"]
    if k == "rt":
        ideal = ["ok", case["cmd"], list(case["args"])]
    else:
        ideal = _deliver([ref_unq(w) for w in ref_words(line, False)], False)
        if ideal is None:
            return []
    if out == ideal:
        return []
    what = f"execute({ascii(line)}) -> {ascii(out)}, expected {ascii(ideal)}"
    expl = _explained(line, kt, DEVS)
    if out != expl:
        return [{"key": "unexpected-outcome", "what": what}]
    # attribute to the smallest sets of known deviations that reproduce the observation
    import itertools
    keys = set()
    for size in range(0, len(DEVS) + 1):
        hits = [set(d) for d in itertools.combinations(DEVS, size) if _explained(line, kt, d) == out]
        if hits:
            keys = set().union(*hits)
            break
    if k == "rt" and "\\x22" in line and any('"' in a and "'" in a for a in case["args"]):
        # the line already carries the x22 rewriting; only a str-typed parameter undoes it
        if SIGS[case["cmd"]][1] == "arg" or not keys:
            keys.add("both-quotes-x22")
    if not keys:
        return [{"key": "unexpected-outcome", "what": what}]
    return [{"key": key, "what": what} for key in sorted(keys)]


def nontrivial(case, obs):
    k = case["k"]
    if k == "seq":
        return any(key in ("tab", "shift tab") for key in case["keys"]) and len(obs["pf"]) >= 1
    if k == "rt":
        return any(a == "" or any(c in a for c in "'\" \r\n\t\\") for a in case["args"])
    if k in ("line", "lex"):
        s = case.get("line", case.get("s"))
        return any(c in s for c in "'\"\t") or len(s.split()) >= 2
    if k == "q":
        return obs["q"] != case["s"]
    if k == "strparse":
        return "\\" in case["s"]
    return True


def classify(case, obs):
    k = case["k"]
    tags = [k]
    if k == "seq":
        tags += ["seq-keys=" + "+".join(case["keys"]), "seq-mode=" + obs["mode"], "seq-out=" + obs["out"][0],
                 "seq-text-changed" if obs["text_after"] != obs["line"] else "seq-text-same",
                 "seq-last-nonspace" if obs["pf"] and not obs["pf"][-1][1] else "seq-last-space-or-empty"]
        return tags
    if k in ("rt", "line"):
        tags.append("out=" + obs["out"][0])
        tags.append("keepTabs=%d" % obs["kt"])
        line = obs["line"]
        if "\t" in line:
            tags.append("has-tab")
        if "\\N{" in line:
            tags.append("named-escape")
        if ref_words(line, True) != ref_words(line, False):
            tags.append("adjacent")
        if any(w.isspace() for w in ref_words(line, True)):
            tags.append("uspace-word")
        if line and line[-1] not in WS4 and len(ref_words(line, True)) and ref_unq(ref_words(line, True)[-1])[:1] in ("'", '"'):
            tags.append("unclosed-or-bare-quote")
    if k == "rt":
        tags.append(case["cmd"])
        tags.append("nargs=%d" % len(case["args"]))
        if any('"' in a and "'" in a for a in case["args"]):
            tags.append("both-quotes")
        if any("\\" in a for a in case["args"]):
            tags.append("backslash")
        tags.append("roundtrip-ok" if obs["out"] == ["ok", case["cmd"], list(case["args"])] else "roundtrip-changed")
    if k == "q":
        q, s = obs["q"], case["s"]
        tags.append("plain" if q == s else ("x22" if '"' in s and "'" in s else ("dq" if q[:1] == '"' else "sq")))
    if k == "strparse":
        tags.append("error" if obs["r"] is None else ("changed" if obs["r"] != case["s"] else "identity"))
    if k == "lex":
        tags.append("ntok=%d" % min(len(obs["toks"] or []), 6))
    return tags
